import Aurora.Model.Tree
/-!
# Model of `/repo/pkg/file/joiner/joiner.go` (`New`, `ReadAt`, `readAtOffset`, `subtrieSection`,
`Read`, `Seek`, `Size`) over `/repo/pkg/encryption/store/decrypt_store.go`'s `Get`

* The chunk store is a function `lookup : address → Option data` (`data` = 8-byte span ‖ payload).
  `storeGet` is `decryptingStore.Get`: 32-byte references are looked up as they are, 64-byte
  references are looked up by their first 32 bytes and the data is passed through
  `dec key data` (`decryptChunkData`, a parameter here — its own model belongs to C08), any
  other length is `ErrReferenceLength`.
* A Go slice `buffer` is `(len, mem)`: `mem` is the backing array *from the slice's start*, so
  `mem.length = cap(buffer)`; a read returns the new `mem`, which lets the theorems speak about
  the bytes between `len` and `cap`.
* `int64` values are `Nat` (offsets passed to `ReadAt` are assumed non-negative: a negative
  offset makes the real code panic inside an `errgroup` goroutine, which kills the process —
  the generator never produces one); `Seek`'s offset argument is an `Int`.
* The `errgroup` goroutines of `readAtOffset` are run in loop order (each one writes a disjoint
  part of the buffer and adds to `bytesRead`, so the order does not matter when no error occurs);
  the first error in loop order is the model's error.
* `subtrieSection`'s `for {}` loop has no bound in Go; the model runs it with fuel `subtrieSize`
  (`Lemmas/Joiner.lean` shows it is never exhausted when there is at least one reference,
  `ChunkSize ≥ 1` and `branching ≥ 2`).  Recursion depth of `readAtOffset` is bounded by `fuel`
  (exhaustion = error `.fuel`; the theorems show height+1 suffices).
* This is the code AFTER the repair `fix: joiner.ReadAt bounds the read by len(buffer)`:
  `readLen := int64(len(buffer))`.
-/
namespace Aurora.Joiner
open Aurora.Bmt (Bytes)
open Aurora.Tree (fromLe64)

inductive Err
  | notFound | refLength | malformed | fuel | panic
deriving Repr, DecidableEq

/-- `store.New(getter).Get(ctx, mode, addr)` returning `ch.Data()` -/
def storeGet (lookup : Bytes → Option Bytes) (dec : Bytes → Bytes → Bytes) (hashSize : Nat) (ref : Bytes) :
    Except Err Bytes :=
  if ref.length = hashSize then
    match lookup ref with
    | some d => .ok d
    | none => .error .notFound
  else if ref.length = 2 * hashSize then
    match lookup (ref.take hashSize) with
    | some d => .ok (dec (ref.drop hashSize) d)
    | none => .error .notFound
  else .error .refLength

/-- the `for { … branchSize *= branching }` loop of `subtrieSection` -/
def branchLoop (branching subtrieSize refs : Nat) : Nat → Nat → Nat
  | 0, bs => bs
  | fuel + 1, bs =>
    if subtrieSize - bs * (refs - 1) ≤ bs then bs       -- `whatsLeft <= branchSize`: break
    else branchLoop branching subtrieSize refs fuel (bs * branching)

/-- `subtrieSection(data, startIdx, refLen, subtrieSize)` (`C = boson.ChunkSize`) -/
def subtrieSection (C dataLen startIdx refLen subtrieSize : Nat) : Nat :=
  let refs := dataLen / refLen
  let branching := C / refLen
  let branchSize := branchLoop branching subtrieSize refs subtrieSize C
  if startIdx = (refs - 1) * refLen then subtrieSize - (refs - 1) * branchSize
  else branchSize

structure RS where
  mem : Bytes        -- backing array of the caller's buffer
  read : Nat         -- `*bytesRead`
deriving Repr

/-- the reference loop of `readAtOffset` (`k` = iterations left); `rec` is the recursive call
    made by the goroutine -/
def refLoop (get : Bytes → Except Err Bytes) (C refLen : Nat) (data : Bytes) (subTrieSize : Nat)
    (rec : Bytes → Nat → Nat → Nat → Nat → Nat → RS → Except Err RS) :
    Nat → Nat → Nat → Nat → Nat → Nat → RS → Except Err RS
  | 0, _, _, _, _, _, st => .ok st
  | k + 1, cursor, cur, off, bufferOffset, bytesToRead, st =>
    if bytesToRead = 0 then .ok st                                         -- break
    else
      let sec := subtrieSection C data.length cursor refLen subTrieSize
      if cur + sec < off then                                               -- fast forward
        refLoop get C refLen data subTrieSize rec k (cursor + refLen) (cur + sec) off bufferOffset bytesToRead st
      else if data.length < cursor + refLen then .error .panic             -- `data[cursor:cursor+refLength]`
      else
        let address := (data.drop cursor).take refLen
        let currentReadSize := min (min (sec - (off - cur)) bytesToRead) sec
        match get address with
        | .error e => .error e
        | .ok ch =>
          if ch.length < 8 then .error .panic                              -- `ch.Data()[8:]`
          else
            let subtrieSpan := fromLe64 ch
            if subtrieSpan > sec then .error .malformed                    -- ErrMalformedTrie
            else
              match rec (ch.drop 8) cur subtrieSpan off bufferOffset currentReadSize st with
              | .error e => .error e
              | .ok st' =>
                refLoop get C refLen data subTrieSize rec k (cursor + refLen) (cur + sec) (cur + sec)
                  (bufferOffset + currentReadSize) (bytesToRead - currentReadSize) st'

/-- `readAtOffset(b, data, cur, subTrieSize, off, bufferOffset, bytesToRead, …)` -/
def readAtOffset (get : Bytes → Except Err Bytes) (C refLen : Nat) :
    Nat → Bytes → Nat → Nat → Nat → Nat → Nat → RS → Except Err RS
  | 0, _, _, _, _, _, _, _ => .error .fuel
  | fuel + 1, data, cur, subTrieSize, off, bufferOffset, bytesToRead, st =>
    if subTrieSize ≤ data.length then
      -- leaf data chunk
      if off < cur then .error .panic
      else
        let dataOffsetStart := off - cur
        if data.length < dataOffsetStart then .error .panic                -- `data[start:end]` with start > end
        else
          let dataOffsetEnd :=
            if bytesToRead > data.length - dataOffsetStart then data.length else dataOffsetStart + bytesToRead
          let bs := (data.take dataOffsetEnd).drop dataOffsetStart
          if st.mem.length < bufferOffset + bs.length then .error .panic    -- `b[bufferOffset:bufferOffset+len(bs)]`
          else
            .ok { mem := st.mem.take bufferOffset ++ bs ++ st.mem.drop (bufferOffset + bs.length),
                  read := st.read + bs.length }
    else
      refLoop get C refLen data subTrieSize (readAtOffset get C refLen fuel)
        ((data.length + refLen - 1) / refLen) 0 cur off bufferOffset bytesToRead st

structure J where
  rootData : Bytes
  span : Nat
  off : Nat := 0
  refLength : Nat
deriving Repr

/-- `joiner.New(ctx, getter, mode, address)` -/
def new (get : Bytes → Except Err Bytes) (address : Bytes) : Except Err J :=
  match get address with
  | .error e => .error e
  | .ok d =>
    if d.length < 8 then .error .panic
    else .ok { rootData := d.drop 8, span := fromLe64 d, refLength := address.length }

def J.size (j : J) : Nat := j.span

inductive IoErr | eof | other (e : Err)
deriving Repr, DecidableEq

structure ReadRes where
  n : Nat
  err : Option IoErr
  mem : Bytes
deriving Repr

/-- `ReadAt(buffer, off)` with `len(buffer) = len`, backing array `mem` (`cap(buffer) = mem.length`) -/
def J.readAt (get : Bytes → Except Err Bytes) (C fuel : Nat) (j : J) (len : Nat) (mem : Bytes) (off : Nat) : ReadRes :=
  if off ≥ j.span then { n := 0, err := some .eof, mem := mem }
  else
    let readLen := min len (j.span - off)
    match readAtOffset get C j.refLength fuel j.rootData 0 j.span off 0 readLen { mem := mem, read := 0 } with
    | .error e => { n := 0, err := some (.other e), mem := mem }
    | .ok st => { n := st.read, err := none, mem := st.mem }

/-- `Read(b)` -/
def J.read (get : Bytes → Except Err Bytes) (C fuel : Nat) (j : J) (len : Nat) (mem : Bytes) : J × ReadRes :=
  let r := j.readAt get C fuel len mem j.off
  match r.err with
  | some (.other _) => (j, r)
  | _ => ({ j with off := j.off + r.n }, r)

inductive SeekRes | pos (p : Nat) | eof | errWhence | errOffset
deriving Repr, DecidableEq

/-- `Seek(offset, whence)` — whence 2 counts backwards from the end (`offset = span - offset`) -/
def J.seek (j : J) (offset : Int) (whence : Int) : J × SeekRes :=
  let go (offset : Int) : J × SeekRes :=
    if offset < 0 then (j, .errOffset)
    else if offset > j.span then (j, .eof)
    else ({ j with off := offset.toNat }, .pos offset.toNat)
  if whence = 0 then go offset
  else if whence = 1 then go (offset + j.off)
  else if whence = 2 then
    let o : Int := j.span - offset
    if o < 0 then (j, .eof) else go o
  else (j, .errWhence)

end Aurora.Joiner
