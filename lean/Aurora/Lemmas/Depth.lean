import Aurora.Model.Depth
/-! Loop invariants of the two scans of `recalcDepth` (C22). -/
namespace Aurora.Topo

theorem capRadius_le_left (r x : Nat) : capRadius r x ≤ r := by unfold capRadius; split <;> omega
theorem capRadius_le_right (r x : Nat) : capRadius r x ≤ x := by unfold capRadius; split <;> omega

theorem recalcDepth_le_radius (p : Params) (bins : Bins) (r : Nat) : recalcDepth p bins r ≤ r := by
  unfold recalcDepth
  split
  · omega
  · split
    · exact capRadius_le_left _ _
    · exact capRadius_le_left _ _

theorem recalcDepth_le_su (p : Params) (bins : Bins) (r : Nat) : recalcDepth p bins r ≤ suOf p.quick bins := by
  unfold recalcDepth
  split
  · omega
  · split
    · have := capRadius_le_right r (candOf p.nnLow bins); omega
    · exact capRadius_le_right _ _

theorem recalcDepth_le_cand (p : Params) (bins : Bins) (r : Nat) : recalcDepth p bins r ≤ candOf p.nnLow bins := by
  unfold recalcDepth
  split
  · omega
  · split
    · exact capRadius_le_right _ _
    · have := capRadius_le_right r (suOf p.quick bins); omega

/-! ## the saturation scan -/

/-- invariant while bin `i` is being visited; `rem` = the peers of bin `i` not yet visited,
`r b` = number of reachable peers of bin `b` -/
def ScanInv (q : Nat) (r : Nat → Nat) (i : Nat) (rem : List Bool) (s : Scan) : Prop :=
  (∀ b, b < s.su → q ≤ r b) ∧
  (s.stopped = false →
    s.su ≤ i ∧ (s.su = i → s.cnt + rem.count true ≤ r i) ∧ (s.su < i → s.cnt ≤ r s.su))

theorem scanStep_inv (q : Nat) (r : Nat → Nat) (i : Nat) (fl : Bool) (rem : List Bool) (s : Scan)
    (hc : (fl :: rem).count true ≤ r i) (h : ScanInv q r i (fl :: rem) s) :
    ScanInv q r i rem (scanStep q i s fl) := by
  obtain ⟨h1, h2⟩ := h
  unfold scanStep
  by_cases hs : s.stopped = true
  · simp only [hs, if_true]
    exact ⟨h1, fun h => by simp [hs] at h⟩
  · have hs' : s.stopped = false := by simpa using hs
    obtain ⟨h3, h4, h5⟩ := h2 hs'
    simp only [hs', Bool.false_eq_true, if_false]
    cases fl with
    | false =>
      simp only [Bool.not_false, if_true]
      refine ⟨h1, fun _ => ⟨h3, ?_, h5⟩⟩
      intro e; have := h4 e; simpa using this
    | true =>
      simp only [Bool.not_true, Bool.false_eq_true, if_false]
      have hcnt : (true :: rem).count true = rem.count true + 1 := by simp
      rw [hcnt] at hc
      by_cases e : i = s.su
      · have e' : (i == s.su) = true := by simpa using e
        simp only [e', if_true]
        refine ⟨h1, fun _ => ⟨h3, ?_, ?_⟩⟩
        · intro _; have := h4 e.symm; rw [hcnt] at this; simp only []; omega
        · intro hlt; simp only [] at hlt; omega
      · have e' : (i == s.su) = false := by simpa using e
        have hlt : s.su < i := by omega
        have h5' := h5 hlt
        simp only [e', Bool.false_eq_true, if_false]
        by_cases hq : s.cnt < q
        · have : (decide (i > s.su) && decide (s.cnt < q)) = true := by simp [hlt, hq]
          simp only [this, if_true]
          exact ⟨h1, fun h => by simp at h⟩
        · have : (decide (i > s.su) && decide (s.cnt < q)) = false := by simp [hq]
          simp only [this, Bool.false_eq_true, if_false]
          have hsat : ∀ b, b < s.su + 1 → q ≤ r b := by
            intro b hb
            by_cases hb' : b < s.su
            · exact h1 b hb'
            · have : b = s.su := by omega
              subst this; omega
          by_cases hg : i > s.su + 1
          · simp only [hg, if_true]
            exact ⟨hsat, fun h => by simp at h⟩
          · simp only [hg, if_false]
            have hi : i = s.su + 1 := by omega
            refine ⟨fun b hb => hsat b (by simp only [] at hb; omega), fun _ => ⟨Nat.le_refl _, ?_, ?_⟩⟩
            · intro _; simp only []; omega
            · intro h; simp only [] at h; omega

theorem scanBin_inv (q : Nat) (r : Nat → Nat) (i : Nat) :
    ∀ (rem : List Bool) (s : Scan), rem.count true ≤ r i → ScanInv q r i rem s →
      ScanInv q r i [] (scanBin q i s rem) := by
  intro rem
  induction rem with
  | nil => intro s _ h; simpa [scanBin] using h
  | cons fl rem ih =>
    intro s hc h
    have h' := scanStep_inv q r i fl rem s hc h
    have hc' : rem.count true ≤ r i := by
      have : rem.count true ≤ (fl :: rem).count true := by simp [List.count_cons]
      omega
    have := ih (scanStep q i s fl) hc' h'
    simpa [scanBin, List.foldl_cons] using this

/-- between two bins: before bin `i` is visited -/
def ScanBtw (q : Nat) (r : Nat → Nat) (i : Nat) (s : Scan) : Prop :=
  (∀ b, b < s.su → q ≤ r b) ∧
  (s.stopped = false → s.su ≤ i ∧ (s.su = i → s.cnt = 0) ∧ (s.su < i → s.cnt ≤ r s.su))

theorem scanGo_inv (q : Nat) (orig : Bins) :
    ∀ (rest pre : Bins) (s : Scan), orig = pre ++ rest → ScanBtw q (reachIn orig) pre.length s →
      ∀ b, b < (scanGo q pre.length rest s).su → q ≤ reachIn orig b := by
  intro rest
  induction rest with
  | nil => intro pre s _ h; simpa [scanGo] using h.1
  | cons bin rest ih =>
    intro pre s ho h
    have hr : reachIn orig pre.length = bin.count true := by
      subst ho
      simp [reachIn, List.getD_eq_getElem?_getD]
    have hin : ScanInv q (reachIn orig) pre.length bin s := by
      refine ⟨h.1, fun hs => ?_⟩
      obtain ⟨a, b, c⟩ := h.2 hs
      refine ⟨a, fun e => ?_, c⟩
      rw [b e, hr]; omega
    have hout := scanBin_inv q (reachIn orig) pre.length bin s (by rw [hr]; exact Nat.le_refl _) hin
    have hbtw : ScanBtw q (reachIn orig) (pre ++ [bin]).length (scanBin q pre.length s bin) := by
      refine ⟨hout.1, fun hs => ?_⟩
      obtain ⟨a, b, c⟩ := hout.2 hs
      simp only [List.length_append, List.length_cons, List.length_nil]
      refine ⟨by omega, fun e => by omega, fun hlt => ?_⟩
      by_cases e : (scanBin q pre.length s bin).su = pre.length
      · have := b e; simp at this; rw [e]; omega
      · exact c (by omega)
    have := ih (pre ++ [bin]) (scanBin q pre.length s bin) (by simp [ho]) hbtw
    simpa [scanGo, List.length_append] using this

theorem scanAll_saturated (q : Nat) (bins : Bins) :
    ∀ b, b < (scanAll q bins).su → q ≤ reachIn bins b := by
  have := scanGo_inv q bins bins [] ⟨0, 0, false⟩ (by simp) (by
    refine ⟨fun b hb => by simp at hb, fun _ => ⟨Nat.le_refl _, fun _ => rfl, fun h => by simp at h⟩⟩)
  simpa [scanAll] using this

theorem suOf_le_scan (q : Nat) (bins : Bins) : suOf q bins ≤ (scanAll q bins).su := by
  unfold suOf
  simp only []
  split
  · rename_i h; simp at h; omega
  · exact Nat.le_refl _

theorem suOf_saturated (q : Nat) (bins : Bins) : ∀ b, b < suOf q bins → q ≤ reachIn bins b :=
  fun b hb => scanAll_saturated q bins b (Nat.lt_of_lt_of_le hb (suOf_le_scan q bins))

/-! ## the shallowest empty bin -/

theorem shallowestEmptyGo_spec : ∀ (bins : Bins) (i e : Nat), e < bins.length → bins.getD e [] = [] →
    (shallowestEmptyGo i bins).2 = false ∧ (shallowestEmptyGo i bins).1 ≤ i + e := by
  intro bins
  induction bins with
  | nil => intro i e h; simp at h
  | cons b rest ih =>
    intro i e he hb
    unfold shallowestEmptyGo
    by_cases hemp : b.isEmpty = true
    · simp [hemp]
    · simp only [hemp, Bool.false_eq_true, if_false]
      cases e with
      | zero => simp at hb; simp [hb] at hemp
      | succ e =>
        have := ih (i + 1) e (by simpa using he) (by simpa using hb)
        exact ⟨this.1, by omega⟩

theorem suOf_le_empty (q : Nat) (bins : Bins) (e : Nat) (he : e < bins.length) (hb : bins.getD e [] = []) :
    suOf q bins ≤ e := by
  have := shallowestEmptyGo_spec bins 0 e he hb
  unfold suOf shallowestEmpty
  simp only []
  split
  · omega
  · rename_i h
    simp [this.1] at h
    omega

/-! ## the nearest-neighbour candidate scan -/

def sumReach (l : Bins) : Nat := (l.map (List.count true)).sum

theorem reachFrom_eq (bins : Bins) (d : Nat) : reachFrom bins d = sumReach (bins.drop d) := rfl

theorem sumReach_drop_le : ∀ (l : Bins) (j : Nat), sumReach (l.drop j) ≤ sumReach l := by
  intro l
  induction l with
  | nil => intro j; simp [sumReach]
  | cons b rest ih =>
    intro j
    cases j with
    | zero => simp
    | succ j => have := ih j; simp [sumReach] at this ⊢; omega

theorem reachFrom_anti (bins : Bins) {d c : Nat} (h : d ≤ c) : reachFrom bins c ≤ reachFrom bins d := by
  rw [reachFrom_eq, reachFrom_eq]
  have : bins.drop c = (bins.drop d).drop (c - d) := by
    rw [List.drop_drop]; congr 1; omega
  rw [this]
  exact sumReach_drop_le _ _

/-- invariant while bin `i` is visited by the candidate scan; `T` = reachable peers in bins `≥ i` -/
def CandInv (nn i T : Nat) (A : Nat → Prop) (rem : List Bool) (s : Cand) : Prop :=
  (s.stopped = false → s.cand = 0 ∧ s.ctr + rem.count true = T) ∧
  (s.stopped = true → A s.cand ∨ (s.cand = i ∧ nn ≤ T))

theorem candBin_inv (nn i T : Nat) (A : Nat → Prop) :
    ∀ (rem : List Bool) (s : Cand), CandInv nn i T A rem s → CandInv nn i T A [] (candBin nn i s rem) := by
  intro rem
  induction rem with
  | nil => intro s h; simpa [candBin] using h
  | cons fl rem ih =>
    intro s h
    have h' : CandInv nn i T A rem (candStep nn i s fl) := by
      obtain ⟨h1, h2⟩ := h
      unfold candStep
      by_cases hs : s.stopped = true
      · simp only [hs, if_true]
        exact ⟨fun h => by simp [hs] at h, h2⟩
      · have hs' : s.stopped = false := by simpa using hs
        obtain ⟨h3, h4⟩ := h1 hs'
        simp only [hs', Bool.false_eq_true, if_false]
        cases fl with
        | false =>
          simp only [Bool.not_false, if_true]
          exact ⟨fun _ => ⟨h3, by simpa using h4⟩, fun h => by simp [hs'] at h⟩
        | true =>
          simp only [Bool.not_true, Bool.false_eq_true, if_false]
          have hcnt : (true :: rem).count true = rem.count true + 1 := by simp
          rw [hcnt] at h4
          by_cases hn : s.ctr + 1 ≥ nn
          · simp only [hn, if_true]
            exact ⟨fun h => by simp at h, fun _ => Or.inr ⟨rfl, by omega⟩⟩
          · simp only [hn, if_false]
            exact ⟨fun _ => ⟨h3, by simp only []; omega⟩, fun h => by simp [hs'] at h⟩
    have := ih (candStep nn i s fl) h'
    simpa [candBin, List.foldl_cons] using this

theorem candGo_spec (nn : Nat) : ∀ (l : Bins) (i : Nat),
    ((candGo nn i l).stopped = false → (candGo nn i l).cand = 0 ∧ (candGo nn i l).ctr = sumReach l) ∧
    ((candGo nn i l).stopped = true → ∃ j, (candGo nn i l).cand = i + j ∧ nn ≤ sumReach (l.drop j)) := by
  intro l
  induction l with
  | nil => intro i; simp [candGo, sumReach]
  | cons b rest ih =>
    intro i
    obtain ⟨ih1, ih2⟩ := ih (i + 1)
    have hinv : CandInv nn i (sumReach (b :: rest))
        (fun c => ∃ j, c = i + 1 + j ∧ nn ≤ sumReach (rest.drop j)) b (candGo nn (i + 1) rest) := by
      refine ⟨fun hs => ?_, fun hs => Or.inl (ih2 hs)⟩
      obtain ⟨a, c⟩ := ih1 hs
      refine ⟨a, ?_⟩
      rw [c]; simp [sumReach]; omega
    have := candBin_inv nn i _ _ b _ hinv
    obtain ⟨o1, o2⟩ := this
    have e : candGo nn i (b :: rest) = candBin nn i (candGo nn (i + 1) rest) b := rfl
    rw [e]
    refine ⟨fun hs => ?_, fun hs => ?_⟩
    · obtain ⟨a, c⟩ := o1 hs
      exact ⟨a, by simpa using c⟩
    · rcases o2 hs with ⟨j, hj, hn⟩ | ⟨hc, hn⟩
      · exact ⟨j + 1, by omega, by simpa using hn⟩
      · exact ⟨0, by omega, by simpa using hn⟩

theorem candOf_spec (nn : Nat) (bins : Bins) (h : 0 < candOf nn bins) : nn ≤ reachFrom bins (candOf nn bins) := by
  obtain ⟨h1, h2⟩ := candGo_spec nn bins 0
  unfold candOf candAll at *
  by_cases hs : (candGo nn 0 bins).stopped = true
  · obtain ⟨j, hj, hn⟩ := h2 hs
    rw [reachFrom_eq, hj]; simpa using hn
  · have := (h1 (by simpa using hs)).1
    omega

/-! ## the depth depends only on per-bin counts -/

theorem scanStep_false (q i : Nat) (s : Scan) : scanStep q i s false = s := by
  unfold scanStep; split <;> simp

theorem scanBin_count (q i : Nat) : ∀ (fl : List Bool) (s : Scan),
    scanBin q i s fl = scanBin q i s (List.replicate (fl.count true) true) := by
  intro fl
  induction fl with
  | nil => intro s; simp
  | cons f fl ih =>
    intro s
    cases f with
    | false => simpa [scanBin, scanStep_false] using ih s
    | true => simpa [scanBin, List.replicate_succ] using ih (scanStep q i s true)

theorem candStep_false (nn i : Nat) (s : Cand) : candStep nn i s false = s := by
  unfold candStep; split <;> simp

theorem candBin_count (nn i : Nat) : ∀ (fl : List Bool) (s : Cand),
    candBin nn i s fl = candBin nn i s (List.replicate (fl.count true) true) := by
  intro fl
  induction fl with
  | nil => intro s; simp
  | cons f fl ih =>
    intro s
    cases f with
    | false => simpa [candBin, candStep_false] using ih s
    | true => simpa [candBin, List.replicate_succ] using ih (candStep nn i s true)

theorem scanGo_congr (q : Nat) : ∀ (l l' : Bins) (i : Nat) (s : Scan),
    l.map (List.count true) = l'.map (List.count true) → scanGo q i l s = scanGo q i l' s := by
  intro l
  induction l with
  | nil => intro l' i s h; cases l' with
    | nil => rfl
    | cons _ _ => simp at h
  | cons b rest ih =>
    intro l' i s h
    cases l' with
    | nil => simp at h
    | cons b' rest' =>
      simp only [List.map_cons, List.cons.injEq] at h
      simp only [scanGo]
      rw [scanBin_count q i b, scanBin_count q i b', h.1]
      exact ih rest' (i + 1) _ h.2

theorem candGo_congr (nn : Nat) : ∀ (l l' : Bins) (i : Nat),
    l.map (List.count true) = l'.map (List.count true) → candGo nn i l = candGo nn i l' := by
  intro l
  induction l with
  | nil => intro l' i h; cases l' with
    | nil => rfl
    | cons _ _ => simp at h
  | cons b rest ih =>
    intro l' i h
    cases l' with
    | nil => simp at h
    | cons b' rest' =>
      simp only [List.map_cons, List.cons.injEq] at h
      simp only [candGo]
      rw [candBin_count nn i b, candBin_count nn i b', h.1, ih rest' (i + 1) h.2]

theorem shallowestEmptyGo_congr : ∀ (l l' : Bins) (i : Nat),
    l.map List.length = l'.map List.length → shallowestEmptyGo i l = shallowestEmptyGo i l' := by
  intro l
  induction l with
  | nil => intro l' i h; cases l' with
    | nil => rfl
    | cons _ _ => simp at h
  | cons b rest ih =>
    intro l' i h
    cases l' with
    | nil => simp at h
    | cons b' rest' =>
      simp only [List.map_cons, List.cons.injEq] at h
      simp only [shallowestEmptyGo]
      have : b.isEmpty = b'.isEmpty := by
        cases b <;> cases b' <;> simp_all
      rw [this, ih rest' (i + 1) h.2]

/-- the per-bin summary the depth depends on: (reachable peers, all peers) -/
def binSummary (b : List Bool) : Nat × Nat := (b.count true, b.length)

theorem recalcDepth_congr (p : Params) (bins bins' : Bins) (r : Nat)
    (h : bins.map binSummary = bins'.map binSummary) : recalcDepth p bins r = recalcDepth p bins' r := by
  have hc : bins.map (List.count true) = bins'.map (List.count true) := by
    have := congrArg (List.map Prod.fst) h
    simpa [List.map_map, Function.comp_def, binSummary] using this
  have hl : bins.map List.length = bins'.map List.length := by
    have := congrArg (List.map Prod.snd) h
    simpa [List.map_map, Function.comp_def, binSummary] using this
  have h1 : binsLength bins = binsLength bins' := by unfold binsLength; rw [hl]
  have h2 : suOf p.quick bins = suOf p.quick bins' := by
    unfold suOf shallowestEmpty scanAll
    rw [shallowestEmptyGo_congr bins bins' 0 hl, scanGo_congr p.quick bins bins' 0 _ hc]
  have h3 : candOf p.nnLow bins = candOf p.nnLow bins' := by
    unfold candOf candAll
    rw [candGo_congr p.nnLow bins bins' 0 hc]
  unfold recalcDepth
  rw [h1, h2, h3]

/-- bin by bin, the same peers in some other slice order -/
inductive BinsPerm : Bins → Bins → Prop
  | nil : BinsPerm [] []
  | cons {b b' : List Bool} {l l' : Bins} : b.Perm b' → BinsPerm l l' → BinsPerm (b :: l) (b' :: l')

theorem summary_of_perm : ∀ (bins bins' : Bins), BinsPerm bins bins' →
    bins.map binSummary = bins'.map binSummary := by
  intro bins bins' h
  induction h with
  | nil => rfl
  | cons hp _ ih =>
    simp only [List.map_cons, ih, List.cons.injEq, and_true]
    simp only [binSummary, Prod.mk.injEq]
    exact ⟨hp.count_eq true, hp.length_eq⟩

end Aurora.Topo
