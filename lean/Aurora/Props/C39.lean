import Aurora.Lemmas.BitVector
/-!
# C39 — Bit vectors behave as boolean arrays

Property theorems only (helper lemmas are in `Aurora/Lemmas/BitVector.lean`).
The model is `Aurora/Model/BitVector.lean`, a transcription of
`/repo/pkg/bitvector/bitvector.go`; it is tied to the Go code by the C39
correspondence run (`./check C39`).  All statements are for every length, every
backing-slice length (also longer than needed) and every index / mask — no bound.
-/
namespace Aurora.BitVector

/-- Constructor error cases: `NewFromBytes` fails exactly for `l ≤ 0` or a backing
    slice that is too short; otherwise it wraps the slice unchanged. -/
theorem C39_newFromBytes_spec (b : List Byte) (l : Int) :
    (newFromBytes b l = none ↔ (l ≤ 0 ∨ (b.length : Int) * 8 < l)) ∧
    (∀ bv, newFromBytes b l = some bv → bv.b = b ∧ (bv.len : Int) = l ∧ WF bv) := by
  unfold newFromBytes
  constructor
  · by_cases h1 : l ≤ 0
    · simp [h1]
    · by_cases h2 : (b.length : Int) * 8 < l
      · simp [h2]
      · simp [h1, h2]
  · intro bv
    by_cases h1 : l ≤ 0
    · simp [h1]
    · by_cases h2 : (b.length : Int) * 8 < l
      · simp [h2]
      · simp only [h1, h2, if_false, Option.some.injEq]
        intro h; subst h
        refine ⟨rfl, ?_, ?_, ?_⟩ <;> simp only [WF] <;> omega

/-- `New(l)` for a positive length: the vector is well formed, has that length, a
    backing slice of exactly `⌈l/8⌉` bytes, and every bit reads false. -/
theorem C39_new_spec (l : Nat) (hl : 0 < l) :
    ∃ bv, new (l : Int) = some bv ∧ bv.len = l ∧ WF bv ∧ bv.b.length = (l + 7) / 8 ∧
      ∀ i, get bv i = false := by
  have hnb : newBytes l = (l + 7) / 8 := by unfold newBytes; split <;> omega
  have hlen : ¬ (((List.replicate (newBytes l) 0#8).length : Int) * 8 < (l : Int)) := by
    simp only [List.length_replicate, hnb]; omega
  have hl0 : ¬ ((l : Int) ≤ 0) := by omega
  refine ⟨{ len := l, b := List.replicate (newBytes l) 0#8 }, ?_, rfl, ?_, ?_, ?_⟩
  · unfold new newFromBytes
    simp only [Int.toNat_natCast, hl0, hlen, if_false]
  · simp only [WF, List.length_replicate, hnb]; omega
  · simp [hnb]
  · intro i
    unfold get bit
    simp only [List.getElem?_replicate]
    split <;> simp

/-- `New(l)` rejects non-positive lengths. -/
theorem C39_new_error (l : Int) (hl : l ≤ 0) : new l = none := by
  unfold new newFromBytes; simp [hl]

/-- Reading after `Set`/`Unset` (the unexported `set(i,v)`): bit `i` becomes `v`, every other
    bit — including those in the same byte and those past `len` — is unchanged; length and
    backing length are preserved.  Premise: `i` addresses an existing backing byte (otherwise
    Go panics with index-out-of-range; the driver reports `panic` there). -/
theorem C39_get_set (bv : BV) (i j : Nat) (v : Bool) (hi : i / 8 < bv.b.length) :
    get (set bv i v) j = (if j = i then v else get bv j) ∧
    (set bv i v).len = bv.len ∧ (set bv i v).b.length = bv.b.length :=
  ⟨get_set bv i j v hi, set_len bv i v, set_blen bv i v⟩

/-- As a boolean array: `set` is the array update. -/
theorem C39_abs_set (bv : BV) (i : Nat) (v : Bool) (hwf : WF bv) (hi : i < bv.len) :
    abs (set bv i v) = (abs bv).set i v := by
  have hib : i / 8 < bv.b.length := by have := hwf.2; omega
  apply List.ext_getElem
  · simp [abs]
  · intro n h1 h2
    simp only [abs, set_len, List.getElem_map, List.getElem_range, List.getElem_set]
    rw [get_set bv i n v hib]
    by_cases h : i = n
    · simp [h]
    · have : ¬ n = i := fun h' => h h'.symm
      simp [h, this]

/-- `SetBytes`: length mismatch is an error; otherwise every bit becomes `old || mask`. -/
theorem C39_setBytes_spec (bv : BV) (bs : List Byte) :
    (bs.length ≠ bv.b.length → setBytes bv bs = none) ∧
    (bs.length = bv.b.length → ∃ r, setBytes bv bs = some r ∧ r.len = bv.len ∧
        r.b.length = bv.b.length ∧
        ∀ j, get r j = (get bv j || bit (bs[j / 8]?.getD 0#8) (j % 8))) := by
  constructor
  · intro h; simp [setBytes, h]
  · intro h
    refine ⟨maskLoop true bs bv, by simp [setBytes, h], ?_⟩
    have key := fun j => maskFold_get true bs (bv.b.length * 8) bv (Nat.le_refl _) j
    refine ⟨(key 0).1, (key 0).2.1, ?_⟩
    intro j
    have := (key j).2.2
    unfold maskLoop
    rw [this]
    by_cases hj : j < bv.b.length * 8
    · by_cases hb : bit (bs[j / 8]?.getD 0#8) (j % 8) = true
      · simp [hj, hb]
      · simp [hb]
    · have hnone : bs[j / 8]? = none := by
        apply List.getElem?_eq_none; omega
      have : bit (bs[j / 8]?.getD 0#8) (j % 8) = false := by
        rw [hnone]; simp [bit]
      simp [hj, this]

/-- `UnsetBytes`: length mismatch is an error; otherwise every bit becomes `old && !mask`. -/
theorem C39_unsetBytes_spec (bv : BV) (bs : List Byte) :
    (bs.length ≠ bv.b.length → unsetBytes bv bs = none) ∧
    (bs.length = bv.b.length → ∃ r, unsetBytes bv bs = some r ∧ r.len = bv.len ∧
        r.b.length = bv.b.length ∧
        ∀ j, get r j = (get bv j && !bit (bs[j / 8]?.getD 0#8) (j % 8))) := by
  constructor
  · intro h; simp [unsetBytes, h]
  · intro h
    refine ⟨maskLoop false bs bv, by simp [unsetBytes, h], ?_⟩
    have key := fun j => maskFold_get false bs (bv.b.length * 8) bv (Nat.le_refl _) j
    refine ⟨(key 0).1, (key 0).2.1, ?_⟩
    intro j
    have := (key j).2.2
    unfold maskLoop
    rw [this]
    by_cases hj : j < bv.b.length * 8
    · by_cases hb : bit (bs[j / 8]?.getD 0#8) (j % 8) = true
      · simp [hj, hb]
      · simp [hb]
    · have hnone : bs[j / 8]? = none := by
        apply List.getElem?_eq_none; omega
      have : bit (bs[j / 8]?.getD 0#8) (j % 8) = false := by
        rw [hnone]; simp [bit]
      simp [hj, this]

/-- The all-bits-set test is exact for every well-formed vector, whatever the length of the
    backing slice: `Equals()` is true iff every one of the `len` bits reads true. -/
theorem C39_equals_iff (bv : BV) (hwf : WF bv) :
    equals bv = true ↔ ∀ i, i < bv.len → get bv i = true := by
  unfold equals
  simp only
  rw [equalsLoop_iff (bv.len % 8) (usedBytes bv.len) bv.b (usedBytes bv.len) 0 (by omega)]
  have hub : usedBytes bv.len = if bv.len % 8 = 0 then bv.len / 8 else bv.len / 8 + 1 := rfl
  constructor
  · intro h i hi
    have hk : i / 8 < usedBytes bv.len := by rw [hub]; split <;> omega
    have := h (i / 8) (Nat.zero_le _) hk
    unfold byteOk at this
    have hget : get bv i = bit (bv.b[i / 8]?.getD 0#8) (i % 8) := rfl
    rw [hget]
    split at this
    · rename_i hc
      rw [lowBitsSet_iff _ _ (by omega)] at this
      apply this
      rw [hub] at hc; split at hc <;> omega
    · rw [byte_ff_iff] at this
      exact this _ (Nat.mod_lt _ (by decide))
  · intro h k _ hk
    unfold byteOk
    split
    · rename_i hc
      rw [lowBitsSet_iff _ _ (by omega)]
      intro j hj
      have h8 : j < 8 := by omega
      rw [← get_mul_add bv k j h8]
      apply h
      rw [hub] at hc; split at hc <;> omega
    · rename_i hc
      rw [byte_ff_iff]
      intro j hj
      rw [← get_mul_add bv k j hj]
      apply h
      by_cases hr : bv.len % 8 = 0
      · simp only [hub, hr, if_true] at hk hc; omega
      · simp only [hub, hr, if_false] at hk hc; omega

/-- Encoding to bytes (`Bytes()` returns the backing slice, `Len()` the length) and decoding
    back reproduces the vector, hence every bit. -/
theorem C39_bytes_roundtrip (bv : BV) (hwf : WF bv) :
    newFromBytes bv.b (bv.len : Int) = some bv := by
  unfold newFromBytes
  have h1 : ¬ ((bv.len : Int) ≤ 0) := by have := hwf.1; omega
  have h2 : ¬ ((bv.b.length : Int) * 8 < (bv.len : Int)) := by have := hwf.2; omega
  have h3 := hwf.1
  simp [h1, h2]; omega

/-- Well-formedness is preserved by every mutator (so the theorems above apply along any
    operation sequence). -/
theorem C39_wf_preserved (bv : BV) (hwf : WF bv) :
    (∀ i v, WF (set bv i v)) ∧
    (∀ bs r, setBytes bv bs = some r → WF r) ∧ (∀ bs r, unsetBytes bv bs = some r → WF r) := by
  refine ⟨?_, ?_, ?_⟩
  · intro i v; simpa [WF] using hwf
  · intro bs r h
    by_cases hl : bs.length = bv.b.length
    · obtain ⟨r', h1, h2, h3, _⟩ := (C39_setBytes_spec bv bs).2 hl
      rw [h1] at h; cases h; simpa [WF, h2, h3] using hwf
    · rw [(C39_setBytes_spec bv bs).1 hl] at h; cases h
  · intro bs r h
    by_cases hl : bs.length = bv.b.length
    · obtain ⟨r', h1, h2, h3, _⟩ := (C39_unsetBytes_spec bv bs).2 hl
      rw [h1] at h; cases h; simpa [WF, h2, h3] using hwf
    · rw [(C39_unsetBytes_spec bv bs).1 hl] at h; cases h

/-- What the repair changed: the pre-repair loop bound (`len(bv.b)`) answers `false` for an
    all-set 8-bit vector built over a 2-byte slice.  (Historical witness; the harness replays
    it on the real code in every run.) -/
theorem C39_equalsOld_counterexample :
    let bv : BV := { len := 8, b := [0xff#8, 0x00#8] }
    WF bv ∧ (∀ i, i < bv.len → get bv i = true) ∧ equalsOld bv = false ∧ equals bv = true := by
  refine ⟨by decide, ?_, by decide, by decide⟩
  intro i hi
  have : i = 0 ∨ i = 1 ∨ i = 2 ∨ i = 3 ∨ i = 4 ∨ i = 5 ∨ i = 6 ∨ i = 7 := by
    simp only at hi; omega
  rcases this with h | h | h | h | h | h | h | h <;> subst h <;> decide

/-- Non-vacuity: a well-formed vector with a longer-than-needed backing slice exists and the
    premises of `C39_get_set` are met on it. -/
example : WF { len := 10, b := [0x01#8, 0x02#8, 0x00#8] } ∧ 9 / 8 < 3 := by decide

end Aurora.BitVector
