import Driver.Util
import Aurora.Model.Hive
/-! Driver for C29: runs the Hive model on the op lines of the harness.

Annotations: `book … | pub=<0|1> priv=<0|1>` (manet's verdict on the underlay);
`find … | conn=<hex,…> known=<hex,…> reply=<hex,…>` — the iteration orders of `Kad.EachPeer` /
`Kad.EachKnownPeer` right before the request and the overlays of the reply the real handler wrote.
The model checks that the observed orders are the peer sets it tracks, derives the two random
choices from the reply, checks their admissibility and that the model's reply under these
choices is the observed one. -/
namespace Driver.C29
open Aurora.Hive

structure S where
  conn : List Addr := []
  known : List Addr := []
  book : List (Addr × Rec) := []
  allow : Bool := false

def splitAnnot (op : List String) : List String × List String :=
  match op.span (· ≠ "|") with
  | (a, []) => (a, [])
  | (a, _ :: b) => (a, b)

def annot (an : List String) (key : String) : Option String :=
  (an.find? (fun t => t.startsWith (key ++ "="))).map (fun t => (t.drop (key.length + 1)).toString)

def parseList (s : String) : Option (List Addr) :=
  if s = "-" then some [] else (s.splitOn ",").mapM Driver.hexToBytes

def parseInts (s : String) : Option (List Int) :=
  if s = "-" then some [] else (s.splitOn ",").mapM Driver.parseInt

def sameSet (a b : List Addr) : Bool :=
  a.length == b.length && a.all (b.contains ·) && b.all (a.contains ·)

def addSet (l : List Addr) (a : Addr) : List Addr := if l.contains a then l else l ++ [a]

def idxOf (cands : List Rec) (o : Addr) : Option Nat :=
  let i := cands.findIdx (fun r => r.overlay == o)
  if i < cands.length then some i else none

def find (s : S) (req : Req) (conn known reply : List Addr) : String :=
  if !(sameSet conn s.conn && sameSet known s.known) then "oracle-mismatch" else
  let st : St := { conn := conn, known := known, book := s.book, allowPrivate := s.allow }
  let l := limits (clamp req.limit)
  let o0 := findNode st req [] []
  let k1 := min o0.connCands.length l.1
  let part1 := reply.take k1
  match part1.mapM (idxOf o0.connCands) with
  | none => "inadmissible conn-choice-not-a-candidate"
  | some c1 =>
    let o1 := findNode st req c1 []
    match (reply.drop k1).mapM (idxOf o1.knownCands) with
    | none => "inadmissible known-choice-not-a-candidate"
    | some c2 =>
      if !(decide (AdmChoice o1.connCands l.1 c1)) then "inadmissible conn-choice"
      else if !(decide (AdmChoice o1.knownCands l.2 c2)) then "inadmissible known-choice"
      else
        let r := Aurora.Hive.reply st req c1 c2
        if r.map (·.overlay) == reply then s!"ok {r.length}" else "inadmissible reply-differs"

def step (s : S) (op : List String) : S × String :=
  let (args, an) := splitAnnot op
  match args with
  | ["allow", b] =>
    if b = "1" then ({ s with allow := true }, "ok")
    else if b = "0" then ({ s with allow := false }, "ok") else (s, "bad-op")
  | ["book", o, _] =>
    match Driver.hexToBytes o, annot an "pub", annot an "priv" with
    | some o, some pu, some pr =>
      ({ s with book := (o, { overlay := o, pub := pu == "1", priv := pr == "1" }) :: s.book }, "ok")
    | _, _, _ => (s, "bad-op")
  | ["known", o] =>
    match Driver.hexToBytes o with
    | some o => ({ s with known := addSet s.known o }, "ok")
    | none => (s, "bad-op")
  | ["conn", o] =>
    match Driver.hexToBytes o with
    | some o => ({ s with known := addSet s.known o, conn := addSet s.conn o }, "ok")
    | none => (s, "bad-op")
  | ["disc", o] =>
    match Driver.hexToBytes o with
    | some o => ({ s with conn := s.conn.filter (· != o) }, "ok")
    | none => (s, "bad-op")
  | ["find", rq, lim, tg, ps] =>
    match Driver.hexToBytes rq, Driver.parseInt lim, Driver.hexToBytes tg, parseInts ps with
    | some rq, some lim, some tg, some ps =>
      match (annot an "conn").bind parseList, (annot an "known").bind parseList, (annot an "reply").bind parseList with
      | some c, some k, some r =>
        (s, find s { requester := rq, limit := lim, target := tg, pos := ps } c k r)
      | _, _, _ => (s, "bad-op")
    | _, _, _, _ => (s, "bad-op")
  | _ => (s, "bad-op")

def handler : Driver.Handler := { σ := S, init := {}, step := step }

end Driver.C29
