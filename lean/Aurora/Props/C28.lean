import Aurora.Lemmas.RouteProtoTerm
import Aurora.Generated.RouteSkips
/-!
# C28 — Route discovery and relaying are loop-free and terminate

Property theorems only (lemmas: `Aurora/Lemmas/RouteProto.lean`, `RouteProtoTerm.lean`).  The
model is `Aurora/Model/RouteProto.lean`: the handlers `onRouteReq` / `onRouteResp`, the synchronous
part of `FindRoute`, the pending table and the relay next-hop choice of `/repo/pkg/routetab`,
transcribed case by case (after the `fix:` commit that stops `doRouteResp` from extending the same
response once more for every further pending source), plus a network semantics: any number of
nodes, any neighbour relation, packets in flight; atomic steps *deliver* (to the destination's
handler, with any admissible Kademlia answer: candidate list ⊆ connected peers, `RandomSubset` ⊆
its argument), *drop*, *timeout* (a pending table loses entries) and *find* (a node starts a
discovery).  The handlers are tied to the Go code by the C28 correspondence run.

Quantification: every `Env` (every `NeighborAlpha`, every `MaxTTL` — no lower bound is needed —,
every topology), every schedule of the four step kinds, every admissible oracle; no bound on nodes,
messages or steps.  Honest nodes only (`verifyPath` is a stub in the code): all packets in flight
were written by the handlers.
-/
namespace Aurora.RouteProto
open Aurora.RouteTable

/-- Clause "every path a node records … consists of distinct nodes joined by actual neighbour links,
    is no longer than the hop limit, and never contains the recording node itself": in every
    reachable state of every network with a symmetric neighbour relation, each path stored at node
    `n` is duplicate-free, a walk along neighbour links, at most `MaxTTL` long, does not contain `n`,
    and ends in a neighbour of `n`; each path carried by a message in flight is a duplicate-free walk
    ending in the sender, and the message travels along a neighbour link. -/
theorem C28_paths_wellformed (e : Env) (symm : ∀ a b, e.nbr a b = e.nbr b a) (net : Net)
    (h : Reach e net) :
    (∀ n k, (aget (net.st n).table.paths k).isSome →
        k.Nodup ∧ IsWalk e k ∧ k.length ≤ e.ttl ∧ n ∉ k ∧ e.nbr n (lastHop k) = true) ∧
    (∀ p ∈ net.flight, e.nbr p.src p.dst = true ∧
        ∀ q ∈ bodyPaths p.body, q.Nodup ∧ IsWalk e q ∧ q.getLast? = some p.src) := by
  have hi := reach_inv symm h
  constructor
  · intro n k hk
    obtain ⟨h1, h2, h3, _, h5⟩ := (hi.1 n).1 k hk
    exact ⟨h1.1, h1.2, h3, h2, h5⟩
  · intro p hp
    refine ⟨(hi.2 p hp).1, fun q hq => ?_⟩
    obtain ⟨h1, h2⟩ := (hi.2 p hp).2 q hq
    exact ⟨h1.1, h1.2, h2⟩

/-- Clause "every path a node … returns": whatever `GetRoute(target)` returns at node `n` in a
    reachable state is a stored path, hence duplicate-free, a walk, within the hop limit and free
    of `n`; and it leads to the target (the target occurs before the last hop, C27). -/
theorem C28_returned_paths_wellformed (e : Env) (symm : ∀ a b, e.nbr a b = e.nbr b a) (net : Net)
    (h : Reach e net) (n tg : Node) (ps : List Path) (hg : RouteTable.get (net.st n).table tg = some ps) :
    ∀ k ∈ ps, k.Nodup ∧ IsWalk e k ∧ k.length ≤ e.ttl ∧ n ∉ k := by
  intro k hk
  have hs : (aget (net.st n).table.paths k).isSome := get_mem _ tg k (by rw [hg]; exact hk)
  obtain ⟨h1, h2, h3, h4, _⟩ := (C28_paths_wellformed e symm net h).1 n k hs
  exact ⟨h1, h2, h3, h4⟩

/-- The invariant is inductive for *every* single step, not only along runs from the empty network
    (so it also holds after restarts that keep well-formed tables). -/
theorem C28_wellformed_preserved (e : Env) (symm : ∀ a b, e.nbr a b = e.nbr b a) (a b : Net)
    (hi : NetInv e a) (hs : Step e a b) : NetInv e b :=
  step_inv symm hi hs

/-- Clause "route discovery terminates": for every topology, every `NeighborAlpha`, every `MaxTTL`
    and every schedule including message loss, there is no infinite run in which messages keep being
    delivered or dropped once no new discovery is started — the relation "any number of timeout
    steps followed by one deliver/drop step" is well-founded.  (Timeout steps alone only shrink
    pending tables and never create a message.)  Measure: the multiset of message ranks — requests
    above responses, a request's rank falls with its longest path, a response's with its shortest
    path, both cut off at `MaxTTL` — in the Dershowitz–Manna order; no bound on the fan-out is
    needed.  Holds from *every* state, reachable or not. -/
theorem C28_discovery_terminates (e : Env) : WellFounded (Progress e) :=
  progress_wf e

/-- What well-foundedness means operationally: there is no infinite sequence of states in which
    each is obtained from the previous one by timeouts followed by a delivery or a drop. -/
theorem C28_no_infinite_run (e : Env) (run : Nat → Net) : ¬ ∀ i, Progress e (run (i + 1)) (run i) := by
  intro h
  have hwf := C28_discovery_terminates e
  have : ∀ a, Acc (Progress e) a → ∀ i, run i = a → False := by
    intro a hacc
    induction hacc with
    | intro a _ ih =>
      intro i hi
      exact ih (run (i + 1)) (by rw [← hi]; exact h i) (i + 1) rfl
  exact this (run 0) (hwf.apply _) 0 rfl

/-- Each delivery strictly lowers the rank: every packet a handler writes has a smaller rank than the
    packet it handled (the per-step fact behind termination; it also bounds the length of any
    forwarding chain by `2·MaxTTL + 4`). -/
theorem C28_delivery_lowers_rank (e : Env) (o : Oracle) (net : Net) (p : Packet) (now : Nat) :
    ∀ p' ∈ (handle e o net p now).2, rank e.ttl p'.body < rank e.ttl p.body ∧ rank e.ttl p.body ≤ 2 * e.ttl + 3 := by
  intro p' hp'
  refine ⟨handle_rank e o net p now p' hp', ?_⟩
  cases p.body <;> simp only [rank] <;> omega

/-- Clause "relayed streams are never forwarded to a node already on their path, except to deliver
    to the target": whatever `onRelay` / `onRelayConnChain` may choose as next hop for a stream with
    path `path` (self is appended before choosing) is a connected peer, and if it already occurs on
    the path (or is the relaying node itself) then it is the target.  Holds in every state. -/
theorem C28_relay_never_revisits (e : Env) (self : Node) (st : NodeSt) (target : Node) (path : Path) :
    ∀ next ∈ relayNext e self st target path,
      e.nbr self next = true ∧ (next ∈ path ++ [self] → next = target) := by
  intro next hn
  unfold relayNext at hn
  split at hn
  · rename_i h
    simp at hn; subst hn
    exact ⟨h, fun _ => rfl⟩
  · obtain ⟨h1, h2⟩ := List.mem_filter.1 hn
    refine ⟨h2, fun hin => ?_⟩
    exfalso
    unfold nextHop at h1
    split at h1
    · simp at h1
    · rw [mem_dedup] at h1
      obtain ⟨r, hr, hrn⟩ := List.mem_map.1 h1
      have hc := (List.mem_filter.1 hr).2
      simp only [Bool.and_eq_true, Bool.not_eq_true', List.contains_eq_mem, decide_eq_false_iff_not] at hc
      rw [hrn] at hc
      exact hc.2 hin

/-- The same clause for the whole of `GetNextHopRandomOrFind`, discovery branch included: when a
    relaying node has no usable next hop, runs a route discovery inside the relay handler and picks
    again from what it has learned (whatever response arrived meanwhile, from whomever), the node it
    may pick is still a connected peer and is on the stream's path only if it is the target — in
    particular a route learned through the predecessor is not used.  Holds in every state, for
    every oracle and every response. -/
theorem C28_relay_after_discovery_never_revisits (e : Env) (o : Oracle) (self : Node) (st : NodeSt)
    (target : Node) (path : Path) (during : Option (Node × Resp)) (now : Nat) :
    ∀ next ∈ (relayOrFind e o self st target path during now).offer,
      e.nbr self next = true ∧ (next ∈ path ++ [self] → next = target) := by
  intro next hn
  unfold relayOrFind at hn
  dsimp only at hn
  split at hn
  · exact C28_relay_never_revisits e self st target path next hn
  · split at hn
    · simp at hn
    · split at hn
      · simp at hn
      · split at hn
        · simp at hn
        · split at hn
          · simp at hn
          · exact C28_relay_never_revisits e self _ target path next hn

/-- Non-vacuity of the discovery branch: node 0 (neighbours 1 and 3) relays a stream with path
    `[2, 1]` for target 5 and has no route; the response `[5, 4, 1]` from its predecessor 1 arrives
    while it waits: it has learned a route, but only through 1 — nothing to pick; with the response
    `[5, 4, 3]` from 3 it picks 3. -/
example :
    let e : Env := { alpha := 2, ttl := 5, nbr := fun a b => a == 0 && (b == 1 || b == 3) }
    let o : Oracle := { cands := [(1, 0), (3, 0)], pick := fun l k => l.take k }
    (relayOrFind e o 0 {} 5 [2, 1] (some (1, { dest := 5, paths := [[5, 4, 1]], utype := 1, ulist := [] })) 0).offer = [] ∧
    (get (relayOrFind e o 0 {} 5 [2, 1] (some (1, { dest := 5, paths := [[5, 4, 1]], utype := 1, ulist := [] })) 0).st.table 5).isSome ∧
    (relayOrFind e o 0 {} 5 [2, 1] (some (3, { dest := 5, paths := [[5, 4, 3]], utype := 1, ulist := [] })) 0).offer = [3] := by
  decide

section Skips
open Aurora.Generated.RouteSkips

/-- number of calls of `callee` inside `caller` that supply `skips` in the way `how` -/
def skipCalls (caller callee : String) (how : How) : Nat :=
  (calls.filter (fun c => c.caller == caller && c.callee == callee && decide (c.how = how))).length

/-- **static obligation** (by evaluation of the table regenerated from pkg/routetab/*.go on every
    run, harness/cmd/extract/route_skips.go): what `relayOrFind` assumes about route.go.  Both relay
    handlers hand `GetNextHopRandomOrFind` the items of `req.Paths` after self was appended;
    `GetNextHopRandomOrFind` looks the next hop up (at least) twice — before and after `FindRoute` —
    and every one of its lookups gets its own `skips...`; `getNextHopRandom`, `getNextHopEffective`
    pass `skips...` on to `Table.GetNextHop`; and no call of these functions anywhere in the package
    leaves the skip list out or supplies something the extractor does not follow.  The seeded change
    C28-1 (second `getNextHopRandom(target)` without `skips...`) yields a `.missing` row and this
    fails. -/
theorem C28_relay_skips_passed :
    (∀ c ∈ calls, c.how = .param ∨ c.how = .pathItems) ∧
    skipCalls "Service.onRelay" "GetNextHopRandomOrFind" .pathItems ≥ 1 ∧
    skipCalls "Service.onRelayConnChain" "GetNextHopRandomOrFind" .pathItems ≥ 1 ∧
    skipCalls "Service.GetNextHopRandomOrFind" "getNextHopRandom" .param ≥ 2 ∧
    skipCalls "Service.getNextHopRandom" "getNextHopEffective" .param ≥ 1 ∧
    skipCalls "Service.getNextHopEffective" "GetNextHop" .param ≥ 1 := by
  decide

end Skips

/-- The same for forwarded requests: `onRouteReq` never forwards a request to a node that is on one
    of its paths, unless that node is the requested target (reached because it is a neighbour). -/
theorem C28_request_never_revisits (e : Env) (o : Oracle) (self : Node) (st : NodeSt) (src : Node)
    (req : Req) (now : Nat) (adm : Adm e self o) :
    ∀ p ∈ (onRouteReq e o self st src req now).2, ∀ r, p.body = .req r →
      (∀ q ∈ req.paths, p.dst ∉ q) ∨ p.dst = req.dest := by
  intro p hp r hr
  unfold onRouteReq at hp
  dsimp only at hp
  split at hp
  · simp at hp
  · split at hp
    · simp at hp; subst hp; simp at hr
    · split at hp
      · right
        have := (sendReqs_ok self _ [req.dest] src false _).2.2.2 p (by unfold forwardReq at hp; exact hp)
        simpa using this.2.1
      · split at hp
        · simp at hp; subst hp; simp at hr
        · left
          have := (sendReqs_ok self _ _ src false _).2.2.2 p (by unfold forwardReq at hp; exact hp)
          have hsk := (getNeighbor_sub adm req.alpha req.paths.flatten p.dst this.2.1).2
          intro q hq hin
          exact hsk (List.mem_flatten.2 ⟨q, hq, hin⟩)

/-- What the repair changed: with two pending sources (1 and 2) for target 3 at node 0, the unrepaired
    `respForward` (the same message extended again for every further source) sends node 2 the path
    `[3, 0, 0]` — node 0 twice, not a walk —, which node 2 would record; the repaired one sends
    `[3, 0]` to both.  (Historical witness; the harness replays it on the real code in every run:
    case `fix-resp-two-sources`.) -/
theorem C28_respForwardOld_counterexample :
    let st : NodeSt := { presp := [(3, [⟨1, false⟩, ⟨2, false⟩])] }
    let resp : Resp := { dest := 3, paths := [[3]], utype := 0, ulist := [] }
    ((respForwardOld 0 st 3 3 resp).2.map (fun p => bodyPaths p.body)) = [[[3, 0]], [[3, 0, 0]]] ∧
    ((respForward 0 st 3 3 resp).2.map (fun p => bodyPaths p.body)) = [[[3, 0]], [[3, 0]]] := by
  decide

/-- Non-vacuity: a line network 0 – 1 – 2 (symmetric neighbour relation), an admissible oracle, and a
    reachable state with a request in flight. -/
def exEnv : Env := { alpha := 2, ttl := 4, nbr := fun a b => a + 1 == b || b + 1 == a }
def exOracle : Oracle := { cands := [(1, 0)], pick := fun l k => l.take k }

example : (∀ a b, exEnv.nbr a b = exEnv.nbr b a) ∧ Adm exEnv 0 exOracle ∧
    ∃ net, Reach exEnv net ∧ net.flight = [⟨0, 1, .req { dest := 2, alpha := 2, paths := [[0]], utype := 1, ulist := [] }⟩] := by
  refine ⟨?_, ⟨?_, ?_⟩, ?_⟩
  · intro a b; simp only [exEnv]; rw [Bool.or_comm]
  · intro c hc; simp [exOracle] at hc; subst hc; decide
  · intro l k x hx; exact List.mem_of_mem_take hx
  · have hadm : Adm exEnv 0 exOracle :=
      ⟨by intro c hc; simp [exOracle] at hc; subst hc; decide, fun l k x hx => List.mem_of_mem_take hx⟩
    have hs : ∃ res, startFind exEnv exOracle 0 (Net.init.st 0) 2 = some res ∧
        res.2.1 = [⟨0, 1, .req { dest := 2, alpha := 2, paths := [[0]], utype := 1, ulist := [] }⟩] :=
      ⟨_, rfl, rfl⟩
    obtain ⟨res, hs1, hs2⟩ := hs
    exact ⟨_, Reach.step Reach.init (Step.find Net.init 0 2 exOracle hadm res hs1), by simp [Net.init, hs2]⟩

end Aurora.RouteProto
