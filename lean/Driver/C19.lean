import Driver.Util
import Aurora.Model.Shed
/-! Driver for C19: runs the shed model (3 indexes, uint64 field "u", string field "s",
    uint64 vector "v", one pending batch) on the op lines of the harness. -/
namespace Driver.C19
open Aurora.Kv Aurora.Shed

def uKey : Bytes := fieldKey "u".toUTF8.toList
def sKey : Bytes := fieldKey "s".toUTF8.toList
def vName : Bytes := "v".toUTF8.toList

def parseIdx (s : String) : Option UInt8 :=
  match Driver.parseNat s with
  | some i => if i < 3 then some (indexId i) else none
  | none => none

def parseU64 (s : String) : Option Nat :=
  match Driver.parseNat s with
  | some n => if n < two64 then some n else none
  | none => none

def parseKeys (s : String) : Option (List Bytes) := (s.splitOn ",").mapM Driver.hexToBytes

def parseBit (s : String) : Option Bool :=
  if s = "1" then some true else if s = "0" then some false else none

def entryStr (e : Entry) : String := s!"{Driver.bytesToHex e.1}:{Driver.bytesToHex e.2}"

def resStr : Res → String
  | .ok => "ok"
  | .cberr => "cberr"
  | .err => "err"

def iterStr (r : List Entry × Res) : String :=
  let vis := if r.1.isEmpty then "-" else ",".intercalate (r.1.map entryStr)
  s!"{vis} {resStr r.2}"

def mkCb (mode : String) (n : Nat) : Option Callback :=
  let act : Option Act :=
    if mode = "all" then some .cont else if mode = "stop" then some .stop
    else if mode = "err" then some .err else none
  act.map fun a => fun vis _ => if mode ≠ "all" && vis.length + 1 == n then a else .cont

def optEntry : Option Entry → String
  | some e => entryStr e
  | none => "notfound"

/-- write directly (`batch = false`) or into the pending batch -/
def wr (db : DB) (batch : Bool) (w : Write) : DB := if batch then db.stage w else db.write w

def step (db : DB) (op : List String) : DB × String :=
  match op with
  | [o, i, k, v] =>
    if o = "put" ∨ o = "bput" then
      match parseIdx i, Driver.hexToBytes k, Driver.hexToBytes v with
      | some id, some k, some v => (wr db (o = "bput") (.put (ikey id k) v), "ok")
      | _, _, _ => (db, "bad-op")
    else (db, "bad-op")
  | ["del", i, k] =>
    match parseIdx i, Driver.hexToBytes k with
    | some id, some k => (db.write (.del (ikey id k)), "ok")
    | _, _ => (db, "bad-op")
  | ["bdel", i, k] =>
    match parseIdx i, Driver.hexToBytes k with
    | some id, some k => (db.stage (.del (ikey id k)), "ok")
    | _, _ => (db, "bad-op")
  | ["get", i, k] =>
    match parseIdx i, Driver.hexToBytes k with
    | some id, some k =>
      (db, match idxGet db.store id k with | some v => Driver.bytesToHex v | none => "notfound")
    | _, _ => (db, "bad-op")
  | ["has", i, k] =>
    match parseIdx i, Driver.hexToBytes k with
    | some id, some k => (db, Driver.boolStr (idxHas db.store id k))
    | _, _ => (db, "bad-op")
  | ["hasm", i, ks] =>
    match parseIdx i, parseKeys ks with
    | some id, some ks => (db, String.join ((idxHasMulti db.store id ks).map Driver.boolStr))
    | _, _ => (db, "bad-op")
  | ["fill", i, ks] =>
    match parseIdx i, parseKeys ks with
    | some id, some ks =>
      (db, match idxFill db.store id ks with
        | some vs => ",".intercalate (vs.map Driver.bytesToHex)
        | none => "notfound")
    | _, _ => (db, "bad-op")
  | ["bcommit"] => (db.commit, "ok")
  | ["bdrop"] => (db.drop, "ok")
  | ["iter", i, p, s, skip, rev, mode, n] =>
    let start : Option (Option Bytes) := if s = "~" then some none else (Driver.hexToBytes s).map some
    match parseIdx i, Driver.hexToBytes p, start, parseBit skip, parseBit rev, Driver.parseNat n with
    | some id, some p, some start, some skip, some rev, some n =>
      match mkCb mode n with
      | some cb => (db, iterStr (iterate db.store id { pfx := p, start := start, skip := skip, reverse := rev } cb))
      | none => (db, "bad-op")
    | _, _, _, _, _, _ => (db, "bad-op")
  | ["first", i, p] =>
    match parseIdx i, Driver.hexToBytes p with
    | some id, some p => (db, optEntry (first db.store id p))
    | _, _ => (db, "bad-op")
  | ["last", i, p] =>
    match parseIdx i, Driver.hexToBytes p with
    | some id, some p => (db, optEntry (last db.store id p))
    | _, _ => (db, "bad-op")
  | ["count", i] =>
    match parseIdx i with
    | some id => (db, toString (count db.store id))
    | none => (db, "bad-op")
  | ["countfrom", i, k] =>
    match parseIdx i, Driver.hexToBytes k with
    | some id, some k => (db, toString (countFrom db.store id k))
    | _, _ => (db, "bad-op")
  | ["uget"] => (db, toString (u64Get db.store uKey))
  | ["uinc"] => let v := incVal (u64Get db.store uKey); (db.write (.put uKey (u64Enc v)), toString v)
  | ["udec"] => let v := decVal (u64Get db.store uKey); (db.write (.put uKey (u64Enc v)), toString v)
  | ["buinc"] => let v := incVal (u64Get db.store uKey); (db.stage (.put uKey (u64Enc v)), toString v)
  | ["budec"] => let v := decVal (u64Get db.store uKey); (db.stage (.put uKey (u64Enc v)), toString v)
  | ["uput", n] =>
    match parseU64 n with
    | some n => (db.write (.put uKey (u64Enc n)), "ok")
    | none => (db, "bad-op")
  | ["buput", n] =>
    match parseU64 n with
    | some n => (db.stage (.put uKey (u64Enc n)), "ok")
    | none => (db, "bad-op")
  | ["sget"] => (db, Driver.bytesToHex (strGet db.store sKey))
  | ["sput", v] =>
    match Driver.hexToBytes v with
    | some v => (db.write (.put sKey v), "ok")
    | none => (db, "bad-op")
  | ["bsput", v] =>
    match Driver.hexToBytes v with
    | some v => (db.stage (.put sKey v), "ok")
    | none => (db, "bad-op")
  | [o, i] =>
    if o = "vget" ∨ o = "vinc" ∨ o = "vdec" ∨ o = "bvinc" ∨ o = "bvdec" then
      match parseU64 i with
      | some i =>
        let k := vecKey vName i
        let cur := u64Get db.store k
        if o = "vget" then (db, toString cur)
        else
          let v := if o = "vinc" ∨ o = "bvinc" then incVal cur else decVal cur
          (wr db (o = "bvinc" ∨ o = "bvdec") (.put k (u64Enc v)), toString v)
      | none => (db, "bad-op")
    else (db, "bad-op")
  | [o, i, n] =>
    if o = "vput" ∨ o = "bvput" then
      match parseU64 i, parseU64 n with
      | some i, some n => (wr db (o = "bvput") (.put (vecKey vName i) (u64Enc n)), "ok")
      | _, _ => (db, "bad-op")
    else (db, "bad-op")
  | ["reopen"] => (db.reopen, "ok")
  | _ => (db, "bad-op")

def handler : Driver.Handler := { σ := DB, init := DB.init, step := step }

end Driver.C19
