import Driver.Util
import Aurora.Model.Mantaray
/-! Driver for C10: the mantaray trie model (`Aurora.Mantaray.step`) on the op lines of the harness.
    Entries are 32 (plain) or 64 (encrypted manifest) copies of the reference byte; metadata is the
    canonical `k=v;k=v` string (`-` = none), opaque to the model. -/
namespace Driver.C10
open Aurora.Mantaray

structure St where
  s : State := State.new
  enc : Bool := false

def metaOk (s : String) : Bool :=
  if s = "-" then true else
  let kvs := s.splitOn ";"
  let parsed := kvs.map (fun kv => kv.splitOn "=")
  let okc (t : String) : Bool := t.toList.all (fun c => ('a' ≤ c && c ≤ 'z') || ('0' ≤ c && c ≤ '9'))
  let wf := parsed.all (fun f => match f with | [k, v] => k ≠ "" && okc k && okc v | _ => false)
  let keys := parsed.map (fun f => f.headD "")
  let rec sorted : List String → Bool
    | a :: b :: rest => decide (a < b) && sorted (b :: rest)
    | _ => true
  wf && sorted keys

def metaBytes (s : String) : Meta := if s = "-" then [] else s.toUTF8.toList
def metaStr (m : Meta) : String :=
  if m.isEmpty then "-" else String.ofList (m.map (fun b => Char.ofNat b.toNat))

def outStr : Out → String
  | .ok => "ok" | .notFound => "notfound" | .err => "err" | .noStore => "nostore"
  | .broken => "broken" | .panic => "panic"
  | .found e m => s!"found {Driver.bytesToHex e} {metaStr m}"
  | .bool b => Driver.boolStr b

def run1 (st : St) (op : Op) : St × String :=
  let r := step st.s op
  ({ st with s := r.1 }, outStr r.2)

def step (st : St) (op : List String) : St × String :=
  match op with
  | ["new", e] =>
    if e = "0" then ({ s := State.new, enc := false }, "ok")
    else if e = "1" then ({ s := State.new, enc := true }, "ok")
    else (st, "bad-op")
  | ["store"] => run1 st .store
  | ["reload"] => run1 st .reload
  | ["remove", p] => match Driver.hexToBytes p with | some p => run1 st (.remove p) | none => (st, "bad-op")
  | ["lookup", p] => match Driver.hexToBytes p with | some p => run1 st (.lookup p) | none => (st, "bad-op")
  | ["hasprefix", p] => match Driver.hexToBytes p with | some p => run1 st (.hasPrefix p) | none => (st, "bad-op")
  | ["add", p, r, m] =>
    match Driver.hexToBytes p, r.toNat? with
    | some p, some k =>
      if k < 1 || k > 255 || !metaOk m || r.toList.any (fun c => !(c.isDigit)) then (st, "bad-op")
      else run1 st (.add p (List.replicate (if st.enc then 64 else 32) (UInt8.ofNat k)) (metaBytes m))
    | _, _ => (st, "bad-op")
  | _ => (st, "bad-op")

def handler : Driver.Handler := { σ := St, init := {}, step := step }

end Driver.C10
