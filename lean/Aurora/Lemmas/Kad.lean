import Aurora.Model.Kad
/-! Lemmas for C24: the PSlice model behaves as a set per bin; effect of each Kad handler on the
connected / known sets. -/
namespace Aurora.Topo

/-! ## swap-with-last removal -/

theorem swapRemove_cons_succ (a b : Addr) (t : List Addr) (j : Nat) :
    swapRemove (a :: b :: t) (j + 1) = a :: swapRemove (b :: t) j := by
  unfold swapRemove
  simp
  by_cases h : j = t.length
  · simp [h]
  · simp [h]
    cases (b :: t).getLast? <;> simp

theorem swapRemove_zero (a b : Addr) (t : List Addr) :
    swapRemove (a :: b :: t) 0 = (b :: t).getLast (by simp) :: (b :: t).dropLast := by
  unfold swapRemove
  simp [List.getLast?_eq_some_getLast]

/-- removing index `i` keeps exactly the other elements -/
theorem swapRemove_perm : ∀ (l : List Addr) (i : Nat) (h : i < l.length),
    l.Perm (l[i] :: swapRemove l i) := by
  intro l
  induction l with
  | nil => intro i h; simp at h
  | cons a t ih =>
    intro i h
    cases t with
    | nil =>
      have : i = 0 := by simpa using h
      subst this
      simp [swapRemove]
    | cons b t =>
      cases i with
      | zero =>
        rw [swapRemove_zero]
        simp only [List.getElem_cons_zero]
        refine List.Perm.cons a ?_
        have h1 := List.dropLast_concat_getLast (l := b :: t) (by simp)
        have h2 : ((b :: t).dropLast ++ [(b :: t).getLast (by simp)]).Perm
            ([(b :: t).getLast (by simp)] ++ (b :: t).dropLast) := List.perm_append_comm
        rw [h1] at h2
        simpa using h2
      | succ j =>
        rw [swapRemove_cons_succ]
        have hj : j < (b :: t).length := by simpa using h
        have := ih j hj
        simp only [List.getElem_cons_succ]
        exact (List.Perm.cons a this).trans (List.Perm.swap _ _ _)

theorem swapRemove_idxOf_mem (l : List Addr) (a x : Addr) (ha : a ∈ l) :
    (x ∈ l ↔ x = a ∨ x ∈ swapRemove l (l.idxOf a)) := by
  have hi : l.idxOf a < l.length := List.idxOf_lt_length_iff.mpr ha
  have hp := swapRemove_perm l (l.idxOf a) hi
  rw [List.getElem_idxOf hi] at hp
  rw [hp.mem_iff]; simp

theorem swapRemove_idxOf_nodup (l : List Addr) (a : Addr) (ha : a ∈ l) (hn : l.Nodup) :
    a ∉ swapRemove l (l.idxOf a) ∧ (swapRemove l (l.idxOf a)).Nodup := by
  have hi : l.idxOf a < l.length := List.idxOf_lt_length_iff.mpr ha
  have hp := swapRemove_perm l (l.idxOf a) hi
  rw [List.getElem_idxOf hi] at hp
  exact List.nodup_cons.mp (hp.nodup_iff.mp hn)

/-! ## bins -/

theorem modifyAt_length : ∀ (l : List (List Addr)) (i : Nat) (f : List Addr → List Addr),
    (modifyAt l i f).length = l.length := by
  intro l
  induction l with
  | nil => intro i f; simp [modifyAt]
  | cons b rest ih =>
    intro i f
    cases i with
    | zero => simp [modifyAt]
    | succ i => simp [modifyAt, ih]

theorem modifyAt_getD : ∀ (l : List (List Addr)) (i j : Nat) (f : List Addr → List Addr), i < l.length →
    (modifyAt l i f).getD j [] = if j = i then f (l.getD i []) else l.getD j [] := by
  intro l
  induction l with
  | nil => intro i j f h; simp at h
  | cons b rest ih =>
    intro i j f h
    cases i with
    | zero =>
      cases j with
      | zero => simp [modifyAt]
      | succ j => simp [modifyAt]
    | succ i =>
      cases j with
      | zero => simp [modifyAt]
      | succ j =>
        have := ih i j f (by simpa using h)
        simpa [modifyAt] using this

theorem maxBins_pos : 0 < maxBins := by decide

theorem psPo_lt (base a : Addr) : psPo base a < maxBins := by
  unfold psPo
  have := maxBins_pos
  simp only []
  split <;> omega

/-- the set view of a PSlice: what `Exists` answers -/
def PSlice.mem (base : Addr) (ps : PSlice) (x : Addr) : Prop := x ∈ ps.bins.getD (psPo base x) []

theorem has_iff_mem (base : Addr) (ps : PSlice) (x : Addr) : ps.has base x = true ↔ ps.mem base x := by
  unfold PSlice.has PSlice.mem; simp

/-- `bins.length = maxBins` -/
def PSlice.Sized (ps : PSlice) : Prop := ps.bins.length = maxBins

/-- every peer sits in the bin of its proximity order, once -/
def PSlice.Clean (base : Addr) (ps : PSlice) : Prop :=
  ∀ b, (∀ x ∈ ps.bins.getD b [], psPo base x = b) ∧ (ps.bins.getD b []).Nodup

theorem new_sized : PSlice.new.Sized := by simp [PSlice.Sized, PSlice.new]

theorem new_getD (b : Nat) : PSlice.new.bins.getD b [] = [] := by
  simp only [PSlice.new, List.getD_eq_getElem?_getD]
  by_cases h : b < maxBins
  · simp [h]
  · simp [h]

theorem new_clean (base : Addr) : PSlice.new.Clean base := by
  intro b; rw [new_getD]; simp

theorem new_mem (base x : Addr) : ¬ PSlice.new.mem base x := by
  unfold PSlice.mem; rw [new_getD]; simp

theorem add_sized (base : Addr) (ps : PSlice) (a : Addr) (h : ps.Sized) : (ps.add base a).Sized := by
  unfold PSlice.add; split
  · exact h
  · simpa [PSlice.Sized, modifyAt_length] using h

theorem remove_sized (base : Addr) (ps : PSlice) (a : Addr) (h : ps.Sized) : (ps.remove base a).Sized := by
  unfold PSlice.remove; split
  · simpa [PSlice.Sized, modifyAt_length] using h
  · exact h

theorem add_mem (base : Addr) (ps : PSlice) (a x : Addr) (h : ps.Sized) :
    (ps.add base a).mem base x ↔ x = a ∨ ps.mem base x := by
  have hlt : psPo base a < ps.bins.length := by rw [h]; exact psPo_lt base a
  unfold PSlice.add
  by_cases hh : ps.has base a = true
  · simp only [hh, if_true]
    constructor
    · exact Or.inr
    · rintro (rfl | h1)
      · exact (has_iff_mem base ps x).mp hh
      · exact h1
  · simp only [hh, Bool.false_eq_true, if_false]
    unfold PSlice.mem
    rw [modifyAt_getD _ _ _ _ hlt]
    by_cases hb : psPo base x = psPo base a
    · simp only [hb, if_true, List.mem_append, List.mem_singleton]
      rw [← hb]; exact or_comm
    · simp only [hb, if_false]
      constructor
      · exact Or.inr
      · rintro (rfl | h1)
        · exact absurd rfl hb
        · exact h1

theorem add_clean (base : Addr) (ps : PSlice) (a : Addr) (h : ps.Sized) (hc : ps.Clean base) :
    (ps.add base a).Clean base := by
  have hlt : psPo base a < ps.bins.length := by rw [h]; exact psPo_lt base a
  unfold PSlice.add
  by_cases hh : ps.has base a = true
  · simpa [hh] using hc
  · simp only [hh, Bool.false_eq_true, if_false]
    intro b
    show (∀ x ∈ (modifyAt ps.bins (psPo base a) (· ++ [a])).getD b [], psPo base x = b) ∧ _
    rw [modifyAt_getD _ _ _ _ hlt]
    by_cases hb : b = psPo base a
    · subst hb
      simp only [if_true]
      have hnot : a ∉ ps.bins.getD (psPo base a) [] := fun hm => hh ((has_iff_mem base ps a).mpr hm)
      refine ⟨?_, ?_⟩
      · intro x hx
        rcases List.mem_append.mp hx with hx | hx
        · exact (hc _).1 x hx
        · simp at hx; rw [hx]
      · rw [List.nodup_append]
        refine ⟨(hc _).2, by simp, ?_⟩
        intro x hx y hy
        simp at hy; subst hy
        exact fun e => hnot (e ▸ hx)
    · simp only [hb, if_false]
      exact hc b

theorem remove_mem_of_ne (base : Addr) (ps : PSlice) (a x : Addr) (h : ps.Sized) (hne : x ≠ a)
    (hm : ps.mem base x) : (ps.remove base a).mem base x := by
  have hlt : psPo base a < ps.bins.length := by rw [h]; exact psPo_lt base a
  unfold PSlice.remove
  by_cases hh : ps.has base a = true
  · simp only [hh, if_true]
    unfold PSlice.mem
    rw [modifyAt_getD _ _ _ _ hlt]
    by_cases hb : psPo base x = psPo base a
    · simp only [hb, if_true]
      have ha := (has_iff_mem base ps a).mp hh
      unfold PSlice.mem at hm ha
      rw [hb] at hm
      rcases (swapRemove_idxOf_mem _ a x ha).mp hm with e | e
      · exact absurd e hne
      · exact e
    · simp only [hb, if_false]; exact hm
  · simpa [hh] using hm

theorem remove_mem_sub (base : Addr) (ps : PSlice) (a x : Addr) (h : ps.Sized)
    (hm : (ps.remove base a).mem base x) : ps.mem base x := by
  have hlt : psPo base a < ps.bins.length := by rw [h]; exact psPo_lt base a
  unfold PSlice.remove at hm
  by_cases hh : ps.has base a = true
  · simp only [hh, if_true] at hm
    unfold PSlice.mem at hm ⊢
    rw [modifyAt_getD _ _ _ _ hlt] at hm
    by_cases hb : psPo base x = psPo base a
    · simp only [hb, if_true] at hm
      have ha := (has_iff_mem base ps a).mp hh
      unfold PSlice.mem at ha
      rw [hb]
      exact (swapRemove_idxOf_mem _ a x ha).mpr (Or.inr hm)
    · simpa [hb] using hm
  · simpa [hh] using hm

theorem remove_not_mem (base : Addr) (ps : PSlice) (a : Addr) (h : ps.Sized) (hc : ps.Clean base) :
    ¬ (ps.remove base a).mem base a := by
  have hlt : psPo base a < ps.bins.length := by rw [h]; exact psPo_lt base a
  unfold PSlice.remove
  by_cases hh : ps.has base a = true
  · simp only [hh, if_true]
    unfold PSlice.mem
    rw [modifyAt_getD _ _ _ _ hlt]
    simp only [if_true]
    have ha := (has_iff_mem base ps a).mp hh
    exact (swapRemove_idxOf_nodup _ a ha (hc _).2).1
  · simp only [hh, Bool.false_eq_true, if_false]
    exact fun hm => hh ((has_iff_mem base ps a).mpr hm)

theorem remove_mem (base : Addr) (ps : PSlice) (a x : Addr) (h : ps.Sized) (hc : ps.Clean base) :
    (ps.remove base a).mem base x ↔ x ≠ a ∧ ps.mem base x := by
  constructor
  · intro hm
    refine ⟨?_, remove_mem_sub base ps a x h hm⟩
    rintro rfl
    exact remove_not_mem base ps x h hc hm
  · rintro ⟨hne, hm⟩
    exact remove_mem_of_ne base ps a x h hne hm

theorem remove_clean (base : Addr) (ps : PSlice) (a : Addr) (h : ps.Sized) (hc : ps.Clean base) :
    (ps.remove base a).Clean base := by
  have hlt : psPo base a < ps.bins.length := by rw [h]; exact psPo_lt base a
  unfold PSlice.remove
  by_cases hh : ps.has base a = true
  · simp only [hh, if_true]
    intro b
    show (∀ x ∈ (modifyAt ps.bins (psPo base a) _).getD b [], psPo base x = b) ∧ _
    rw [modifyAt_getD _ _ _ _ hlt]
    by_cases hb : b = psPo base a
    · subst hb
      simp only [if_true]
      have ha := (has_iff_mem base ps a).mp hh
      unfold PSlice.mem at ha
      refine ⟨?_, (swapRemove_idxOf_nodup _ a ha (hc _).2).2⟩
      intro x hx
      exact (hc _).1 x ((swapRemove_idxOf_mem _ a x ha).mpr (Or.inr hx))
    · simp only [hb, if_false]
      exact hc b
  · simpa [hh] using hc

/-- with clean bins, the iteration (`EachBin`) reports exactly the members, each once -/
theorem mem_toList_iff (base : Addr) (ps : PSlice) (x : Addr) (hc : ps.Clean base) :
    x ∈ ps.toList ↔ ps.mem base x := by
  unfold PSlice.toList PSlice.mem
  rw [List.mem_flatten]
  constructor
  · rintro ⟨l, hl, hx⟩
    obtain ⟨i, hi⟩ := List.mem_iff_getElem?.mp hl
    have hg : ps.bins.getD i [] = l := by simp [List.getD_eq_getElem?_getD, hi]
    have := (hc i).1 x (by rw [hg]; exact hx)
    rw [this, hg]; exact hx
  · intro hx
    refine ⟨ps.bins.getD (psPo base x) [], ?_, hx⟩
    rw [List.getD_eq_getElem?_getD] at hx ⊢
    cases hg : ps.bins[psPo base x]? with
    | none => simp [hg] at hx
    | some l => simp only [Option.getD_some]; exact List.mem_of_getElem? hg

theorem mem_toList_of_mem (base : Addr) (ps : PSlice) (x : Addr) (hx : ps.mem base x) : x ∈ ps.toList := by
  unfold PSlice.toList
  unfold PSlice.mem at hx
  rw [List.mem_flatten]
  refine ⟨ps.bins.getD (psPo base x) [], ?_, hx⟩
  rw [List.getD_eq_getElem?_getD] at hx ⊢
  cases hg : ps.bins[psPo base x]? with
  | none => simp [hg] at hx
  | some l => simp only [Option.getD_some]; exact List.mem_of_getElem? hg

/-! ## batch add keeps what is there -/

theorem rawAppend_sized (base : Addr) (ps : PSlice) (a : Addr) (h : ps.Sized) :
    PSlice.Sized ⟨modifyAt ps.bins (psPo base a) (· ++ [a])⟩ := by
  simpa [PSlice.Sized, modifyAt_length] using h

theorem rawAppend_mem_mono (base : Addr) (ps : PSlice) (a x : Addr) (h : ps.Sized) (hm : ps.mem base x) :
    PSlice.mem base ⟨modifyAt ps.bins (psPo base a) (· ++ [a])⟩ x := by
  have hlt : psPo base a < ps.bins.length := by rw [h]; exact psPo_lt base a
  unfold PSlice.mem at hm ⊢
  rw [modifyAt_getD _ _ _ _ hlt]
  by_cases hb : psPo base x = psPo base a
  · simp only [hb, if_true, List.mem_append]; left; rw [← hb]; exact hm
  · simp only [hb, if_false]; exact hm

theorem foldAppend_spec (base : Addr) (x : Addr) : ∀ (as : List Addr) (ps : PSlice), ps.Sized →
    (as.foldl (fun p a => (⟨modifyAt p.bins (psPo base a) (· ++ [a])⟩ : PSlice)) ps).Sized ∧
    (ps.mem base x → (as.foldl (fun p a => (⟨modifyAt p.bins (psPo base a) (· ++ [a])⟩ : PSlice)) ps).mem base x) := by
  intro as
  induction as with
  | nil => intro ps h; exact ⟨h, id⟩
  | cons a as ih =>
    intro ps h
    simp only [List.foldl_cons]
    obtain ⟨i1, i2⟩ := ih _ (rawAppend_sized base ps a h)
    exact ⟨i1, fun hm => i2 (rawAppend_mem_mono base ps a x h hm)⟩

theorem addMany_spec (base : Addr) (ps : PSlice) (as : List Addr) (x : Addr) (h : ps.Sized) :
    (ps.addMany base as).Sized ∧ (ps.mem base x → (ps.addMany base as).mem base x) := by
  unfold PSlice.addMany
  split
  · exact ⟨add_sized base ps _ h, fun hm => (add_mem base ps _ x h).mpr (Or.inr hm)⟩
  · exact foldAppend_spec base x _ ps h

/-! ## the Kad handlers on the two peer sets -/

structure KadWF (k : Kad) : Prop where
  cs : k.connected.Sized
  cc : k.connected.Clean k.base
  ks : k.known.Sized

def Kad.connMem (k : Kad) (x : Addr) : Prop := k.connected.mem k.base x
def Kad.knownMem (k : Kad) (x : Addr) : Prop := k.known.mem k.base x

theorem new_wf (base : Addr) (bm : Nat) (boot : Bool) (st : List Addr) : KadWF (Kad.new base bm boot st) :=
  ⟨new_sized, new_clean base, new_sized⟩

theorem onConnected_spec (k : Kad) (a : Addr) (wf : KadWF k) :
    KadWF (k.onConnected a) ∧ (k.onConnected a).base = k.base ∧
    (∀ x, (k.onConnected a).connMem x ↔ x = a ∨ k.connMem x) ∧
    (∀ x, (k.onConnected a).knownMem x ↔ x = a ∨ k.knownMem x) :=
  ⟨⟨add_sized _ _ _ wf.cs, add_clean _ _ _ wf.cs wf.cc, add_sized _ _ _ wf.ks⟩, rfl,
   fun x => add_mem k.base k.connected a x wf.cs, fun x => add_mem k.base k.known a x wf.ks⟩

theorem disconnected_spec (k : Kad) (a : Addr) (wf : KadWF k) :
    KadWF (k.disconnected a) ∧ (k.disconnected a).base = k.base ∧
    (∀ x, (k.disconnected a).connMem x ↔ x ≠ a ∧ k.connMem x) ∧
    (∀ x, (k.disconnected a).knownMem x ↔ k.knownMem x) :=
  ⟨⟨remove_sized _ _ _ wf.cs, remove_clean _ _ _ wf.cs wf.cc, wf.ks⟩, rfl,
   fun x => remove_mem k.base k.connected a x wf.cs wf.cc, fun _ => Iff.rfl⟩

theorem outbound_full_spec (k : Kad) (a : Addr) (wf : KadWF k) :
    KadWF (k.outbound a false) ∧ (k.outbound a false).base = k.base ∧
    (∀ x, (k.outbound a false).connMem x ↔ x = a ∨ k.connMem x) ∧
    (∀ x, (k.outbound a false).knownMem x ↔ x = a ∨ k.knownMem x) :=
  onConnected_spec k a wf

theorem outbound_boot_spec (k : Kad) (a : Addr) (wf : KadWF k) :
    KadWF (k.outbound a true) ∧ (k.outbound a true).base = k.base ∧
    (k.outbound a true).connected = k.connected ∧
    (∀ x, x ≠ a → k.knownMem x → (k.outbound a true).knownMem x) :=
  ⟨⟨wf.cs, wf.cc, remove_sized _ _ _ wf.ks⟩, rfl, rfl,
   fun x hne hm => remove_mem_of_ne k.base k.known a x wf.ks hne hm⟩

theorem disconnectForce_spec (k : Kad) (a : Addr) (wf : KadWF k) :
    KadWF (k.disconnectForce a) ∧ (k.disconnectForce a).base = k.base ∧
    (∀ x, (k.disconnectForce a).connMem x ↔ x ≠ a ∧ k.connMem x) ∧
    (∀ x, x ≠ a → k.knownMem x → (k.disconnectForce a).knownMem x) := by
  obtain ⟨w1, _, c1, _⟩ := disconnected_spec k a wf
  have hconn : (k.disconnectForce a).connected = (k.disconnected a).connected.remove k.base a := rfl
  have hknown : (k.disconnectForce a).known = k.known.remove k.base a := rfl
  have hbase : (k.disconnectForce a).base = k.base := rfl
  refine ⟨⟨?_, ?_, ?_⟩, hbase, ?_, ?_⟩
  · rw [hconn]; exact remove_sized _ _ _ w1.cs
  · rw [hconn, hbase]; exact remove_clean _ _ _ w1.cs w1.cc
  · rw [hknown]; exact remove_sized _ _ _ wf.ks
  · intro x
    unfold Kad.connMem
    rw [hconn, hbase, remove_mem k.base _ a x w1.cs w1.cc]
    have := c1 x
    unfold Kad.connMem at this
    rw [show (k.disconnected a).base = k.base from rfl] at this
    rw [this]
    constructor
    · rintro ⟨h1, _, h3⟩; exact ⟨h1, h3⟩
    · rintro ⟨h1, h3⟩; exact ⟨h1, h1, h3⟩
  · intro x hne hm
    unfold Kad.knownMem
    rw [hknown, hbase]
    exact remove_mem_of_ne k.base k.known a x wf.ks hne hm

end Aurora.Topo
