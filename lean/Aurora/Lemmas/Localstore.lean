import Aurora.Model.Localstore
/-!
Helper lemmas for the localstore model: association-list facts (`SMap`), projections of
`applyW`/`applyBatch`/`applyLog`, and the Σ GCounter algebra used by C13/C14.
-/
namespace Aurora.Localstore

set_option linter.unusedSectionVars false
set_option linter.unusedSimpArgs false

namespace SMap
variable {κ V : Type} [DecidableEq κ]

@[simp] theorem get_nil (k : κ) : get k ([] : List (κ × V)) = none := rfl

@[simp] theorem get_cons (k k' : κ) (v : V) (m : List (κ × V)) :
    get k ((k', v) :: m) = if k = k' then some v else get k m := rfl

theorem get_erase (k k' : κ) (m : List (κ × V)) :
    get k' (erase k m) = if k' = k then none else get k' m := by
  induction m with
  | nil => simp [erase]
  | cons e m ih =>
    obtain ⟨k0, v0⟩ := e
    unfold erase at ih ⊢
    by_cases h0 : k0 = k
    · subst h0
      simp only [List.filter_cons, ne_eq, not_true_eq_false, decide_false, Bool.false_eq_true,
        if_false, ih, get_cons]
      by_cases h : k' = k0 <;> simp [h]
    · simp only [List.filter_cons, ne_eq, h0, not_false_eq_true, decide_true, if_true, get_cons, ih]
      by_cases h : k' = k
      · subst h
        have : ¬ k' = k0 := fun e => h0 e.symm
        simp [this]
      · simp [h]

theorem get_erase_self (k : κ) (m : List (κ × V)) : get k (erase k m) = none := by
  simp [get_erase]

theorem get_insertS_ne (lt : κ → κ → Bool) (k k' : κ) (v : V) (m : List (κ × V)) (h : k' ≠ k) :
    get k' (insertS lt k v m) = get k' m := by
  induction m with
  | nil => simp [insertS, h]
  | cons e m ih =>
    obtain ⟨k0, v0⟩ := e
    unfold insertS
    by_cases hl : lt k k0 = true
    · simp [hl, h]
    · simp only [hl, Bool.false_eq_true, if_false, get_cons, ih]

theorem get_insertS_self (lt : κ → κ → Bool) (k : κ) (v : V) (m : List (κ × V))
    (h : get k m = none) : get k (insertS lt k v m) = some v := by
  induction m with
  | nil => simp [insertS]
  | cons e m ih =>
    obtain ⟨k0, v0⟩ := e
    unfold insertS
    by_cases hl : lt k k0 = true
    · simp [hl]
    · have hk : ¬ k = k0 := by
        intro e; subst e; simp at h
      have hm : get k m = none := by simpa [hk] using h
      simp [hl, hk, ih hm]

theorem get_put (lt : κ → κ → Bool) (k k' : κ) (v : V) (m : List (κ × V)) :
    get k' (put lt k v m) = if k' = k then some v else get k' m := by
  unfold put
  by_cases h : k' = k
  · subst h
    simp [get_insertS_self _ _ _ _ (get_erase_self k' m)]
  · simp [h, get_insertS_ne _ _ _ _ _ h, get_erase]

theorem has_put (lt : κ → κ → Bool) (k k' : κ) (v : V) (m : List (κ × V)) :
    has k' (put lt k v m) = (decide (k' = k) || has k' m) := by
  unfold has
  rw [get_put]
  by_cases h : k' = k <;> simp [h]

theorem has_erase (k k' : κ) (m : List (κ × V)) :
    has k' (erase k m) = (!decide (k' = k) && has k' m) := by
  unfold has
  rw [get_erase]
  by_cases h : k' = k <;> simp [h]

/-! ### keys -/

theorem mem_keys_of_get {k : κ} {v : V} {m : List (κ × V)} (h : get k m = some v) : k ∈ keys m := by
  induction m with
  | nil => simp at h
  | cons e m ih =>
    obtain ⟨k0, v0⟩ := e
    by_cases hk : k = k0
    · simp [keys, hk]
    · simp only [get_cons, hk, if_false] at h
      have := ih h
      simp only [keys, List.map_cons, List.mem_cons] at this ⊢
      exact Or.inr this

theorem get_none_of_not_mem {k : κ} {m : List (κ × V)} (h : k ∉ keys m) : get k m = none := by
  cases hg : get k m with
  | none => rfl
  | some v => exact absurd (mem_keys_of_get hg) h

theorem erase_of_not_mem {k : κ} {m : List (κ × V)} (h : k ∉ keys m) : erase k m = m := by
  induction m with
  | nil => rfl
  | cons e m ih =>
    obtain ⟨k0, v0⟩ := e
    simp only [keys, List.map_cons, List.mem_cons, not_or] at h
    have h0 : k0 ≠ k := fun e => h.1 e.symm
    unfold erase at ih ⊢
    simp only [List.filter_cons, ne_eq, h0, not_false_eq_true, decide_true, if_true]
    rw [ih (by simpa [keys] using h.2)]

theorem keys_erase (k : κ) (m : List (κ × V)) : keys (erase k m) = (keys m).filter (fun x => decide (x ≠ k)) := by
  induction m with
  | nil => rfl
  | cons e m ih =>
    obtain ⟨k0, v0⟩ := e
    unfold erase keys at ih ⊢
    simp only [ne_eq, decide_not] at ih ⊢
    by_cases h0 : k0 = k <;> simp [List.filter_cons, h0, ih]

theorem not_mem_keys_erase (k : κ) (m : List (κ × V)) : k ∉ keys (erase k m) := by
  rw [keys_erase]; simp

theorem nodup_keys_erase (k : κ) (m : List (κ × V)) (h : (keys m).Nodup) : (keys (erase k m)).Nodup := by
  rw [keys_erase]; exact h.sublist List.filter_sublist

theorem mem_keys_insertS (lt : κ → κ → Bool) (k x : κ) (v : V) (m : List (κ × V)) :
    x ∈ keys (insertS lt k v m) ↔ x = k ∨ x ∈ keys m := by
  induction m with
  | nil => simp [insertS, keys]
  | cons e m ih =>
    obtain ⟨k0, v0⟩ := e
    unfold insertS
    by_cases hl : lt k k0 = true
    · simp [hl, keys]
    · simp only [hl, Bool.false_eq_true, if_false]
      simp only [keys, List.map_cons, List.mem_cons] at ih ⊢
      rw [ih]
      constructor
      · rintro (h | h | h)
        · exact Or.inr (Or.inl h)
        · exact Or.inl h
        · exact Or.inr (Or.inr h)
      · rintro (h | h | h)
        · exact Or.inr (Or.inl h)
        · exact Or.inl h
        · exact Or.inr (Or.inr h)

theorem nodup_keys_insertS (lt : κ → κ → Bool) (k : κ) (v : V) (m : List (κ × V))
    (hk : k ∉ keys m) (h : (keys m).Nodup) : (keys (insertS lt k v m)).Nodup := by
  induction m with
  | nil => simp [insertS, keys]
  | cons e m ih =>
    obtain ⟨k0, v0⟩ := e
    unfold insertS
    by_cases hl : lt k k0 = true
    · simp only [hl, if_true, keys, List.map_cons, List.nodup_cons]
      exact ⟨by simpa [keys] using hk, by simpa [keys] using h⟩
    · simp only [hl, Bool.false_eq_true, if_false, keys, List.map_cons, List.nodup_cons]
      simp only [keys, List.map_cons, List.nodup_cons, List.mem_cons, not_or] at h hk
      refine ⟨?_, ih hk.2 h.2⟩
      intro hx
      have := (mem_keys_insertS lt k k0 v m).1 hx
      rcases this with e | e
      · exact hk.1 e.symm
      · exact h.1 e

theorem nodup_keys_put (lt : κ → κ → Bool) (k : κ) (v : V) (m : List (κ × V)) (h : (keys m).Nodup) :
    (keys (put lt k v m)).Nodup :=
  nodup_keys_insertS lt k v _ (not_mem_keys_erase k m) (nodup_keys_erase k m h)

/-! ### sums of Nat-valued maps -/

/-- Σ of the values -/
def vsum (m : List (κ × Nat)) : Nat := (m.map (·.2)).sum

@[simp] theorem vsum_nil : vsum ([] : List (κ × Nat)) = 0 := rfl
@[simp] theorem vsum_cons (e : κ × Nat) (m : List (κ × Nat)) : vsum (e :: m) = e.2 + vsum m := by
  simp [vsum]

theorem vsum_insertS (lt : κ → κ → Bool) (k : κ) (v : Nat) (m : List (κ × Nat)) :
    vsum (insertS lt k v m) = vsum m + v := by
  induction m with
  | nil => simp [insertS]
  | cons e m ih =>
    obtain ⟨k0, v0⟩ := e
    unfold insertS
    by_cases hl : lt k k0 = true
    · simp [hl]; omega
    · simp [hl, ih]; omega

theorem vsum_erase (k : κ) (m : List (κ × Nat)) (h : (keys m).Nodup) :
    vsum (erase k m) + (get k m).getD 0 = vsum m := by
  induction m with
  | nil => simp [erase]
  | cons e m ih =>
    obtain ⟨k0, v0⟩ := e
    simp only [keys, List.map_cons, List.nodup_cons] at h
    by_cases h0 : k0 = k
    · subst h0
      have hm : k0 ∉ keys m := h.1
      have : erase k0 ((k0, v0) :: m) = m := by
        have h1 := erase_of_not_mem hm
        unfold erase at h1 ⊢
        rw [List.filter_cons]
        simp only [ne_eq, not_true_eq_false, decide_false, Bool.false_eq_true, if_false]
        exact h1
      rw [this]; simp; omega
    · have hk : ¬ k = k0 := fun e => h0 e.symm
      have : erase k ((k0, v0) :: m) = (k0, v0) :: erase k m := by
        unfold erase; simp [List.filter_cons, h0]
      rw [this]
      have := ih h.2
      simp [hk]; omega

theorem vsum_put (lt : κ → κ → Bool) (k : κ) (v : Nat) (m : List (κ × Nat)) (h : (keys m).Nodup) :
    vsum (put lt k v m) + (get k m).getD 0 = vsum m + v := by
  unfold put
  rw [vsum_insertS]
  have := vsum_erase k m h
  omega

end SMap

/-! ## gcSum -/

theorem gcSum_eq_vsum (gc : List (GcKey × Nat)) : gcSum gc = SMap.vsum gc := rfl

/-- gc index keys are unique -/
def GcWF (db : Db) : Prop := (SMap.keys db.gc).Nodup

theorem gcSum_put (k : GcKey) (c : Nat) (gc : List (GcKey × Nat)) (h : (SMap.keys gc).Nodup) :
    gcSum (SMap.put GcKey.lt k c gc) + (SMap.get k gc).getD 0 = gcSum gc + c :=
  SMap.vsum_put _ k c gc h

theorem gcSum_erase (k : GcKey) (gc : List (GcKey × Nat)) (h : (SMap.keys gc).Nodup) :
    gcSum (SMap.erase k gc) + (SMap.get k gc).getD 0 = gcSum gc :=
  SMap.vsum_erase k gc h

/-! ## projections of writes -/

theorem gcWF_applyW (db : Db) (w : Write) (h : GcWF db) : GcWF (applyW db w) := by
  unfold GcWF at *
  cases w <;> simp only [applyW] <;> try exact h
  · exact SMap.nodup_keys_put _ _ _ _ h
  · exact SMap.nodup_keys_erase _ _ h

theorem gcWF_applyBatch (ws : List Write) (db : Db) (h : GcWF db) : GcWF (applyBatch db ws) := by
  induction ws generalizing db with
  | nil => exact h
  | cons w ws ih => exact ih _ (gcWF_applyW db w h)

theorem gcWF_applyDW (db : Db) (w : DW) (h : GcWF db) : GcWF (applyDW db w) := by
  cases w with
  | direct w => exact gcWF_applyW db w h
  | batch ws => exact gcWF_applyBatch ws db h

theorem gcWF_applyLog (log : List DW) (db : Db) (h : GcWF db) : GcWF (applyLog db log) := by
  induction log generalizing db with
  | nil => exact h
  | cons w ws ih => exact ih _ (gcWF_applyDW db w h)

@[simp] theorem applyLog_nil (db : Db) : applyLog db [] = db := rfl
@[simp] theorem applyLog_cons (db : Db) (w : DW) (l : List DW) :
    applyLog db (w :: l) = applyLog (applyDW db w) l := rfl
theorem applyLog_append (db : Db) (l1 l2 : List DW) :
    applyLog db (l1 ++ l2) = applyLog (applyLog db l1) l2 := by
  simp [applyLog, List.foldl_append]
@[simp] theorem applyBatch_nil (db : Db) : applyBatch db [] = db := rfl
@[simp] theorem applyBatch_cons (db : Db) (w : Write) (l : List Write) :
    applyBatch db (w :: l) = applyBatch (applyW db w) l := rfl
theorem applyBatch_append (db : Db) (l1 l2 : List Write) :
    applyBatch db (l1 ++ l2) = applyBatch (applyBatch db l1) l2 := by
  simp [applyBatch, List.foldl_append]


/-! ## what the per-address steps of `put`/`set` may change of what reads see -/

def resTx : Except (Err × Tx) Tx → Tx
  | .ok t => t
  | .error (_, t) => t

@[simp] theorem resTx_ok (t : Tx) : resTx (.ok t) = t := rfl
@[simp] theorem resTx_error (e : Err) (t : Tx) : resTx (.error (e, t)) = t := rfl

macro "crush" : tactic =>
  `(tactic| ((repeat' split) <;> (try simp_all) <;> (repeat' split) <;> (try simp_all)))

def GcPutsOnly (l : List DW) : Prop := ∀ w ∈ l, ∃ k c, w = DW.direct (.gcPut k c)

theorem gcPutsOnly_nil : GcPutsOnly [] := by intro w hw; simp at hw
theorem gcPutsOnly_append {l1 l2} (h1 : GcPutsOnly l1) (h2 : GcPutsOnly l2) : GcPutsOnly (l1 ++ l2) := by
  intro w hw
  rcases List.mem_append.1 hw with h | h
  · exact h1 w h
  · exact h2 w h

/-- what a per-address step may change of what reads see: nothing but gc entries through direct `gcIndex.Put`s -/
def Frame (tx tx' : Tx) : Prop :=
  tx'.db.data = tx.db.data ∧ tx'.db.pin = tx.db.pin ∧ tx'.db.gcSize = tx.db.gcSize ∧
  tx'.db.binIDs = tx.db.binIDs ∧ tx'.db.access = tx.db.access ∧
  ∃ l, tx'.log = tx.log ++ l ∧ GcPutsOnly l

theorem Frame.refl (tx : Tx) : Frame tx tx := ⟨rfl, rfl, rfl, rfl, rfl, [], by simp, gcPutsOnly_nil⟩
theorem Frame.trans {a b c : Tx} (h1 : Frame a b) (h2 : Frame b c) : Frame a c := by
  obtain ⟨d1, p1, g1, b1, a1, l1, e1, o1⟩ := h1
  obtain ⟨d2, p2, g2, b2, a2, l2, e2, o2⟩ := h2
  exact ⟨d2.trans d1, p2.trans p1, g2.trans g1, b2.trans b1, a2.trans a1, l1 ++ l2, by rw [e2, e1, List.append_assoc], gcPutsOnly_append o1 o2⟩
theorem Frame.of_eq {tx tx' : Tx} (h : tx'.db = tx.db ∧ tx'.log = tx.log) : Frame tx tx' := by
  refine ⟨by rw [h.1], by rw [h.1], by rw [h.1], by rw [h.1], by rw [h.1], [], by simp [h.2], gcPutsOnly_nil⟩

theorem setGC_frame (tx : Tx) (root : Option Addr) (b : Nat) : Frame tx (resTx (setGC tx root b)) := by
  apply Frame.of_eq
  simp only [setGC, Tx.now, Tx.inBatch, Tx.addChange]
  crush

theorem setUnpin_frame (tx : Tx) (a : Addr) (root : Option Addr) : Frame tx (resTx (setUnpin tx a root)) := by
  apply Frame.of_eq
  simp only [setUnpin, Tx.now, Tx.inBatch, Tx.addChange]
  crush

theorem setSync_frame (tx : Tx) (a : Addr) : Frame tx (resTx (setSync tx a)) := by
  apply Frame.of_eq
  simp only [setSync, Tx.now, Tx.inBatch, Tx.addChange]
  crush

theorem setRemove_frame (tx : Tx) (a : Addr) (root : Option Addr) : Frame tx (resTx (setRemove tx a root)) := by
  apply Frame.of_eq
  simp only [setRemove, Tx.inBatch, Tx.addChange]
  crush

theorem setPinRoot_frame (tx : Tx) (root : Option Addr) : Frame tx (resTx (setPinRoot tx root)) := by
  simp only [setPinRoot, Tx.inBatch, Tx.addChange, Tx.direct]
  repeat' split
  all_goals first
    | exact Frame.refl tx
    | exact Frame.of_eq ⟨rfl, rfl⟩
    | exact ⟨rfl, rfl, rfl, rfl, rfl, [_], rfl, by intro w hw; simp at hw; exact ⟨_, _, hw⟩⟩

theorem Frame.inBatch {tx t : Tx} (w : Write) (h : Frame tx t) : Frame tx (t.inBatch w) :=
  h.trans (Frame.of_eq ⟨rfl, rfl⟩)

theorem setPin_frame (tx : Tx) (a : Addr) (root : Option Addr) : Frame tx (resTx (setPin tx a root)) := by
  have h := setPinRoot_frame tx root
  simp only [setPin]
  cases hr : setPinRoot tx root with
  | error e => obtain ⟨e1, t⟩ := e; simpa [hr] using h
  | ok t => rw [hr] at h; exact Frame.inBatch _ h

theorem storeNew_frame (po : Addr → Nat) (tx : Tx) (a : Addr) (d : Bytes) : Frame tx (storeNew po tx a d).2 :=
  Frame.of_eq ⟨rfl, rfl⟩

theorem putUpload_frame (po : Addr → Nat) (tx : Tx) (a : Addr) (d : Bytes) : Frame tx (putUpload po tx a d).2 := by
  simp only [putUpload]
  split
  · exact Frame.refl tx
  · exact storeNew_frame po tx a d

/-- the transaction `putRequest` ends with -/
def reqTx : Except (Err × Tx) (Bool × Tx) → Tx
  | .ok (_, t) => t
  | .error (_, t) => t

theorem putRequest_frame (po : Addr → Nat) (tx : Tx) (a : Addr) (d : Bytes) (root : Option Addr) (pin : Bool) :
    Frame tx (reqTx (putRequest po tx a d root pin)) := by
  simp only [putRequest]
  by_cases hh : SMap.has a tx.db.data = true
  · simp only [hh, if_true, reqTx]; exact Frame.refl tx
  · simp only [hh, Bool.false_eq_true, if_false]
    have h0 := storeNew_frame po tx a d
    cases pin with
    | true =>
      simp only [if_true]
      have h1 := setPin_frame (storeNew po tx a d).2 a root
      cases hr : setPin (storeNew po tx a d).2 a root with
      | error e => obtain ⟨e1, t⟩ := e; rw [hr] at h1; exact h0.trans h1
      | ok t => rw [hr] at h1; exact h0.trans h1
    | false =>
      simp only [Bool.false_eq_true, if_false]
      have h1 := setGC_frame (storeNew po tx a d).2 root (if root = some a then (storeNew po tx a d).1 else 0)
      cases hr : setGC (storeNew po tx a d).2 root (if root = some a then (storeNew po tx a d).1 else 0) with
      | error e => obtain ⟨e1, t⟩ := e; rw [hr] at h1; exact h0.trans h1
      | ok t => rw [hr] at h1; exact h0.trans h1


/-- the `exist` flags `Put` must return: present before the call, or duplicated earlier in the call -/
def existSpec (data : List (Addr × DataVal)) : List Addr → List (Addr × Bytes) → List Bool
  | _, [] => []
  | seen, (a, _) :: rest => (seen.contains a || SMap.has a data) :: existSpec data (seen ++ [a]) rest

def loopTx : Except (Err × Tx) (Tx × List Bool) → Tx
  | .ok (t, _) => t
  | .error (_, t) => t

theorem putLoop_spec (po : Addr → Nat) (mode : PutMode) (root : Option Addr) (chs : List (Addr × Bytes)) :
    ∀ (tx : Tx) (seen : List Addr) (acc : List Bool),
      Frame tx (loopTx (putLoop po mode root tx seen chs acc)) ∧
      ∀ tx' fl, putLoop po mode root tx seen chs acc = .ok (tx', fl) →
        fl = acc.reverse ++ existSpec tx.db.data seen chs := by
  induction chs with
  | nil =>
    intro tx seen acc
    simp [putLoop, loopTx, existSpec, Frame.refl]
  | cons c rest ih =>
    intro tx seen acc
    obtain ⟨a, d⟩ := c
    unfold putLoop
    by_cases hs : seen.contains a = true
    · simp only [hs, if_true]
      obtain ⟨f, g⟩ := ih tx (seen ++ [a]) (true :: acc)
      refine ⟨f, ?_⟩
      intro tx' fl h
      rw [g tx' fl h]
      have hm : a ∈ seen := by simpa using hs
      simp [existSpec, hm]
    · simp only [hs, Bool.false_eq_true, if_false]
      have hs' : a ∉ seen := by simpa using hs
      cases mode with
      | request =>
        simp only []
        have h1 := putRequest_frame po tx a d root (PutMode.request == PutMode.requestPin)
        cases hr : putRequest po tx a d root (PutMode.request == PutMode.requestPin) with
        | error e =>
          obtain ⟨e1, t⟩ := e
          rw [hr] at h1
          exact ⟨by simpa [loopTx, reqTx] using h1, by intro tx' fl h; simp at h⟩
        | ok r =>
          obtain ⟨ex, t⟩ := r
          rw [hr] at h1
          simp only [reqTx] at h1
          obtain ⟨f, g⟩ := ih t (seen ++ [a]) (ex :: acc)
          refine ⟨h1.trans f, ?_⟩
          intro tx' fl h
          dsimp only at h
          rw [g tx' fl h, h1.1]
          have hex : ex = SMap.has a tx.db.data := by
            simp only [putRequest] at hr
            by_cases hh : SMap.has a tx.db.data = true
            · simp [hh] at hr; simp [hh, hr.1]
            · simp only [hh, Bool.false_eq_true, if_false] at hr
              split at hr <;> simp at hr
              simp [hr.1, hh]
          simp [existSpec, hs', hex]
      | requestPin =>
        simp only []
        have h1 := putRequest_frame po tx a d root (PutMode.requestPin == PutMode.requestPin)
        cases hr : putRequest po tx a d root (PutMode.requestPin == PutMode.requestPin) with
        | error e =>
          obtain ⟨e1, t⟩ := e
          rw [hr] at h1
          exact ⟨by simpa [loopTx, reqTx] using h1, by intro tx' fl h; simp at h⟩
        | ok r =>
          obtain ⟨ex, t⟩ := r
          rw [hr] at h1
          simp only [reqTx] at h1
          obtain ⟨f, g⟩ := ih t (seen ++ [a]) (ex :: acc)
          refine ⟨h1.trans f, ?_⟩
          intro tx' fl h
          dsimp only at h
          rw [g tx' fl h, h1.1]
          have hex : ex = SMap.has a tx.db.data := by
            simp only [putRequest] at hr
            by_cases hh : SMap.has a tx.db.data = true
            · simp [hh] at hr; simp [hh, hr.1]
            · simp only [hh, Bool.false_eq_true, if_false] at hr
              split at hr <;> simp at hr
              simp [hr.1, hh]
          simp [existSpec, hs', hex]
      | upload =>
        simp only []
        have h1 := putUpload_frame po tx a d
        obtain ⟨f, g⟩ := ih (putUpload po tx a d).2 (seen ++ [a]) ((putUpload po tx a d).1 :: acc)
        refine ⟨h1.trans f, ?_⟩
        intro tx' fl h
        rw [g tx' fl h, h1.1]
        have hex : (putUpload po tx a d).1 = SMap.has a tx.db.data := by
          simp only [putUpload]; split <;> simp_all
        simp [existSpec, hs', hex]
      | uploadPin =>
        simp only []
        have h1 := putUpload_frame po tx a d
        have h2 := setPin_frame (putUpload po tx a d).2 a root
        have hex : (putUpload po tx a d).1 = SMap.has a tx.db.data := by
          simp only [putUpload]; split <;> simp_all
        cases hr : setPin (putUpload po tx a d).2 a root with
        | error e =>
          obtain ⟨e1, t⟩ := e
          rw [hr] at h2
          exact ⟨by simpa [loopTx] using h1.trans h2, by intro tx' fl h; simp at h⟩
        | ok t =>
          rw [hr] at h2
          simp only [resTx_ok] at h2
          have h3 : Frame t { t with change := (putUpload po tx a d).2.change } := Frame.of_eq ⟨rfl, rfl⟩
          obtain ⟨f, g⟩ := ih { t with change := (putUpload po tx a d).2.change } (seen ++ [a]) ((putUpload po tx a d).1 :: acc)
          refine ⟨(h1.trans (h2.trans h3)).trans f, ?_⟩
          intro tx' fl h
          dsimp only at h
          rw [g tx' fl h]
          have : ({ t with change := (putUpload po tx a d).2.change } : Tx).db.data = tx.db.data := (h1.trans (h2.trans h3)).1
          rw [this]
          simp [existSpec, hs', hex]
      | invalid =>
        exact ⟨by simpa [loopTx] using Frame.refl tx, by intro tx' fl h; simp at h⟩


def setLoopTx : Except (Err × Tx) Tx → Tx
  | .ok t => t
  | .error (_, t) => t

theorem setLoop_frame (mode : SetMode) (root : Option Addr) (addrs : List Addr) :
    ∀ tx : Tx, Frame tx (resTx (setLoop mode root tx addrs)) := by
  induction addrs with
  | nil => intro tx; simp [setLoop, Frame.refl]
  | cons a rest ih =>
    intro tx
    unfold setLoop
    cases mode with
    | sync =>
      have h := setSync_frame tx a
      simp only []
      cases hr : setSync tx a with
      | error e => obtain ⟨e1, t⟩ := e; rw [hr] at h; simpa using h
      | ok t => rw [hr] at h; simp only [resTx_ok] at h; exact h.trans (ih t)
    | remove =>
      have h := setRemove_frame tx a root
      simp only []
      cases hr : setRemove tx a root with
      | error e => obtain ⟨e1, t⟩ := e; rw [hr] at h; simpa using h
      | ok t => rw [hr] at h; simp only [resTx_ok] at h; exact h.trans (ih t)
    | pin =>
      simp only []
      by_cases hh : SMap.has a tx.db.data = true
      · have h := setPin_frame tx a root
        simp only [hh, if_true]
        cases hr : setPin tx a root with
        | error e => obtain ⟨e1, t⟩ := e; rw [hr] at h; simpa using h
        | ok t => rw [hr] at h; simp only [resTx_ok] at h; exact h.trans (ih t)
      · simp only [hh, Bool.false_eq_true, if_false, resTx_error]; exact Frame.refl tx
    | unpin =>
      have h := setUnpin_frame tx a root
      simp only []
      cases hr : setUnpin tx a root with
      | error e => obtain ⟨e1, t⟩ := e; rw [hr] at h; simpa using h
      | ok t => rw [hr] at h; simp only [resTx_ok] at h; exact h.trans (ih t)
    | invalid => simp only [resTx_error]; exact Frame.refl tx

/-- a prefix of direct `gcIndex.Put`s leaves data, pin, access, binIDs and gcSize alone -/
theorem applyLog_gcPutsOnly (l : List DW) (h : GcPutsOnly l) (db : Db) :
    (applyLog db l).data = db.data ∧ (applyLog db l).pin = db.pin ∧ (applyLog db l).access = db.access ∧
    (applyLog db l).binIDs = db.binIDs ∧ (applyLog db l).gcSize = db.gcSize := by
  induction l generalizing db with
  | nil => simp
  | cons w l ih =>
    obtain ⟨k, c, hw⟩ := h w (by simp)
    have hl : GcPutsOnly l := fun x hx => h x (by simp [hx])
    subst hw
    have := ih hl (applyDW db (DW.direct (.gcPut k c)))
    simpa [applyDW, applyW] using this

theorem gcPutsOnly_take (l : List DW) (h : GcPutsOnly l) (k : Nat) : GcPutsOnly (l.take k) :=
  fun w hw => h w (List.mem_of_mem_take hw)

end Aurora.Localstore
