package nodelite

import (
	"fmt"
	"sort"
	"strings"

	"github.com/gauss-project/aurorafs/pkg/boson"

	"verifharness/core"
)

// The oracles below are model-free: they evaluate the property's observable predicate on
// snapshots of the real node (exported Has, index dumps, table dumps, state-store keys, local
// read-back through the joiner) and on ground truth the harness derives from the file CONTENT
// (chunk addresses by cac over the 256 KiB pieces) and from the Put log of the upload.

func short(a boson.Address) string {
	s := a.String()
	if len(s) > 8 {
		return s[:8]
	}
	return s
}

// readable: every chunk of the file is stored (=> by C01's reader theorem the joiner reads it
// back); the oracles additionally perform the actual read-back where it matters.
func allStored(f *File, s *Snap) bool {
	for _, a := range f.All {
		if !s.Stored[a.String()] {
			return false
		}
	}
	return true
}

func (rn *Runner) readsBack(f *File) bool {
	for _, sub := range f.Subs {
		path := sub.Name
		if len(f.Subs) == 1 {
			path = ""
		}
		b, err := rn.N.ReadLocal(f.Root, path)
		if err != nil || string(b) != string(contentOf(sub.Letters)) {
			return false
		}
	}
	return true
}

// ---- liveness bookkeeping shared by C16 / C17 ---------------------------------------------------

// Live tracks which files node N currently "knows" (uploaded there, or pyramid fetched) and has
// not deleted / evicted since.
type Live struct {
	live    map[string]bool
	removed map[string]bool // deleted or evicted and not re-added since
}

func NewLive() *Live { return &Live{live: map[string]bool{}, removed: map[string]bool{}} }

// Update must be called first by the owning oracle for every event; it returns the files
// removed by this event (deleted by the API, or evicted by this collection run).
func (l *Live) Update(ev *Event) (gone []*File) {
	rn := ev.Runner
	if ev.Skipped {
		return nil
	}
	switch ev.Kind {
	case "up":
		if ev.File != nil && ev.Code == 201 {
			l.live[ev.File.Spec], l.removed[ev.File.Spec] = true, false
		}
	case "pyr", "fetch", "download":
		if ev.File != nil && ev.Word != "err" {
			l.live[ev.File.Spec], l.removed[ev.File.Spec] = true, false
		}
	case "del":
		if ev.File != nil && ev.Code == 200 {
			l.live[ev.File.Spec], l.removed[ev.File.Spec] = false, true
			gone = append(gone, ev.File)
		}
	case "delr":
		// first the overlapping operation on Target (upload or complete delete), then the held delete of File
		if ev.Target != nil {
			switch {
			case ev.Arg[1] == "up" && ev.RaceCode == "201":
				l.live[ev.Target.Spec], l.removed[ev.Target.Spec] = true, false
			case ev.Arg[1] == "del" && ev.RaceCode == "200":
				l.live[ev.Target.Spec], l.removed[ev.Target.Spec] = false, true
				gone = append(gone, ev.Target)
			}
		}
		if ev.File != nil && ev.Code == 200 {
			l.live[ev.File.Spec], l.removed[ev.File.Spec] = false, true
			gone = append(gone, ev.File)
		}
	case "gc", "gcr", "gcr2":
		// evicted = roots that were gc candidates (in the gc index before) and whose gc entry is gone
		after := map[string]bool{}
		for _, g := range ev.After.GC {
			after[g.Root.String()] = true
		}
		for _, g := range ev.Before.GC {
			if !after[g.Root.String()] {
				if f := rn.byRoot(g.Root); f != nil && !ev.After.Stored[f.Root.String()] {
					l.live[f.Spec], l.removed[f.Spec] = false, true
					gone = append(gone, f)
				}
			}
		}
	}
	return gone
}

func (l *Live) LiveFiles(rn *Runner) []*File {
	var out []*File
	for _, f := range rn.Files() {
		if l.live[f.Spec] {
			out = append(out, f)
		}
	}
	return out
}

// ---- C12 ------------------------------------------------------------------------------------------

// C12Oracle: no collection run deletes a chunk whose pin count is positive or that was stored by
// local upload, and no run changes a pin count.  The clause tag names WHAT was violated and the
// trigger shape, so that each designed-in way of losing pinned / uploaded content has its own
// signature:
//
//	.evicted-file-was-pinned         the chunk belongs to an evicted file whose reference was listed as pinned
//	                                 (a pinned cached file re-enters the gc index when more of it is fetched)
//	.evicted-file-was-uploaded       the chunk belongs to an evicted file that was ALSO uploaded locally (cached first: the upload
//	                                 leaves the root in the gc index)
//	.shared-with-unregistered-upload the chunk belongs to a /bytes upload, which chunkinfo's reference counts do not know
//	.after-unpin                     the chunk belongs to an uploaded file that went through pin + unpin (unpin enters it into the gc index)
//	.evicted-file-pinned-during-run  the chunk belongs to a file that was evicted although it was pinned (POST /pins answered 201) while
//	                                 the run was already working on it (gcr: inside DelFile, before the deletion callback)
//	.evicted-file-pinned-before-commit the chunk belongs to a file that was pinned (201) AFTER its deletion callback had run and before the run
//	                                 committed its batch (gcr2: inside the DelFile call of the next candidate)
//	.other                           none of these
//
// For a `gcr` / `gcr2` run whose racing operation fired, the run's own effect is everything between the state before the
// run and the state right before the racing operation, plus everything between the state right after it and the
// state after the run (the batch of the run is committed at its end, so Has inside the window still shows every chunk).
type C12Oracle struct {
	unpinned map[string]bool // specs that went through an API unpin
}

func NewC12Oracle() *C12Oracle { return &C12Oracle{unpinned: map[string]bool{}} }

func (o *C12Oracle) Check(ctx *core.Ctx, ev *Event) {
	if ev.Skipped {
		return
	}
	if ev.Kind == "unpin" && ev.Code == 200 && ev.File != nil {
		o.unpinned[ev.File.Spec] = true
	}
	if ev.Kind == "gcr" && ev.Fired && ev.Target != nil && len(ev.Arg) == 5 && ev.Arg[2] == "unpin" && ev.RaceCode == "200" {
		o.unpinned[ev.Target.Spec] = true // racing unpin through the API
	}
	if ev.Kind != "gc" && ev.Kind != "gcr" && ev.Kind != "gcr2" {
		return
	}
	rn := ev.Runner
	b, a := ev.Before, ev.After
	// segments of the run: [b, m0] and [m1, a]; without a racing operation m0 = m1 = b
	m0, m1 := b, b
	if (ev.Kind == "gcr" || ev.Kind == "gcr2") && ev.Fired && ev.Mid0 != nil && ev.Mid1 != nil {
		m0, m1 = ev.Mid0, ev.Mid1
	}
	listed := map[string]bool{}
	for _, l := range b.Listed {
		listed[l] = true
	}
	pinnedInRun := map[string]bool{} // references that became listed by the racing operation
	for _, l := range m1.Listed {
		if !contains(m0.Listed, l) {
			pinnedInRun[l] = true
		}
	}
	// files evicted by this run
	var evicted []*File
	stillGC := map[string]bool{}
	for _, g := range a.GC {
		stillGC[g.Root.String()] = true
	}
	for _, g := range b.GC {
		if !stillGC[g.Root.String()] {
			if f := rn.byRoot(g.Root); f != nil {
				evicted = append(evicted, f)
			}
		}
	}
	cause := func(k string) string {
		addr := boson.MustParseHexAddress(k)
		for _, f := range evicted {
			if f.HasAddr(addr) && pinnedInRun[f.Root.String()] {
				if ev.Kind == "gcr2" {
					return "evicted-file-pinned-before-commit"
				}
				return "evicted-file-pinned-during-run"
			}
		}
		for _, f := range evicted {
			if f.HasAddr(addr) && listed[f.Root.String()] {
				return "evicted-file-was-pinned"
			}
		}
		for _, f := range rn.Files() {
			if f.Raw && f.HasAddr(addr) {
				return "shared-with-unregistered-upload"
			}
		}
		for _, f := range evicted {
			if f.HasAddr(addr) && f.AtN {
				return "evicted-file-was-uploaded"
			}
		}
		for _, f := range rn.Files() {
			if f.AtN && f.HasAddr(addr) && o.unpinned[f.Spec] {
				return "after-unpin"
			}
		}
		return "other"
	}
	// (1) pin index identical over both segments of the run
	diff := func(x, y *Snap) {
		var keys []string
		for k := range x.Pin {
			keys = append(keys, k)
		}
		for k := range y.Pin {
			if _, ok := x.Pin[k]; !ok {
				keys = append(keys, k)
			}
		}
		sort.Strings(keys)
		for _, k := range keys {
			if x.Pin[k] != y.Pin[k] {
				ctx.Fail("gc-changes-pin-counter."+cause(k), "gc run changed pin counter of chunk %s (id %d): %d -> %d", k[:8], rn.ids[k], x.Pin[k], y.Pin[k])
			}
		}
	}
	if m0 != b {
		diff(b, m0)
	}
	diff(m1, a)
	// (2) pinned chunks still stored (pinned when the run — after the racing operation, if any — decided about them)
	var keys []string
	for k := range m1.Pin {
		keys = append(keys, k)
	}
	sort.Strings(keys)
	for _, k := range keys {
		if m1.Pin[k] > 0 && m1.Stored[k] && !a.Stored[k] {
			ctx.Fail("gc-deletes-pinned-chunk."+cause(k), "gc run deleted chunk %s (id %d) whose pin counter was %d", k[:8], rn.ids[k], m1.Pin[k])
		}
	}
	// (3) chunks stored by local upload still stored
	keys = keys[:0]
	for k := range rn.Uploaded {
		keys = append(keys, k)
	}
	sort.Strings(keys)
	for _, k := range keys {
		if b.Stored[k] && !a.Stored[k] {
			ctx.Fail("gc-deletes-uploaded-chunk."+cause(k), "gc run deleted chunk %s (id %d) that was stored by local upload", k[:8], rn.ids[k])
		}
	}
}

func contains(l []string, x string) bool {
	for _, y := range l {
		if y == x {
			return true
		}
	}
	return false
}

// ---- C15 ------------------------------------------------------------------------------------------

type pinFrame struct {
	spec  string
	pins  map[string]uint64
	valid bool // false: the snapshot is stale (a reference pinned below it was unpinned out of order)
}

// C15Oracle: pin marks reference + all chunks; second pin no change; unpin restores every counter
// to the pre-pin value; second unpin no change; listed iff last op was pin.
type C15Oracle struct {
	last    map[string]string // spec -> "pin" | "unpin" | ""
	stack   []pinFrame
	partial map[string]bool // spec was pinned while not fully stored: outside the property ("a stored reference")
	// a failed unpin of such a partly stored reference is not atomic (the counters it could lower stay lowered, the
	// reference stays listed, a retry lowers them again): from then on pin counts of OTHER references are damaged
	corrupt bool
}

func NewC15Oracle() *C15Oracle {
	return &C15Oracle{last: map[string]string{}, partial: map[string]bool{}}
}

func samePins(a, b map[string]uint64) (string, bool) {
	for k, v := range a {
		if b[k] != v {
			return k, false
		}
	}
	for k, v := range b {
		if a[k] != v {
			return k, false
		}
	}
	return "", true
}

func copyPins(m map[string]uint64) map[string]uint64 {
	c := map[string]uint64{}
	for k, v := range m {
		c[k] = v
	}
	return c
}

func (o *C15Oracle) Check(ctx *core.Ctx, ev *Event) {
	rn := ev.Runner
	if ev.Skipped {
		return
	}
	f := ev.File
	switch ev.Kind {
	case "up", "upenc":
		if f != nil && ev.Code == 201 && len(ev.Arg) == 2 && ev.Arg[1] == "1" {
			// pinned upload = a pin of the reference; chunk counters are raised by the put mode.
			// It is not a frame for unpin_restores (uploading changes more than pin state).
			o.last[f.Spec] = "pin"
			o.stack = nil
		} else if f != nil && ev.Code == 201 {
			if f.Enc {
				o.last[f.Spec] = "" // new reference
			}
			o.stack = nil
		}
	case "pin":
		if f == nil {
			return
		}
		switch ev.Code {
		case 201: // effective pin
			if o.last[f.Spec] == "pin" {
				ctx.Fail("pin-created-twice", "pin of %s answered 201 although the last operation on it was a pin", f.Spec)
			}
			o.last[f.Spec] = "pin"
			if !f.Enc && !allStored(f, ev.Before) {
				// not a stored reference: CreatePin skips the missing chunks and DeletePin then fails
				o.partial[f.Spec] = true
				o.stack = nil
				break
			}
			o.partial[f.Spec] = false
			o.stack = append(o.stack, pinFrame{spec: f.Spec, pins: copyPins(ev.Before.Pin), valid: true})
			for _, a := range f.All {
				if ev.After.Pin[a.String()] == 0 {
					clause := "pinned-chunk-not-marked"
					if f.Enc {
						clause = "encrypted-chunk-not-marked"
					}
					ctx.Fail(clause, "after pin of %s chunk %s (id %d) has pin counter 0", f.Spec, short(a), rn.ids[a.String()])
					break
				}
			}
			if f.Enc {
				break
			}
			if ev.After.Pin[f.Root.String()] == 0 {
				ctx.Fail("pinned-reference-not-marked", "after pin of %s its reference has pin counter 0", f.Spec)
			}
		case 200: // already pinned
			if o.last[f.Spec] != "pin" {
				ctx.Fail("pin-refused", "pin of %s answered 200 (already pinned) although the last operation on it was not a pin", f.Spec)
			}
			if k, ok := samePins(ev.Before.Pin, ev.After.Pin); !ok {
				ctx.Fail("second-pin-changes-state", "repeated pin of %s changed pin counter of %s: %d -> %d", f.Spec, k[:8], ev.Before.Pin[k], ev.After.Pin[k])
			}
		default:
			ctx.Fail("pin-failed", "pin of stored reference %s answered %d", f.Spec, ev.Code)
		}
	case "unpin":
		if f == nil {
			return
		}
		switch ev.Code {
		case 200:
			if o.last[f.Spec] != "pin" {
				ctx.Fail("unpin-of-unpinned-accepted", "unpin of %s answered 200 although the last operation on it was not a pin", f.Spec)
			}
			o.last[f.Spec] = "unpin"
			// LIFO frame: compare with the counters before the matching pin
			suffix := ""
			if o.corrupt {
				suffix = ".after-failed-unpin-of-partial-reference"
			}
			if n := len(o.stack); n > 0 && o.stack[n-1].spec == f.Spec {
				fr := o.stack[n-1]
				o.stack = o.stack[:n-1]
				if k, ok := samePins(fr.pins, ev.After.Pin); !ok && fr.valid {
					clause := "unpin-does-not-restore"
					if f.Enc {
						clause = "unpin-does-not-restore-encrypted"
					}
					ctx.Fail(clause+suffix, "after pin;…;unpin of %s pin counter of %s (id %d) is %d, before the pin it was %d", f.Spec, k[:8], rn.ids[k], ev.After.Pin[k], fr.pins[k])
				}
			} else {
				// out-of-order unpin: the reference's own frame goes; the frames above it (their snapshots include
				// this reference's pin) stay as place holders but are no longer comparable.  A reference without a
				// frame (pinned upload) invalidates everything.
				idx := -1
				for i := range o.stack {
					if o.stack[i].spec == f.Spec {
						idx = i
						break
					}
				}
				if idx < 0 {
					o.stack = nil
				} else {
					for i := idx + 1; i < len(o.stack); i++ {
						o.stack[i].valid = false
					}
					o.stack = append(o.stack[:idx], o.stack[idx+1:]...)
				}
			}
		case 404:
			if o.last[f.Spec] == "pin" {
				ctx.Fail("unpin-refused", "unpin of %s answered 404 although the last operation on it was a pin", f.Spec)
			}
			if k, ok := samePins(ev.Before.Pin, ev.After.Pin); !ok {
				ctx.Fail("second-unpin-changes-state", "repeated unpin of %s changed pin counter of %s", f.Spec, k[:8])
			}
			if strings.Join(ev.Before.Listed, ",") != strings.Join(ev.After.Listed, ",") {
				ctx.Fail("second-unpin-changes-state", "repeated unpin of %s changed the list of pinned references", f.Spec)
			}
		default:
			o.stack = nil
			switch {
			case o.partial[f.Spec]:
				// outside the property, but not atomic: see corrupt
				o.corrupt = true
			case o.corrupt:
				ctx.Fail("unpin-failed.after-failed-unpin-of-partial-reference", "unpin of %s answered %d after the failed unpin of a partly stored reference lowered shared counters", f.Spec, ev.Code)
			case f.Enc:
				ctx.Fail("unpin-fails-encrypted", "unpin of encrypted reference %s answered %d and the reference stays listed", f.Spec, ev.Code)
			default:
				ctx.Fail("unpin-failed", "unpin of %s answered %d", f.Spec, ev.Code)
			}
		}
	case "haspin":
		if f != nil {
			want := 404
			if o.last[f.Spec] == "pin" {
				want = 200
			}
			if ev.Code != want {
				ctx.Fail("listed-iff-last-op-pin", "GET /pins/%s answered %d, last operation on it was %q", f.Spec, ev.Code, o.last[f.Spec])
			}
		}
	case "del", "gc":
		o.stack = nil
	}
	// listed iff last op was pin, after every op
	listed := map[string]bool{}
	for _, l := range ev.After.Listed {
		listed[l] = true
	}
	for _, g := range rn.Files() {
		if g.Root.Bytes() == nil {
			continue
		}
		if listed[g.Root.String()] != (o.last[g.Spec] == "pin") {
			ctx.Fail("listed-iff-last-op-pin", "reference %s listed=%v but the last pin/unpin operation on it was %q", g.Spec, listed[g.Root.String()], o.last[g.Spec])
		}
	}
}

// ---- C16 ------------------------------------------------------------------------------------------

// C16Oracle: deleting / evicting one file never breaks another; no unpinned orphan remains.
type C16Oracle struct {
	L *Live
}

func NewC16Oracle() *C16Oracle { return &C16Oracle{L: NewLive()} }

func (o *C16Oracle) Check(ctx *core.Ctx, ev *Event) {
	rn := ev.Runner
	if ev.Kind == "delr" {
		o.checkDelRace(ctx, ev)
		return
	}
	// files fully stored before the op
	var full []*File
	if !ev.Skipped && (ev.Kind == "del" || ev.Kind == "gc") {
		for _, g := range o.L.LiveFiles(rn) {
			if !g.Enc && allStored(g, ev.Before) {
				full = append(full, g)
			}
		}
	}
	gone := o.L.Update(ev)
	if ev.Skipped || (ev.Kind != "del" && ev.Kind != "gc") {
		return
	}
	verb := "delete"
	if ev.Kind == "gc" {
		verb = "evict"
	}
	isGone := map[string]bool{}
	for _, f := range gone {
		isGone[f.Spec] = true
	}
	if ev.Kind == "del" && ev.File != nil {
		isGone[ev.File.Spec] = true // also when the API answered an error: the file was the target
	}
	for _, g := range full {
		if isGone[g.Spec] {
			continue
		}
		if !allStored(g, ev.After) || !rn.readsBack(g) {
			miss := ""
			for _, a := range g.All {
				if !ev.After.Stored[a.String()] {
					miss = short(a)
					break
				}
			}
			ctx.Fail(verb+"-breaks-other-file", "%s of %v removed chunk %s of file %s, which was fully stored before and is no longer readable", verb, specs(gone, ev), miss, g.Spec)
		}
	}
	// orphans
	for _, f := range gone {
		for _, a := range f.All {
			k := a.String()
			if !ev.After.Stored[k] || ev.After.Pin[k] > 0 {
				continue
			}
			used := false
			for _, g := range o.L.LiveFiles(rn) {
				if g.Spec != f.Spec && g.HasAddr(a) {
					used = true
					break
				}
			}
			if !used {
				ctx.Fail(verb+"-leaves-orphan", "after %s of %s chunk %s (id %d) is still stored, unpinned and used by no other known file", verb, f.Spec, short(a), rn.ids[k])
				break
			}
		}
	}
}

// checkDelRace: a DELETE (of File) overlapping with an upload or a DELETE of Target.  Whatever the
// interleaving, afterwards every file that is still known — the ones fully stored before, and the file
// whose upload completed during the delete — must be fully stored and readable, and no chunk of a
// deleted file may stay stored unless it is pinned or another known file contains it.
func (o *C16Oracle) checkDelRace(ctx *core.Ctx, ev *Event) {
	rn := ev.Runner
	var full []*File
	if !ev.Skipped {
		for _, g := range o.L.LiveFiles(rn) {
			if !g.Enc && allStored(g, ev.Before) {
				full = append(full, g)
			}
		}
	}
	gone := o.L.Update(ev)
	if ev.Skipped {
		return
	}
	isGone := map[string]bool{ev.File.Spec: true}
	for _, f := range gone {
		isGone[f.Spec] = true
	}
	if ev.Target != nil && ev.Arg[1] == "up" && ev.RaceCode == "201" && ev.Mid1 != nil && allStored(ev.Target, ev.Mid1) {
		dup := false
		for _, g := range full {
			dup = dup || g.Spec == ev.Target.Spec
		}
		if !dup {
			full = append(full, ev.Target) // uploaded completely while the delete was held
		}
	}
	what := fmt.Sprintf("delete of %s overlapping with %s of %s", ev.File.Spec, ev.Arg[1], ev.Arg[2])
	for _, g := range full {
		if isGone[g.Spec] {
			continue
		}
		if !allStored(g, ev.After) || !rn.readsBack(g) {
			miss := ""
			for _, a := range g.All {
				if !ev.After.Stored[a.String()] {
					miss = short(a)
					break
				}
			}
			ctx.Fail("delete-race-breaks-other-file", "%s removed chunk %s of file %s, which was fully stored and is no longer readable", what, miss, g.Spec)
		}
	}
	for _, f := range gone {
		for _, a := range f.All {
			k := a.String()
			if !ev.After.Stored[k] || ev.After.Pin[k] > 0 {
				continue
			}
			used := false
			for _, g := range o.L.LiveFiles(rn) {
				if g.Spec != f.Spec && g.HasAddr(a) {
					used = true
					break
				}
			}
			if !used {
				ctx.Fail("delete-race-leaves-orphan", "after %s chunk %s (id %d) of %s is still stored, unpinned and used by no other known file", what, short(a), rn.ids[k], f.Spec)
				break
			}
		}
	}
}

func specs(gone []*File, ev *Event) []string {
	var s []string
	for _, f := range gone {
		s = append(s, f.Spec)
	}
	if len(s) == 0 && ev.File != nil {
		s = append(s, ev.File.Spec)
	}
	return s
}

// ---- C17 ------------------------------------------------------------------------------------------

// C17Oracle: a set self-presence bit i => data chunk i stored; "fully downloaded" => all data
// chunks stored; after delete no availability / discovery / source record in memory or persisted.
//
// Records the node keeps for the PEER (`chunk-<root>-<peer>`, written when a chunk of the file is served to it) are
// records of the file as well: they must go with the file.  Besides the check right after the removal, the oracle
// follows every file that was removed once: an availability record for the peer — in memory or persisted — may exist
// only if something of the CURRENT incarnation of the file was transferred to the peer, and may mark only positions
// that were transferred (a record left over from the deleted incarnation comes back into memory when the file exists
// again and chunkinfo is re-initialised from the state store).
type C17Oracle struct {
	L         *Live
	served    map[string]map[int]bool // spec -> data positions served to the peer since the file was last removed
	servedAny map[string]bool         // spec -> some chunk (data or not) served since then
	removed   map[string]bool         // spec -> removed at least once
}

func NewC17Oracle() *C17Oracle {
	return &C17Oracle{L: NewLive(), served: map[string]map[int]bool{}, servedAny: map[string]bool{}, removed: map[string]bool{}}
}

// distinct data chunks in first-occurrence order = bit positions
func positions(f *File) []boson.Address {
	var out []boson.Address
	seen := map[string]bool{}
	for _, a := range f.Data {
		if !seen[a.String()] {
			seen[a.String()] = true
			out = append(out, a)
		}
	}
	return out
}

func (o *C17Oracle) Check(ctx *core.Ctx, ev *Event) {
	rn := ev.Runner
	gone := o.L.Update(ev)
	if ev.Skipped {
		return
	}
	s := ev.After
	self := rn.N.Addr.String()
	peer := rn.P.Addr.String()
	if ev.Kind == "serve" && ev.Word == "ok" && ev.File != nil {
		o.servedAny[ev.File.Spec] = true
		for i, a := range positions(ev.File) {
			if a.Equal(ev.Served) {
				if o.served[ev.File.Spec] == nil {
					o.served[ev.File.Spec] = map[int]bool{}
				}
				o.served[ev.File.Spec][i] = true
			}
		}
	}
	for _, f := range gone {
		o.removed[f.Spec] = true
		delete(o.served, f.Spec)
		delete(o.servedAny, f.Spec)
	}
	for _, f := range rn.Files() {
		if !o.removed[f.Spec] || f.Enc || f.Root.Bytes() == nil {
			continue
		}
		root := f.Root.String()
		for _, r := range s.CI.Roots {
			if r.Root != root {
				continue
			}
			for _, p := range r.Presence {
				if p.Overlay != peer {
					continue
				}
				if !o.servedAny[f.Spec] {
					ctx.Fail("stale-peer-record-memory", "after %s: availability record for the peer of %s in memory (bits %s) although nothing of the file was transferred to it since the file was removed", ev.Kind, f.Spec, bitString(p.Len, p.B))
					continue
				}
				for i := 0; i < p.Len; i++ {
					if i/8 < len(p.B) && p.B[i/8]&(1<<(uint(i)%8)) != 0 && !o.served[f.Spec][i] {
						ctx.Fail("stale-peer-bit-memory", "after %s: the record for the peer of %s marks data chunk %d, which was not transferred to it since the file was removed", ev.Kind, f.Spec, i)
					}
				}
			}
		}
		if !o.servedAny[f.Spec] {
			for _, k := range s.Keys {
				if k == "chunk-"+root+"-"+peer {
					ctx.Fail("stale-peer-record-persisted", "after %s: state store holds an availability record for the peer of %s although nothing of the file was transferred to it since the file was removed", ev.Kind, f.Spec)
				}
			}
		}
	}
	for _, r := range s.CI.Roots {
		f := rn.byRoot(boson.MustParseHexAddress(r.Root))
		if f == nil || f.Enc {
			continue
		}
		for _, p := range r.Presence {
			if p.Overlay != self {
				continue
			}
			pos := positions(f)
			if p.Len != len(pos) {
				ctx.Fail("presence-length", "self availability vector of %s has %d bits, the file has %d distinct data chunks", f.Spec, p.Len, len(pos))
				continue
			}
			all := true
			for i := 0; i < p.Len; i++ {
				set := i/8 < len(p.B) && p.B[i/8]&(1<<(uint(i)%8)) != 0
				if !set {
					all = false
					continue
				}
				if !s.Stored[pos[i].String()] {
					ctx.Fail("self-bit-without-chunk", "availability record of %s marks data chunk %d (%s) present but it is not stored locally (after %s)", f.Spec, i, short(pos[i]), ev.Kind)
				}
			}
			if all {
				for i, a := range pos {
					if !s.Stored[a.String()] {
						ctx.Fail("full-without-all-chunks", "%s is reported fully downloaded but data chunk %d is not stored", f.Spec, i)
						break
					}
				}
			}
		}
	}
	// removed files: no record left
	check := func(f *File, when string) {
		root := f.Root.String()
		for _, r := range s.CI.Roots {
			if r.Root != root {
				continue
			}
			switch {
			case r.HasPresence:
				ctx.Fail("record-after-"+when+"-memory-presence", "availability record of %s still in memory", f.Spec)
			case r.HasDiscover:
				ctx.Fail("record-after-"+when+"-memory-discover", "discovery record of %s still in memory", f.Spec)
			case r.HasSource:
				ctx.Fail("record-after-"+when+"-memory-source", "source record of %s still in memory", f.Spec)
			}
		}
		for _, k := range s.Keys {
			if strings.Contains(k, root) && !strings.HasPrefix(k, "root-pin-") {
				ctx.Fail("record-after-"+when+"-persisted", "state store still holds %s for %s", k[:strings.Index(k, "-")+1]+"…", f.Spec)
				break
			}
		}
	}
	for _, f := range gone {
		when := "delete"
		if ev.Kind == "gc" {
			when = "evict"
		}
		check(f, when)
	}
	if ev.Kind == "reinit" {
		for _, f := range rn.Files() {
			if o.L.removed[f.Spec] {
				check(f, "reinit")
			}
		}
	}
}
