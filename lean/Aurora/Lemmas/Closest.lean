import Aurora.Model.Closest
/-! Lemmas for C23: `DistanceCmp` orders by the XOR distance `xorNat`; the `ClosestPeer` fold. -/
namespace Aurora.Topo

theorem xorNat_lt_pow : ∀ (t x : Addr), t.length = x.length → xorNat t x < 256 ^ t.length := by
  intro t
  induction t with
  | nil => intro x _; cases x <;> simp [xorNat]
  | cons a as ih =>
    intro x h
    cases x with
    | nil => simp at h
    | cons b bs =>
      have h' : as.length = bs.length := by simpa using h
      have := ih bs h'
      have hb := UInt8.toNat_lt (b ^^^ a)
      simp only [xorNat, List.length_cons, Nat.pow_succ]
      have : (b ^^^ a).toNat * 256 ^ as.length + 256 ^ as.length ≤ 256 * 256 ^ as.length := by
        have h1 : ((b ^^^ a).toNat + 1) * 256 ^ as.length ≤ 256 * 256 ^ as.length :=
          Nat.mul_le_mul_right _ (by omega)
        rw [Nat.add_mul] at h1; omega
      omega

theorem digit_lt (P dx dy X Y : Nat) (hX : X < P) (h : dx < dy) : dx * P + X < dy * P + Y := by
  have h1 : (dx + 1) * P ≤ dy * P := Nat.mul_le_mul_right _ h
  rw [Nat.add_mul] at h1; omega

/-- `DistanceCmp(a, x, y) = 1` exactly when `x` is strictly XOR-nearer to `a` than `y` -/
theorem distanceCmpGo_eq_one : ∀ (a x y : Addr), a.length = x.length → a.length = y.length →
    (distanceCmpGo a x y = 1 ↔ xorNat a x < xorNat a y) := by
  intro a
  induction a with
  | nil => intro x y hx hy; cases x <;> cases y <;> simp_all [distanceCmpGo, xorNat]
  | cons ai as ih =>
    intro x y hx hy
    cases x with
    | nil => simp at hx
    | cons xi xs =>
      cases y with
      | nil => simp at hy
      | cons yi ys =>
        have hx' : as.length = xs.length := by simpa using hx
        have hy' : as.length = ys.length := by simpa using hy
        have bx := xorNat_lt_pow as xs hx'
        have by' := xorNat_lt_pow as ys hy'
        simp only [distanceCmpGo, xorNat]
        by_cases he : (xi ^^^ ai) = (yi ^^^ ai)
        · simp only [he, beq_self_eq_true, if_true]
          rw [ih xs ys hx' hy']; omega
        · have he' : ((xi ^^^ ai) == (yi ^^^ ai)) = false := by simpa using he
          simp only [he', Bool.false_eq_true, if_false]
          by_cases hl : (xi ^^^ ai) < (yi ^^^ ai)
          · simp only [hl, if_true, true_iff]
            exact digit_lt _ _ _ _ _ bx (UInt8.lt_iff_toNat_lt.mp hl)
          · simp only [hl, if_false]
            have hne : (xi ^^^ ai).toNat ≠ (yi ^^^ ai).toNat := fun h => he (UInt8.toNat_inj.mp h)
            have hle := UInt8.le_iff_toNat_le.mp (UInt8.not_lt.mp hl)
            have := digit_lt (256 ^ as.length) _ _ (xorNat as ys) (xorNat as xs) by' (by omega : (yi ^^^ ai).toNat < (xi ^^^ ai).toNat)
            constructor
            · intro h; simp at h
            · intro h; omega

theorem closer_iff (p t c : Addr) (hp : p.length = t.length) (hc : c.length = t.length) :
    closer p t c = true ↔ xorNat t p < xorNat t c := by
  unfold closer distanceCmp
  have h1 : (t.length != p.length || t.length != c.length) = false := by simp [hp, hc]
  simp only [h1, Bool.false_eq_true, if_false]
  rw [← distanceCmpGo_eq_one t p c hp.symm hc.symm]
  simp

theorem uint8_xor_cancel (x y a : UInt8) (h : x ^^^ a = y ^^^ a) : x = y := by
  have := congrArg (· ^^^ a) h
  simpa [UInt8.xor_assoc] using this

/-- equal-length addresses at the same XOR distance from `t` are equal -/
theorem xorNat_inj : ∀ (t x y : Addr), t.length = x.length → t.length = y.length →
    xorNat t x = xorNat t y → x = y := by
  intro t
  induction t with
  | nil => intro x y hx hy _; cases x <;> cases y <;> simp_all
  | cons ai as ih =>
    intro x y hx hy h
    cases x with
    | nil => simp at hx
    | cons xi xs =>
      cases y with
      | nil => simp at hy
      | cons yi ys =>
        have hx' : as.length = xs.length := by simpa using hx
        have hy' : as.length = ys.length := by simpa using hy
        have bx := xorNat_lt_pow as xs hx'
        have by' := xorNat_lt_pow as ys hy'
        simp only [xorNat] at h
        have hd : (xi ^^^ ai).toNat = (yi ^^^ ai).toNat := by
          rcases Nat.lt_trichotomy (xi ^^^ ai).toNat (yi ^^^ ai).toNat with hl | he | hg
          · have := digit_lt (256 ^ as.length) _ _ (xorNat as xs) (xorNat as ys) bx hl; omega
          · exact he
          · have := digit_lt (256 ^ as.length) _ _ (xorNat as ys) (xorNat as xs) by' hg; omega
        rw [hd] at h
        have hrest := ih xs ys hx' hy' (by omega)
        have hhead := uint8_xor_cancel xi yi ai (UInt8.toNat_inj.mp hd)
        rw [hhead, hrest]

/-! ## the fold of `ClosestPeer` -/

/-- a connected peer passes the `filter.Reachable` wrapper and the skip list -/
def eligible (reachOnly : Bool) (skip : List Addr) (p : Addr × Bool) : Bool :=
  !(reachOnly && !p.2) && !skip.contains p.1

/-- the eligible peers: connected, not skipped, reachable when requested -/
def eligibleOf (conn : List (Addr × Bool)) (reachOnly : Bool) (skip : List Addr) : List Addr :=
  (conn.filter (eligible reachOnly skip)).map (·.1)

theorem closestStep_not_eligible (t : Addr) (ro : Bool) (skip : List Addr) (c : Addr) (p : Addr × Bool)
    (h : eligible ro skip p = false) : closestStep t ro skip c p = c := by
  unfold closestStep
  unfold eligible at h
  cases h1 : (ro && !p.2)
  · cases h2 : skip.contains p.1
    · rw [h1, h2] at h; simp at h
    · simp only [Bool.false_eq_true, if_false, if_true]
  · simp only [if_true]

theorem closestStep_eligible (t : Addr) (ro : Bool) (skip : List Addr) (c : Addr) (p : Addr × Bool)
    (h : eligible ro skip p = true) :
    closestStep t ro skip c p = if c.isEmpty then p.1 else if closer p.1 t c then p.1 else c := by
  unfold closestStep
  unfold eligible at h
  cases h1 : (ro && !p.2)
  · cases h2 : skip.contains p.1
    · simp only [Bool.false_eq_true, if_false]
    · rw [h1, h2] at h; simp at h
  · rw [h1] at h; simp at h

/-- fold started from a non-zero candidate `c0` -/
theorem fold_from_nonempty (t : Addr) (ro : Bool) (skip : List Addr) (ht : 0 < t.length) :
    ∀ (l : List (Addr × Bool)) (c0 : Addr), (∀ p ∈ l, p.1.length = t.length) → c0.length = t.length →
      let c := l.foldl (closestStep t ro skip) c0
      c.length = t.length ∧ (c = c0 ∨ c ∈ eligibleOf l ro skip) ∧
      (∀ q ∈ eligibleOf l ro skip, xorNat t c ≤ xorNat t q) ∧
      xorNat t c ≤ xorNat t c0 ∧ (c ≠ c0 → xorNat t c < xorNat t c0) := by
  intro l
  induction l with
  | nil => intro c0 _ h0; simp [eligibleOf, h0]
  | cons p l ih =>
    intro c0 hl h0
    have hp : p.1.length = t.length := hl p (by simp)
    have hl' : ∀ q ∈ l, q.1.length = t.length := fun q hq => hl q (by simp [hq])
    have hne : c0.isEmpty = false := by
      cases c0 with
      | nil => simp at h0; omega
      | cons _ _ => rfl
    simp only [List.foldl_cons]
    by_cases he : eligible ro skip p = true
    · have hE : eligibleOf (p :: l) ro skip = p.1 :: eligibleOf l ro skip := by
        simp [eligibleOf, he]
      rw [closestStep_eligible t ro skip c0 p he, hE]
      simp only [hne, Bool.false_eq_true, if_false]
      by_cases hc : closer p.1 t c0 = true
      · simp only [hc, if_true]
        have hlt := (closer_iff p.1 t c0 hp h0).mp hc
        obtain ⟨a, b, c, d, e⟩ := ih p.1 hl' hp
        refine ⟨a, ?_, ?_, by omega, fun _ => by omega⟩
        · rcases b with b | b
          · right; simp [b]
          · right; simp [b]
        · intro q hq
          rcases List.mem_cons.mp hq with rfl | hq
          · exact d
          · exact c q hq
      · simp only [hc, Bool.false_eq_true, if_false]
        have hge : ¬ xorNat t p.1 < xorNat t c0 := fun h => hc ((closer_iff p.1 t c0 hp h0).mpr h)
        obtain ⟨a, b, c, d, e⟩ := ih c0 hl' h0
        refine ⟨a, ?_, ?_, d, e⟩
        · rcases b with b | b
          · left; exact b
          · right; simp [b]
        · intro q hq
          rcases List.mem_cons.mp hq with rfl | hq
          · omega
          · exact c q hq
    · have he' : eligible ro skip p = false := by simpa using he
      have hE : eligibleOf (p :: l) ro skip = eligibleOf l ro skip := by
        simp [eligibleOf, he']
      rw [closestStep_not_eligible t ro skip c0 p he', hE]
      exact ih c0 hl' h0

/-- fold started from the zero address -/
theorem fold_from_zero (t : Addr) (ro : Bool) (skip : List Addr) (ht : 0 < t.length) :
    ∀ (l : List (Addr × Bool)), (∀ p ∈ l, p.1.length = t.length) →
      let c := l.foldl (closestStep t ro skip) []
      (eligibleOf l ro skip = [] → c = []) ∧
      (eligibleOf l ro skip ≠ [] → c.length = t.length ∧ c ∈ eligibleOf l ro skip ∧
        ∀ q ∈ eligibleOf l ro skip, xorNat t c ≤ xorNat t q) := by
  intro l
  induction l with
  | nil => intro _; simp [eligibleOf]
  | cons p l ih =>
    intro hl
    have hp : p.1.length = t.length := hl p (by simp)
    have hl' : ∀ q ∈ l, q.1.length = t.length := fun q hq => hl q (by simp [hq])
    simp only [List.foldl_cons]
    by_cases he : eligible ro skip p = true
    · have hE : eligibleOf (p :: l) ro skip = p.1 :: eligibleOf l ro skip := by
        simp [eligibleOf, he]
      rw [closestStep_eligible t ro skip [] p he, hE]
      simp only [List.isEmpty_nil, if_true]
      obtain ⟨a, b, c, d, e⟩ := fold_from_nonempty t ro skip ht l p.1 hl' hp
      refine ⟨fun h => by simp at h, fun _ => ⟨a, ?_, ?_⟩⟩
      · rcases b with b | b
        · simp [b]
        · simp [b]
      · intro q hq
        rcases List.mem_cons.mp hq with rfl | hq
        · exact d
        · exact c q hq
    · have he' : eligible ro skip p = false := by simpa using he
      have hE : eligibleOf (p :: l) ro skip = eligibleOf l ro skip := by
        simp [eligibleOf, he']
      rw [closestStep_not_eligible t ro skip [] p he', hE]
      exact ih hl'

end Aurora.Topo
