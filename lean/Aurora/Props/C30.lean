import Aurora.Lemmas.Cheque
import Aurora.Lemmas.AtomicRegionUse
import Aurora.Generated.ChequeStoreRegions
/-!
# C30 — Cheques are credited once and to the right peer

Property theorems only (helpers in `Aurora/Lemmas/Cheque.lean`).  The model
(`Aurora/Model/Cheque.lean`) transcribes `chequestore.ReceiveCheque` and
`traffic.Service.ReceiveCheque` (after the `||` repair) and is tied to the Go code by the
C30 correspondence run.  Signature recovery is an oracle argument; what "a valid signature of
the stated issuer" means cryptographically is a *hypothesis* (`C30_accept_signed`), never an axiom.
All statements hold for every state, cheque, peer and every history — no bound.
-/
namespace Aurora.Cheque

/-- Clause 1, store level (`ChequeStore.ReceiveCheque` return values): the store answers
    `ok amount` exactly when the cheque names this node as recipient, the recovered signer is the
    stated issuer, and the cumulative payout exceeds the issuer's last one; the amount is the
    increase and only that issuer's entry is replaced. -/
theorem C30_store_accept_iff (self : Nat) (s s' : Store) (c : Cheque) (r : Option Nat) (amt : Nat) :
    storeReceive self s c r = (s', .ok amt) ↔
      (c.rcp = self ∧ r = some c.ben ∧ lastCum s c.ben < c.cum ∧ amt = c.cum - lastCum s c.ben ∧
       s' = { last := fun i => if i = c.ben then some c else s.last i }) :=
  storeReceive_ok_iff self s c r s' amt

/-- Clause 1, service level (`accept_sound`): a cheque delivered by `peer` is accepted only if
    it names this node as recipient, the recovered signer is its stated issuer, it raises that
    issuer's cumulative payout, and `peer`'s registered chain address is that issuer. -/
theorem C30_accept_sound (st st' : St) (peer : Nat) (c : Cheque) (r : Option Nat) (amt : Nat)
    (h : receive st peer c r = (st', .store (.ok amt))) :
    c.rcp = st.self ∧ r = some c.ben ∧ lastCum st.store c.ben < c.cum ∧ st.fwd peer = some c.ben ∧
    amt = c.cum - lastCum st.store c.ben := receive_ok_sound st st' peer c r amt h

/-- Clause 1 under the cryptographic reading: if recovery is sound for the signature scheme
    (`recover c σ = some a` only when `a` signed `c` — EIP-712/secp256k1 unforgeability, a
    hypothesis), every accepted cheque was signed by its stated issuer. -/
theorem C30_accept_signed {Sig : Type} (recover : Cheque → Sig → Option Nat)
    (SignedBy : Nat → Cheque → Sig → Prop)
    (hsound : ∀ c σ a, recover c σ = some a → SignedBy a c σ)
    (st st' : St) (peer : Nat) (c : Cheque) (σ : Sig) (amt : Nat)
    (h : receive st peer c (recover c σ) = (st', .store (.ok amt))) : SignedBy c.ben c σ :=
  hsound c σ c.ben (C30_accept_sound st st' peer c _ amt h).2.1

/-- non-vacuity of `C30_accept_signed`: a toy scheme where the signature is the signer's id -/
example : ∃ st', receive (register (init 0) 7 3) 7 ⟨3, 0, 5⟩ ((fun (_ : Cheque) (σ : Nat) => some σ) ⟨3, 0, 5⟩ 3)
    = (st', .store (.ok 5)) := ⟨_, rfl⟩

/-- A cheque that is not accepted changes nothing (no store entry, no credit): replays, equal or
    lower amounts, mis-addressed, wrongly signed and foreign-issuer cheques are inert. -/
theorem C30_reject_no_change (st : St) (peer : Nat) (c : Cheque) (r : Option Nat)
    (h : ∀ amt, (receive st peer c r).2 ≠ .store (.ok amt)) : (receive st peer c r).1 = st :=
  receive_reject_no_change st peer c r h

/-- A replayed (or lower) cheque is never accepted: once an issuer's last cumulative payout is
    `≥ c.cum`, `c` is rejected whoever delivers it. -/
theorem C30_replay_rejected (st : St) (peer : Nat) (c : Cheque) (r : Option Nat)
    (hle : c.cum ≤ lastCum st.store c.ben) (amt : Nat) : (receive st peer c r).2 ≠ .store (.ok amt) := by
  intro h
  have := C30_accept_sound st (receive st peer c r).1 peer c r amt (Prod.ext rfl h)
  omega

/-- Effect of an accepted cheque: the credit record of the issuer's chain address — and of no
    other address — becomes the cumulative payout; only the issuer's stored cheque changes. -/
theorem C30_accept_effect (st st' : St) (peer : Nat) (c : Cheque) (r : Option Nat) (amt : Nat)
    (h : receive st peer c r = (st', .store (.ok amt))) :
    st'.credited c.ben = c.cum ∧ (∀ x, x ≠ c.ben → st'.credited x = st.credited x) ∧
    st'.store.last c.ben = some c ∧ (∀ x, x ≠ c.ben → st'.store.last x = st.store.last x) ∧
    st'.earned c.ben = st.earned c.ben + amt ∧ (∀ x, x ≠ c.ben → st'.earned x = st.earned x) ∧
    st'.fwd = st.fwd ∧ st'.rev = st.rev ∧ st'.self = st.self := receive_ok_effect st st' peer c r amt h

/-- Clause 2 (`credit_is_max`): over any history of registrations, cheques delivered by peers and
    direct store calls — valid, replayed, reordered, lower, mis-addressed, wrongly signed, foreign —
    the total credited to issuer `i` (Σ of the amounts the store returned) equals the highest
    accepted cumulative payout of `i`, which is the stored last cheque's amount (0 if none);
    and the credit record of `i`'s address never exceeds it. -/
theorem C30_credit_is_max (self : Nat) (ops : List Op) (i : Nat) :
    let st := run (init self) ops
    st.earned i = (accCums (init self) ops i).foldl max 0 ∧
    lastCum st.store i = (accCums (init self) ops i).foldl max 0 ∧
    st.credited i ≤ (accCums (init self) ops i).foldl max 0 := by
  have h := run_facts ops (init self) (inv_init self) i
  have h0 : lastCum (init self).store i = 0 := by simp [init, lastCum]
  rw [h0] at h
  exact ⟨by rw [(h.1 i).1, h.2], h.2, by rw [← h.2]; exact (h.1 i).2⟩

/-- non-vacuity / sanity: replay and reordering are credited once — the history
    10, 30, 10 (replay), 20 (late) for issuer 1 through peer 0 credits 30 in total -/
example :
    let ops := [Op.reg 0 1, .recv 0 ⟨1, 0, 10⟩ (some 1), .recv 0 ⟨1, 0, 30⟩ (some 1),
                .recv 0 ⟨1, 0, 10⟩ (some 1), .recv 0 ⟨1, 0, 20⟩ (some 1)]
    (run (init 0) ops).earned 1 = 30 ∧ (run (init 0) ops).credited 1 = 30 ∧ accCums (init 0) ops 1 = [10, 30] := by
  decide

/-- What the repair changed: with the former `&&` guard a cheque validly signed by issuer 2 but
    delivered by peer 0 (registered address 1) was accepted and credited to address 1. -/
theorem C30_receiveOld_counterexample :
    ∃ st peer c r st' amt, receiveOld st peer c r = (st', .store (.ok amt)) ∧
      st.fwd peer ≠ some c.ben ∧ st'.credited 1 = 77 ∧ c.ben = 2 := by
  refine ⟨register (register (init 0) 0 1) 1 2, 0, ⟨2, 0, 77⟩, some 2, _, 77, rfl, by decide, by decide, rfl⟩

/-! ### concurrent deliveries: the check and the store sit in one `chequeStore.lock` region

`chequeStore.ReceiveCheque` is a check-then-act on the persisted record
`traffic_last_received_cheque_<issuer>`: read the last cheque, compare, `Put` the new one.  The
extractor (harness/cmd/extract/regions.go) regenerates on every run the sequence of
`s.lock.Lock()/Unlock()`, `s.store.Get(lastReceivedChequeKey …)` (read) and
`s.store.Put(lastReceivedChequeKey …)` (write) events of that function as an instruction list
(`Aurora/Generated/ChequeStoreRegions.lean`). -/

section Concurrent
open Aurora.Generated

/-- **static obligation** (by evaluation of the regenerated list): the locking pattern of
    `ReceiveCheque` was recognised; every read of the last received cheque and the `store.Put`
    happen while `s.lock` is held; the `Put` is preceded, inside the same critical section, by the
    read it is decided on; and both a read and a write were found.  The seeded change C30-1
    (`Lock()` moved below the "increasing" check) generates
    `[.access 0 false, .lock 0, .access 0 true, .unlock 0]` and this fails. -/
theorem C30_receive_check_and_store_one_region :
    ChequeStoreRegions.ReceiveCheque.1 = true ∧
    AtomicRegion.bodyOk ChequeStoreRegions.ReceiveCheque.2 = true ∧
    AtomicRegion.hasReadWrite ChequeStoreRegions.ReceiveCheque.2 = true := by
  decide

/-- Clause 2 for concurrent deliveries to the cheque store.  Any number of goroutines, goroutine `t`
    delivering cheque `chq t` (recovered signer `rec t`), each interpreting the instruction list
    extracted from `ReceiveCheque`, with the cheque-store state as the shared cell, in any
    interleaving of their atomic lock / unlock / read / store steps: every reachable state is the state
    of the *sequential* model after the deliveries in the order `s.log` of their stores, the answers
    handed out (`s.outs`) are the sequential answers, and therefore (`C30_credit_is_max`) the amounts
    credited per issuer sum to the highest accepted cumulative payout — a cheque delivered twice at
    the same time is credited once.  (Mutex semantics assumed: `Lock` is enabled only when the mutex
    is free.) -/
theorem C30_concurrent_deliveries_serial (self : Nat) (chq : Nat → Cheque) (rec : Nat → Option Nat) (d : St)
    (s : AtomicRegion.St St StoreRes)
    (hr : AtomicRegion.Reach (fun t x => storeOnly x (chq t) (rec t))
            (fun _ => ChequeStoreRegions.ReceiveCheque.2) (init self) d s) :
    let ops := s.log.map fun t => Op.srecv (chq t) (rec t)
    s.cell = run (init self) ops ∧
    s.outs = (AtomicRegion.seqRun (fun t x => storeOnly x (chq t) (rec t)) (init self) s.log).2 ∧
    ∀ i, s.cell.earned i = (accCums (init self) ops i).foldl max 0 ∧
         lastCum s.cell.store i = (accCums (init self) ops i).foldl max 0 := by
  intro ops
  have hser := AtomicRegion.atomic_serial (fun t x => storeOnly x (chq t) (rec t))
    (fun _ => ChequeStoreRegions.ReceiveCheque.2) (fun _ => C30_receive_check_and_store_one_region.2.1) (init self) d s hr
  have hcell : s.cell = run (init self) ops := by
    have := congrArg Prod.fst hser
    simp only at this
    rw [this, seqRun_storeOnly]
  refine ⟨hcell, congrArg Prod.snd hser, fun i => ?_⟩
  have h := C30_credit_is_max self ops i
  simp only at h
  rw [hcell]
  exact ⟨h.1, h.2.1⟩

/-- the discipline is needed (non-vacuity of the hypothesis "body passes `bodyOk`"): with the read
    before `Lock()` two deliveries of the same cheque for 10 are both credited 10 -/
example : ∃ s : AtomicRegion.St Nat Nat,
    AtomicRegion.Reach (fun _ => AtomicRegion.recvOp 10) (fun _ => AtomicRegion.splitBody) 0 0 s ∧
    s.cell = 10 ∧ s.outs = [(0, 10), (1, 10)] ∧
    (s.cell, s.outs) ≠ AtomicRegion.seqRun (fun _ => AtomicRegion.recvOp 10) 0 s.log :=
  AtomicRegion.split_breaks

/-- … and the theorem is about runs that exist: two goroutines delivering the same cheque for 10
    through the extracted body — the second is answered `notIncreasing` -/
example : (AtomicRegion.seqRun (fun (_ : Nat) x => storeOnly x ⟨1, 0, 10⟩ (some 1)) (init 0) [0, 1]).2
    = [(0, .ok 10), (1, .notIncreasing)] := by decide

end Concurrent

end Aurora.Cheque
