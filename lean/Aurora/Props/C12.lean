import Aurora.Lemmas.GcEvict
import Aurora.Lemmas.GcWindow
import Aurora.Model.NodeLite
/-!
# C12 — Garbage collection never deletes pinned or uploaded chunks

Property theorems only (helper lemmas: `Aurora/Lemmas/GcEvict.lean`).  Models: lstore-a's
literal `Aurora/Model/Localstore.lean` (`gcSelect` / `gcEvict`, `put`) and the node-lite
composition `Aurora/Model/NodeLite.lean` (`gc` feeds `gcEvict` with the pyramids of
`ChunkPyramid.getUnRepeatChunk`, i.e. the real chunkinfo), both tied to the real node by the C12
correspondence run.

The code VIOLATES the property in four designed-in ways and in one race (trigger 5,
`C12_counterexample_pin_before_commit`) (each confirmed on the real code by a
deterministic history, see the counterexample theorems and `notes/C12.md`).  Proved here, for all
states / pyramids (no bound):

* uploads never enter the gc index (`C12_upload_not_cached`);
* a collection run deletes nothing but the chunks listed in the evicted pyramids and the
  candidates' root chunks (`C12_gc_deletes_only_listed`) — together: a chunk stored only by upload
  is never deleted unless it is listed in the pyramid of an evicted (cached) file;
* under the guard "no listed chunk and no candidate root has a pin entry" the run leaves the pin
  index untouched and keeps every pinned chunk (`C12_gc_pin_untouched_partial`);
* the unguarded statement is false (`C12_gc_pin_untouched_counterexample`, + three more triggers);
* the window between candidate selection and the deletion callback: a candidate that is pinned (or
  touched in any way that logs its root as dirty) after the run entered `DelFile` for it and before the
  callback takes `batchMu` is skipped, pins and chunks untouched (`C12_gc_recheck_protects_racing_pin`,
  `C12_gc_recheck_skips_dirty`); the check has to be where it is (`C12_hoisted_check_counterexample`).
-/
namespace Aurora.Localstore

/-! ### uploads are not entered into the gc index -/

/-- `Put(ModePutUpload, chunk)` without root context (what the upload pipeline does, one chunk per
    call) changes neither the gc index nor the access index, whatever the state. -/
theorem C12_upload_not_cached (po : Addr → Nat) (s : State) (a : Addr) (d : Bytes) :
    (put po s .upload none [(a, d)]).st.db.gc = s.db.gc ∧
    (put po s .upload none [(a, d)]).st.db.access = s.db.access := by
  unfold put
  by_cases h : SMap.has a s.db.data = true
  · simp [h, putFast]
  · have h' : SMap.has a s.db.data = false := by simpa using h
    simp [h', putFast, putBody, addBins, putLoop, putUpload, storeNew, Tx.start, finish, commit, applyLog,
      applyDW, applyBatch, applyW, Tx.inBatch, Tx.now, incBinID, SMap.put, SMap.erase, SMap.insertS]

/-- the same for a pinned upload (`ModePutUploadPin`, no root context): only data, bin id and the
    pin counter are written. -/
theorem C12_pinned_upload_not_cached (po : Addr → Nat) (s : State) (a : Addr) (d : Bytes) :
    (put po s .uploadPin none [(a, d)]).st.db.gc = s.db.gc ∧
    (put po s .uploadPin none [(a, d)]).st.db.access = s.db.access := by
  unfold put
  by_cases h : SMap.has a s.db.data = true
  · simp [h, putFast, putBody, addBins, putLoop, putUpload, setPin, setPinRoot, Tx.start, finish, commit,
      applyLog, applyDW, applyBatch, applyW, Tx.inBatch, SMap.put, SMap.erase, SMap.insertS]
  · have h' : SMap.has a s.db.data = false := by simpa using h
    simp [h', putFast, putBody, addBins, putLoop, putUpload, storeNew, setPin, setPinRoot, Tx.start, finish,
      commit, applyLog, applyDW, applyBatch, applyW, Tx.inBatch, Tx.now, incBinID, SMap.put, SMap.erase,
      SMap.insertS]

/-! ### what a collection run deletes -/

/-- decomposition of `gcEvict`'s result: the persisted state is the old one with the flattened
    writes applied -/
theorem C12_gcEvict_db (s : State) (pyr : Addr → Option (List (Addr × Nat))) (hrun : s.gcRunning = true) :
    ∃ ws : List Write,
      (gcEvict s pyr).st.db = applyBatch s.db ws ∧
      (∀ w ∈ ws, DataSafe (listed pyr s.cands ++ s.cands.map (·.1.addr)) w) ∧
      ((∀ e ∈ s.cands, ∀ l, pyr e.1.addr = some l → ∀ c ∈ l, SMap.get c.1 s.db.pin = none) →
        ∀ w ∈ ws, NoPin w) := by
  rcases hev : evictLoop pyr s.dirty (Tx.start s) s.cands 0 [] [] with ⟨tx, n, recycled, visited⟩
  have hgen := evictLoop_general pyr s.dirty s.cands (Tx.start s) 0 [] []
  rw [hev] at hgen
  obtain ⟨_, ⟨ds, dl, hb, hl, hds, hdl⟩, hrec⟩ := hgen
  simp only at hb hl hrec
  obtain ⟨_, rl, rs, rb, rnp, rsafe⟩ := recycled_fold recycled tx
  have hrecsub : ∀ a ∈ recycled.map (·.1.addr), a ∈ s.cands.map (·.1.addr) := by
    intro a ha
    obtain ⟨e, he, hea⟩ := List.mem_map.mp ha
    rcases hrec e he with h | h
    · simp at h
    · exact List.mem_map.mpr ⟨e, h, hea⟩
  refine ⟨flat dl ++ (ds ++ rs ++ [.gcSizePut
      (if (if recycled.isEmpty then tx.db.gcSize else n + recycled.length) ≤ tx.db.gcSize
        then tx.db.gcSize - (if recycled.isEmpty then tx.db.gcSize else n + recycled.length) else 0)]), ?_, ?_, ?_⟩
  · unfold gcEvict
    simp only [hrun, Bool.not_true, Bool.false_eq_true, if_false, hev]
    rw [applyLog_eq_applyBatch_flat]
    have hstart_b : (Tx.start s).batch = [] := rfl
    have hstart_l : (Tx.start s).log = [] := rfl
    have e1 : (recycledTx recycled tx).log = dl := by rw [rl, hl, hstart_l]; simp
    have e2 : (recycledTx recycled tx).batch = ds ++ rs := by rw [rb, hb, hstart_b]; simp
    show applyBatch s.db (flat (((recycledTx recycled tx).inBatch _).log ++ [DW.batch ((recycledTx recycled tx).inBatch _).batch])) = _
    simp only [Tx.inBatch, flat_append, flat, List.append_nil, e1, e2]
  · intro w hw
    rcases List.mem_append.mp hw with h | h
    · exact DataSafe.mono (fun a ha => by simp at ha) (hdl w h)
    · rcases List.mem_append.mp h with h | h
      · rcases List.mem_append.mp h with h | h
        · exact DataSafe.mono (fun a ha => List.mem_append.mpr (Or.inl ha)) (hds w h)
        · exact DataSafe.mono (fun a ha => List.mem_append.mpr (Or.inr (hrecsub a ha))) (rsafe w h)
      · simp at h; subst h; simp [DataSafe]
  · intro hg
    have hun := evictLoop_unpinned pyr s.dirty s.cands (Tx.start s) 0 [] [] hg
    rw [hev] at hun
    obtain ⟨_, hlog, ds', hb', hnp⟩ := hun
    simp only at hlog hb'
    have hdl0 : dl = [] := by
      have : (Tx.start s).log ++ dl = (Tx.start s).log := by rw [← hl]; exact hlog
      simpa using this
    have hds' : ds = ds' := by
      have : (Tx.start s).batch ++ ds = (Tx.start s).batch ++ ds' := by rw [← hb]; exact hb'
      simpa using this
    intro w hw
    subst hdl0
    simp only [flat, List.nil_append] at hw
    rcases List.mem_append.mp hw with h | h
    · rcases List.mem_append.mp h with h | h
      · exact hnp w (hds' ▸ h)
      · exact rnp w h
    · simp at h; subst h; simp [NoPin]

/-- A collection run deletes nothing but chunks listed in the pyramid handed over for an evicted
    candidate and the candidates' root chunks — pinned or not, for every state and every pyramid
    function.  With `C12_upload_not_cached`: a chunk stored only by upload is deleted only if it
    is listed for an evicted cached file (or is itself a cached file's root). -/
theorem C12_gc_deletes_only_listed (s : State) (pyr : Addr → Option (List (Addr × Nat)))
    (hrun : s.gcRunning = true) (a : Addr) (hst : SMap.has a s.db.data = true)
    (hl : a ∉ listed pyr s.cands) (hr : a ∉ s.cands.map (·.1.addr)) :
    SMap.has a (gcEvict s pyr).st.db.data = true := by
  obtain ⟨ws, hdb, hsafe, _⟩ := C12_gcEvict_db s pyr hrun
  rw [hdb, has_data_applyBatch ws s.db _ a hsafe (by
    intro h; rcases List.mem_append.mp h with h | h
    · exact hl h
    · exact hr h)]
  exact hst

/-- Full statement of "no run changes any pin count or deletes a chunk whose pin count is
    positive". -/
def C12_gc_pin_untouched_full : Prop :=
  ∀ (s : State) (pyr : Addr → Option (List (Addr × Nat))), s.gcRunning = true →
    (gcEvict s pyr).st.db.pin = s.db.pin ∧
    ∀ a, (SMap.get a s.db.pin).isSome = true → SMap.has a s.db.data = true →
      SMap.has a (gcEvict s pyr).st.db.data = true

/-- Guarded version: if no chunk listed for a candidate and no candidate root has a pin entry, the
    run leaves the pin index identical and every pinned chunk stored.  (The guard is exactly what
    the code does NOT ensure: see the counterexamples.) -/
theorem C12_gc_pin_untouched_partial (s : State) (pyr : Addr → Option (List (Addr × Nat)))
    (hrun : s.gcRunning = true)
    (hg : ∀ e ∈ s.cands, ∀ l, pyr e.1.addr = some l → ∀ c ∈ l, SMap.get c.1 s.db.pin = none)
    (hroot : ∀ e ∈ s.cands, SMap.get e.1.addr s.db.pin = none) :
    (gcEvict s pyr).st.db.pin = s.db.pin ∧
    ∀ a, (SMap.get a s.db.pin).isSome = true → SMap.has a s.db.data = true →
      SMap.has a (gcEvict s pyr).st.db.data = true := by
  obtain ⟨ws, hdb, _, hnp⟩ := C12_gcEvict_db s pyr hrun
  refine ⟨by rw [hdb]; exact pin_applyBatch ws s.db (hnp hg), ?_⟩
  intro a hp hst
  apply C12_gc_deletes_only_listed s pyr hrun a hst
  · intro hmem
    simp only [listed, List.mem_flatMap, List.mem_map] at hmem
    obtain ⟨e, he, c, hc, hca⟩ := hmem
    cases hpe : pyr e.1.addr with
    | none => simp [hpe] at hc
    | some l =>
      simp only [hpe, Option.getD_some] at hc
      have := hg e he l hpe c hc
      rw [hca] at this; simp [this] at hp
  · intro hmem
    obtain ⟨e, he, hea⟩ := List.mem_map.mp hmem
    have := hroot e he
    rw [hea] at this; simp [this] at hp

/-! ### the window between candidate selection and the deletion callback (`Model/GcWindow.lean`) -/

/-- The candidate-by-candidate model refines lstore-a's one-step `gcEvict`: if no operation runs
    between the candidates, stepping through all of them (`gcSteps`: `gcEvictOne` for each, with the
    pyramid `pyr` hands over) and finishing (`gcFinish`) gives exactly the state, the output and the
    driver writes of `gcEvict` — so `C12_gcEvict_db`, `C12_gc_deletes_only_listed` and
    `C12_gc_pin_untouched_partial` hold for every run of the window model in which nothing races. -/
theorem C12_gc_window_refines_gcEvict (s : State) (pyr : Addr → Option (List (Addr × Nat)))
    (hrun : s.gcRunning = true) :
    (gcFinish (gcSteps pyr (GcRun.start s) s.cands)).st = (gcEvict s pyr).st ∧
    (gcFinish (gcSteps pyr (GcRun.start s) s.cands)).out = (gcEvict s pyr).out ∧
    (gcFinish (gcSteps pyr (GcRun.start s) s.cands)).writes = (gcEvict s pyr).writes :=
  gcSteps_finish_eq_gcEvict s pyr hrun

/-- every `Set` executed while a run is in progress logs its addresses as dirty (and the run stays
    in progress) -/
theorem C12_set_logs_dirty (s : State) (mode : SetMode) (root : Option Addr) (addrs : List Addr)
    (hrun : s.gcRunning = true) :
    (set s mode root addrs).st.dirty = s.dirty ++ addrs ∧ (set s mode root addrs).st.gcRunning = true := by
  simp [set, finish, hrun]

/-- The re-check of the dirty addresses inside the deletion callback: a candidate whose root is in
    the dirty list AT THE TIME THE CALLBACK RUNS is passed over — nothing is written, directly or
    into the run's batch, and chunkinfo is told not to drop the file (`false`) — whatever pyramid
    `DelFile` hands over. -/
theorem C12_gc_recheck_skips_dirty (r : GcRun) (e : GcKey × Nat) (pyr : Option (List (Addr × Nat)))
    (hd : e.1.addr ∈ r.st.dirty) :
    (gcEvictOne r e pyr).2 = false ∧ (gcEvictOne r e pyr).1.st = r.st ∧
    (gcEvictOne r e pyr).1.batch = r.batch ∧ (gcEvictOne r e pyr).1.log = r.log ∧
    (gcEvictOne r e pyr).1.recycled = r.recycled ∧ (gcEvictOne r e pyr).1.n = r.n := by
  cases pyr with
  | none => simp [gcEvictOne, GcRun.skip]
  | some chunks => simp [gcEvictOne, GcRun.skip, hd]

/-- **A candidate pinned during the window is skipped by the eviction; pins untouched.**
    `r` is a run in progress that has picked candidate `e` and entered `DelFile` for it; before the
    deletion callback takes `batchMu`, a `Set(ModeSetPin)` that includes the candidate's root address
    (what `POST /pins/{ref}` does for every chunk of the file, the root among them) runs to completion.
    Then the callback's re-check finds the root dirty: the candidate is not evicted, the persisted state
    stays exactly as the pin left it (every pin counter, every chunk), the run's batch gets no deletion.
    If that was the run's only candidate, the committed run changes nothing but `gcSize`. -/
theorem C12_gc_recheck_protects_racing_pin (r : GcRun) (e : GcKey × Nat) (pyr : Option (List (Addr × Nat)))
    (root : Option Addr) (addrs : List Addr) (hrun : r.st.gcRunning = true) (hmem : e.1.addr ∈ addrs) :
    let pinned := (set r.st .pin root addrs).st
    let r' := (gcEvictOne { r with st := pinned } e pyr)
    r'.2 = false ∧ r'.1.st.db = pinned.db ∧ r'.1.batch = r.batch ∧ r'.1.log = r.log ∧
    r'.1.recycled = r.recycled ∧
    (r.batch = [] → r.recycled = [] →
      (gcFinish r'.1).st.db.pin = pinned.db.pin ∧ (gcFinish r'.1).st.db.data = pinned.db.data) := by
  intro pinned r'
  have hd : e.1.addr ∈ ({ r with st := pinned } : GcRun).st.dirty := by
    show e.1.addr ∈ (set r.st .pin root addrs).st.dirty
    rw [(C12_set_logs_dirty r.st .pin root addrs hrun).1]
    exact List.mem_append.mpr (Or.inr hmem)
  obtain ⟨h1, h2, h3, h4, h5, _⟩ := C12_gc_recheck_skips_dirty { r with st := pinned } e pyr hd
  refine ⟨h1, by rw [h2], h3, h4, h5, ?_⟩
  intro hb hr
  have hb' : r'.1.batch = [] := by rw [h3]; exact hb
  have hr' : r'.1.recycled = [] := by rw [h5]; exact hr
  have hst : r'.1.st = pinned := h2
  simp [gcFinish, hb', hr', hst, applyBatch, applyW]

end Aurora.Localstore

namespace Aurora.NodeLite
open Aurora.ChunkPyramid

/-- states of the node-lite model reachable by its API-level operations -/
inductive Reachable : State → Prop
  | init (files : List (String × FileInfo)) : Reachable { files := files }
  | upload (s : State) (fi : FileInfo) (pin : Bool) : Reachable s → Reachable (apiUpload s fi pin)
  | pyramid (s : State) (f : FileS) : Reachable s → Reachable (findPyramid s f)
  | get (s : State) (f : FileS) (a : Addr) : Reachable s → Reachable (nsGet s f a)
  | pin (s : State) (f : FileS) : Reachable s → Reachable (apiPin s f).1
  | unpin (s : State) (f : FileS) : Reachable s → Reachable (apiUnpin s f).1
  | delete (s : State) (f : FileS) : Reachable s → Reachable (apiDelete s f)
  | gc (s : State) (c : Nat) : Reachable s → Reachable (gc s c).1
  | reinit (s : State) : Reachable s → Reachable (reinit s)

def pinCount (s : State) (a : Addr) : Nat := (Aurora.Localstore.SMap.get a s.ls.db.pin).getD 0

/-- The property at the level of the node: from every reachable state, a collection (`gc c` =
    runs until done at capacity `c`) leaves the pin index identical and keeps every pinned chunk. -/
def C12_node_full : Prop :=
  ∀ (s : State) (c : Nat), Reachable s →
    (gc s c).1.ls.db.pin = s.ls.db.pin ∧ ∀ a, 0 < pinCount s a → stored s a = true → stored (gc s c).1 a = true

/-- history of trigger 1: pinned `/bytes` upload of chunk 1 (not registered with chunkinfo);
    file 10 = chunks [1, 2] cached from the peer (pyramid exchange, all chunks read) -/
def trigger1 : State :=
  let fA : FileInfo := { fs := { root := 1, subs := [[1]], hash := [] }, writes := [1], raw := true, atN := true }
  let fx : FileInfo := { fs := { root := 10, subs := [[1, 2]], hash := [10, 11, 12] }, atP := true }
  let s1 := apiUpload { files := [("=A", fA), ("x/AB", fx)] } fA true
  [10, 11, 12, 1, 2].foldl (fun s a => nsGet s fx.fs a) (findPyramid s1 fx.fs)

theorem C12_trigger1_reachable : Reachable trigger1 := by
  unfold trigger1
  simp only [List.foldl]
  repeat (first | apply Reachable.get | apply Reachable.pyramid | apply Reachable.upload | apply Reachable.init)

/-- Trigger 1 (confirmed on the real code, regression case `fix-raw-pinned-shared-with-cached`):
    the reference counts do not know the `/bytes` upload, so chunk 1 is listed for the cached
    file; evicting that file deletes the pin entry AND the pinned, locally uploaded chunk. -/
theorem C12_gc_pin_untouched_counterexample : ¬ C12_node_full := by
  intro h
  have := (h trigger1 0 C12_trigger1_reachable).1
  revert this
  decide

/-- the same history, spelled out: before the run chunk 1 is stored with pin counter 1, after it
    the pin index is empty and the chunk is gone -/
theorem C12_counterexample_unregistered_upload :
    (trigger1.ls.db.pin, stored trigger1 1, (gc trigger1 0).1.ls.db.pin, stored (gc trigger1 0).1 1) =
      ([(1, 1)], true, [], false) := by decide

/-- history of trigger 2: file 10 = chunks [1, 2, 1] cached partially, pinned, then fetched further -/
def trigger2 : State :=
  let f : FileS := { root := 10, subs := [[1, 2, 1]], hash := [10, 11, 12, 13] }
  let s1 := [10, 11, 12, 13, 1].foldl (fun s a => nsGet s f a)
    (findPyramid { files := [("y/ABA", { fs := f, atP := true })] } f)
  [10, 11, 12, 13, 2].foldl (fun s a => nsGet s f a) (apiPin s1 f).1

/-- Trigger 2 (regression case `fix-cached-pinned-then-fetch`): a cached file (root 10, chunks
    [1, 2, 1]) is pinned through the API while only part of it is stored; fetching the rest
    re-enters the root into the gc index (`setGC` does not look at pins); the run then evicts the
    pinned file: every pin entry and every chunk of it is deleted, the reference stays listed. -/
theorem C12_counterexample_pinned_cached_file :
    (trigger2.pinned, pinCount trigger2 1, stored trigger2 1) = ([10], 2, true) ∧
    ((gc trigger2 0).1.ls.db.pin, stored (gc trigger2 0).1 1, stored (gc trigger2 0).1 10,
      (gc trigger2 0).1.pinned) = ([], false, false, [10]) := by decide

/-- history of trigger 3: uploaded file (root 1, data chunk 2), pinned and unpinned through the API -/
def trigger3 : State × State :=
  let fi : FileInfo := { fs := { root := 1, subs := [[2]], hash := [1, 2, 3, 4] }, writes := [2, 3, 4, 1], atN := true }
  let s1 := apiUpload { files := [("x/a", fi)] } fi false
  (s1, (apiUnpin (apiPin s1 fi.fs).1 fi.fs).1)

/-- Trigger 3 (regression case `fix-upload-pin-unpin-gc`): `setUnpin` enters the root of an
    UPLOADED file into the gc index; the next run deletes the locally uploaded chunks. -/
theorem C12_counterexample_upload_after_unpin :
    (trigger3.1.ls.db.gc.length, trigger3.2.ls.db.gc.map (·.2), stored trigger3.2 2,
      stored (gc trigger3.2 0).1 2, stored (gc trigger3.2 0).1 1) = (0, [4], true, false, false) := by decide

/-- history of trigger 4: file (root 1, data chunk 2) known from the peer's pyramid only (its
    single data chunk arrives with the pyramid), then uploaded locally with the pin header -/
def trigger4 : State :=
  let fi : FileInfo := { fs := { root := 1, subs := [[2]], hash := [1, 2, 3, 4] }, writes := [2, 3, 4, 1], atN := true, atP := true }
  apiUpload (findPyramid { files := [("y/a", fi)] } fi.fs) fi true

/-- Trigger 4 (regression cases `fix-cached-then-uploaded[-pinned]`): the upload of a file that is
    already cached leaves its root in the gc index; the next run evicts the file: uploaded chunks
    and, for a pinned upload, all pin entries are deleted although the reference stays listed. -/
theorem C12_counterexample_cached_then_uploaded :
    (trigger4.ls.db.gc.map (·.2), trigger4.ls.db.pin.map (·.2), trigger4.pinned) = ([4], [1, 1, 1, 1], [1]) ∧
    ((gc trigger4 0).1.ls.db.pin, stored (gc trigger4 0).1 2, (gc trigger4 0).1.pinned) = ([], false, [1]) := by
  decide

/-! ### a racing pin of the candidate: non-vacuity of `C12_gc_recheck_protects_racing_pin`, and what
the re-check is needed for -/

/-- file of the race examples: root 10, data chunks [1, 2], cached completely from the peer -/
def raceFile : FileS := { root := 10, subs := [[1, 2]], hash := [10, 11, 12] }

def raceCached : State :=
  [10, 11, 12, 1, 2].foldl (fun s a => nsGet s raceFile a)
    (findPyramid { files := [("x/AB", { fs := raceFile, atP := true })] } raceFile)

/-- the window: capacity 0, candidates selected (the file is the only one); `.1` = as the run entered
    `DelFile`, `.2` = after `POST /pins` of the candidate ran to completion there -/
def raceWindow : State × State :=
  let s0 := { raceCached with ls := { raceCached.ls with capacity := 0 } }
  let w := { s0 with ls := (Aurora.Localstore.gcSelect s0.ls).st }
  (w, (apiPin w raceFile).1)

/-- The hypotheses of `C12_gc_recheck_protects_racing_pin` are satisfiable on a reachable history
    (regression case `fix-race-pin-candidate`): the run is in progress, the file is its candidate, the
    pin's `Set` calls include the root; and the whole operation `gcr 0 x/AB pin x/AB` of the node-lite
    model keeps all five pin entries and all five chunks. -/
theorem C12_racing_pin_example :
    raceWindow.1.ls.gcRunning = true ∧ raceWindow.1.ls.cands.map (·.1.addr) = [10] ∧
    raceWindow.1.ls.dirty = [] ∧ raceWindow.2.ls.dirty.contains 10 = true ∧
    (let r := gcRace raceCached 0 ([10], fun w => apiPin w raceFile)
     r.2.2 = some 201 ∧ r.1.ls.db.pin.map (·.2) = [1, 1, 1, 1, 1] ∧
     [1, 2, 10, 11, 12].all (stored r.1) = true ∧ r.1.pinned = [10]) := by decide

/-- Why the check has to be INSIDE the callback: with the dirty list read before the window (empty
    here — the pin has not happened yet) and no re-check, the same interleaving evicts the file: all
    pin entries and all chunks of the just pinned file are deleted.  (`gcEvictOneHoisted` is not the
    code; the node-lite model uses `gcEvictOne`, so a tree in which the check is moved out of the
    callback diverges from the model on `gcr 0 x/AB pin x/AB`.) -/
theorem C12_hoisted_check_counterexample :
    let w := raceWindow
    let e := w.1.ls.cands.headD (⟨0, 0, 0⟩, 0)
    let pyr := some (getUnRepeatChunk w.2.cp raceFile)
    let run := Aurora.Localstore.GcRun.start w.2.ls
    -- the code: skipped, pins and chunks as the pin left them
    (Aurora.Localstore.gcEvictOne run e pyr).2 = false ∧
    (Aurora.Localstore.gcFinish (Aurora.Localstore.gcEvictOne run e pyr).1).st.db.pin.map (·.2) = [1, 1, 1, 1, 1] ∧
    -- check hoisted out of the callback: evicted
    (Aurora.Localstore.gcEvictOneHoisted w.1.ls.dirty run e pyr).2 = true ∧
    (Aurora.Localstore.gcFinish (Aurora.Localstore.gcEvictOneHoisted w.1.ls.dirty run e pyr).1).st.db.pin = [] ∧
    (Aurora.Localstore.gcFinish (Aurora.Localstore.gcEvictOneHoisted w.1.ls.dirty run e pyr).1).st.db.data.map (·.1) = [] := by
  decide

/-- history of trigger 5: two single-chunk files cached from the peer (pyramid exchange brings the
    data chunk along): w = root 1, data chunk 2; x = root 5, data chunk 6; they share the manifest
    node chunk 4 -/
def trigger5 : State :=
  let fw : FileInfo := { fs := { root := 1, subs := [[2]], hash := [1, 2, 3, 4] }, atP := true }
  let fx : FileInfo := { fs := { root := 5, subs := [[6]], hash := [5, 6, 7, 4] }, atP := true }
  findPyramid (findPyramid { files := [("w/c", fw), ("x/a", fx)] } fw.fs) fx.fs

/-- Trigger 5 (confirmed on the real code, regression case `fix-race-pin-evicted-before-commit`):
    the run collects all deletions in ONE batch committed after the last candidate.  `POST /pins` of
    file w arriving while the run is in `DelFile` for the NEXT candidate x — after w's callback has
    decided w's deletions, before the commit — succeeds (201), its pin entries exist afterwards and
    the reference is listed, but the commit deletes w's chunks: pin counters positive, chunks gone.
    The dirty re-check cannot help: w's callback is over. -/
theorem C12_counterexample_pin_before_commit :
    let fw : FileS := { root := 1, subs := [[2]], hash := [1, 2, 3, 4] }
    let r := gcRace trigger5 0 ([1, 5], fun w => apiPin w fw)
    trigger5.ls.db.gc.map (·.1.addr) = [1, 5] ∧ r.2.2 = some 201 ∧
    [1, 2, 3].map (pinCount r.1) = [1, 1, 1] ∧ [1, 2, 3].map (stored r.1) = [false, false, false] ∧
    r.1.pinned = [1] := by decide

/-- without a racing operation firing, `gcr` is `gc` (here: on the four trigger histories) -/
theorem C12_gcRace_unfired_eq_gc :
    [trigger1, trigger2, trigger3.2, trigger4].all (fun s =>
      let a := gcRace s 0 ([999], fun w => (w, 0))
      let b := gc s 0
      a.2.2 == none && a.2.1 == b.2 && a.1.ls.db == b.1.ls.db && a.1.cp == b.1.cp && a.1.ci == b.1.ci) = true := by
  decide

end Aurora.NodeLite
