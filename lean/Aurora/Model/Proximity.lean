import Aurora.Generated.Consts
/-
Model of /repo/pkg/boson/proximity.go and distance.go (hand translation, tied by the C20
correspondence run).  Bytes are `BitVec 8`, byte slices are `List`s.  `uint8` arithmetic of the
Go code is written out as `% 256` on `Nat` (the return value `i*8 + j`); slice lengths are Go
`int`s (after the `fix:` commit that removed the `uint8(len(..))` truncation) and are `Nat`
here.  The caps are the *generated* constants `Aurora.Generated.maxPO / extendedPO`.
Indexing `one[i]` never leaves the slice because `b ≤ len(one), len(other)`; the fallback
`getD 0` is therefore never taken (lemma `scan_inrange` is not needed by the driver).
-/
namespace Aurora.Proximity
open Aurora.Generated

abbrev Byte := BitVec 8

/-- inner loop `for j := uint8(0); j < m; j++ { if (oxo>>(7-j))&0x01 != 0 { return … } }`
    (`m = 8`, `fuel = m - j`); `none` = the loop ran to its end. -/
def bitScan (oxo : Byte) (j : Nat) : Nat → Option Nat
  | 0 => none
  | fuel + 1 =>
    if (oxo >>> (7 - j)) &&& 1#8 ≠ 0#8 then some j else bitScan oxo (j + 1) fuel

/-- outer loop `for i := uint8(0); int(i) < b; i++` (`fuel = b - i`); the value returned from
    inside the loops is the `uint8` expression `i*8 + j`. -/
def scan (one other : List Byte) (i : Nat) : Nat → Option Nat
  | 0 => none
  | fuel + 1 =>
    match bitScan (one[i]?.getD 0#8 ^^^ other[i]?.getD 0#8) 0 8 with
    | some j => some ((i * 8 + j) % 256)
    | none => scan one other (i + 1) fuel

/-- `b := int(cap/8 + 1); if l := len(one); b > l { b = l }; if l := len(other); b > l { b = l }` -/
def scanBytes (cap : Nat) (one other : List Byte) : Nat :=
  let b := cap / 8 + 1
  let b := if b > one.length then one.length else b
  if b > other.length then other.length else b

/-- `boson.Proximity` -/
def proximity (one other : List Byte) : Nat :=
  (scan one other 0 (scanBytes maxPO one other)).getD maxPO

/-- `boson.ExtendedProximity` (after the `fix:` commit: the value found by the scan is clamped
    to `ExtendedPO`). -/
def extendedProximity (one other : List Byte) : Nat :=
  match scan one other 0 (scanBytes extendedPO one other) with
  | some po => if po < extendedPO then po else extendedPO
  | none => extendedPO

/-- `ExtendedProximity` before the repair (no clamp); kept to state what the repair changed. -/
def extendedProximityOld (one other : List Byte) : Nat :=
  (scan one other 0 (scanBytes extendedPO one other)).getD extendedPO

/-- `Proximity` before the repair of the `uint8(len(..))` truncation; kept to state what the
    repair changed. -/
def proximityOld (one other : List Byte) : Nat :=
  let b := maxPO / 8 + 1
  let b := if b > one.length % 256 then one.length % 256 else b
  let b := if b > other.length % 256 then other.length % 256 else b
  (scan one other 0 b).getD maxPO

/-- `boson.DistanceRaw`: byte-wise XOR, error (`none`) on different lengths.
    (`for i, addr := range x { c[i] = addr ^ y[i] }` with `len(x) = len(y)`.) -/
def xorBytes : List Byte → List Byte → List Byte
  | a :: x, b :: y => (a ^^^ b) :: xorBytes x y
  | _, _ => []

def distanceRaw (x y : List Byte) : Option (List Byte) :=
  if x.length ≠ y.length then none else some (xorBytes x y)

/-- `big.Int.SetBytes`: big-endian value. -/
def beNat (bs : List Byte) : Nat := bs.foldl (fun acc b => acc * 256 + b.toNat) 0

/-- `boson.Distance` -/
def distance (x y : List Byte) : Option Nat := (distanceRaw x y).map beNat

/-- loop of `boson.DistanceCmp` (`for i := range a`), all three slices of one length. -/
def distanceCmpLoop : List Byte → List Byte → List Byte → Int
  | a :: as, x :: xs, y :: ys =>
    let dx := x ^^^ a
    let dy := y ^^^ a
    if dx = dy then distanceCmpLoop as xs ys
    else if dx < dy then 1
    else -1
  | _, _, _ => 0

/-- `boson.DistanceCmp(a, x, y)` -/
def distanceCmp (a x y : List Byte) : Option Int :=
  if a.length ≠ x.length ∨ a.length ≠ y.length then none else some (distanceCmpLoop a x y)

/-- `Address.Closer`: `a.Closer(x, y) = (DistanceCmp(x, a, y) == 1)` — "a is closer to x than y is". -/
def closer (a x y : List Byte) : Option Bool := (distanceCmp x a y).map (· == 1)

end Aurora.Proximity
