/-! Line-protocol utilities shared by all model drivers (core Lean only). -/
namespace Driver

def hexDigit (c : Char) : Option Nat :=
  if '0' ≤ c ∧ c ≤ '9' then some (c.toNat - '0'.toNat)
  else if 'a' ≤ c ∧ c ≤ 'f' then some (c.toNat - 'a'.toNat + 10)
  else if 'A' ≤ c ∧ c ≤ 'F' then some (c.toNat - 'A'.toNat + 10)
  else none

/-- decode a hex string ("-" = empty) into bytes -/
def hexToBytes (s : String) : Option (List UInt8) :=
  if s = "-" then some [] else
  let rec go : List Char → List UInt8 → Option (List UInt8)
    | [], acc => some acc.reverse
    | [_], _ => none
    | a :: b :: rest, acc =>
      match hexDigit a, hexDigit b with
      | some x, some y => go rest (UInt8.ofNat (x * 16 + y) :: acc)
      | _, _ => none
  go s.toList []

def nibble (n : Nat) : Char :=
  if n < 10 then Char.ofNat ('0'.toNat + n) else Char.ofNat ('a'.toNat + n - 10)

def bytesToHex (bs : List UInt8) : String :=
  if bs.isEmpty then "-" else
  String.ofList (bs.foldr (fun b acc => nibble (b.toNat / 16) :: nibble (b.toNat % 16) :: acc) [])

def byteArrayToHex (bs : ByteArray) : String := bytesToHex bs.toList

def hexToByteArray (s : String) : Option ByteArray := (hexToBytes s).map (fun l => ⟨l.toArray⟩)

def parseInt (s : String) : Option Int := s.toInt?
def parseNat (s : String) : Option Nat := s.toNat?

def boolStr (b : Bool) : String := if b then "1" else "0"

def words (line : String) : List String :=
  (line.splitOn " ").filter (· ≠ "")

/-- A model driver: per-case state, one output line per op line. -/
structure Handler where
  σ : Type
  init : σ
  step : σ → List String → σ × String

partial def runHandler (h : Handler) : IO Unit := do
  let stdin ← IO.getStdin
  let stdout ← IO.getStdout
  let rec loop (st : h.σ) : IO Unit := do
    let line ← stdin.getLine
    if line.isEmpty then return ()
    let line := String.ofList (line.toList.filter (fun c => c != (Char.ofNat 10) && c != (Char.ofNat 13)))
    if line.startsWith "#case" then
      stdout.putStrLn line
      loop h.init
    else if line.isEmpty then
      loop st
    else
      let (st', out) := h.step st (words line)
      stdout.putStrLn out
      loop st'
  loop h.init
  stdout.flush

end Driver

namespace Driver

/-- splitmix64 step (same constants as harness/core.Rand) -/
def smNext (s : UInt64) : UInt64 × UInt64 :=
  let s := s + 0x9E3779B97F4A7C15
  let z := s
  let z := (z ^^^ (z >>> 30)) * 0xBF58476D1CE4E5B9
  let z := (z ^^^ (z >>> 27)) * 0x94D049BB133111EB
  (s, z ^^^ (z >>> 31))

/-- deterministic content generator shared with the Go side (`core.GenBytes`): byte `i` is the low
    byte of the `i`-th splitmix64 output of a state seeded with `seed*0x9E3779B97F4A7C15 + 0x1234567`;
    when `period > 0` the content repeats with that period. -/
def genBytes (seed : Nat) (n : Nat) (period : Nat := 0) : List UInt8 := Id.run do
  let m := if period = 0 then n else min n period
  let mut s : UInt64 := UInt64.ofNat seed * 0x9E3779B97F4A7C15 + 0x1234567
  let mut base : Array UInt8 := Array.mkEmpty m
  for _ in [0:m] do
    let (s', z) := smNext s
    s := s'
    base := base.push z.toUInt8
  if m = n then return base.toList
  let mut out : Array UInt8 := Array.mkEmpty n
  for i in [0:n] do
    out := out.push base[i % m]!
  return out.toList

end Driver

namespace Driver

/-- data source token: `h:<hex>` | `g:<seed>:<n>` | `p:<seed>:<n>:<period>` -/
def parseSrc (s : String) : Option (List UInt8) :=
  match s.splitOn ":" with
  | ["h", hx] => hexToBytes hx
  | ["g", seed, n] => do let a ← seed.toNat?; let b ← n.toNat?; pure (genBytes a b)
  | ["p", seed, n, per] => do let a ← seed.toNat?; let b ← n.toNat?; let c ← per.toNat?; pure (genBytes a b c)
  | _ => none

end Driver
