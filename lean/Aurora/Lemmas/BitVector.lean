import Aurora.Model.BitVector
/-! Helper lemmas for Props/C39 (core Lean only). -/
namespace Aurora.BitVector

theorem bit_xor_one (x : Byte) (k j : Nat) (hk : k < 8) :
    bit (x ^^^ (1#8 <<< k)) j = (if j = k then !bit x j else bit x j) := by
  unfold bit
  by_cases hj : j < 8
  · simp [hj]
    by_cases h : j = k
    · subst h; simp
    · simp [h]
      by_cases h2 : j < k
      · simp [h2]
      · have : j - k ≠ 0 := by omega
        simp [this]
  · have : x.getLsbD j = false := BitVec.getLsbD_of_ge _ _ (by omega)
    have h2 : (x ^^^ (1#8 <<< k)).getLsbD j = false := BitVec.getLsbD_of_ge _ _ (by omega)
    simp [this, h2]; omega

@[simp] theorem set_len (bv : BV) (i : Nat) (v : Bool) : (set bv i v).len = bv.len := by
  unfold set; split <;> rfl

@[simp] theorem set_blen (bv : BV) (i : Nat) (v : Bool) : (set bv i v).b.length = bv.b.length := by
  unfold set; split <;> simp

theorem get_set (bv : BV) (i j : Nat) (v : Bool) (hi : i / 8 < bv.b.length) :
    get (set bv i v) j = if j = i then v else get bv j := by
  unfold set
  by_cases hne : (get bv i != v) = true
  · simp only [hne, if_true]
    unfold get
    simp only
    by_cases hb : j / 8 = i / 8
    · rw [hb]
      have : (bv.b.set (i / 8) (bv.b[i / 8]?.getD 0#8 ^^^ 1#8 <<< (i % 8)))[i / 8]?.getD 0#8
          = bv.b[i / 8]?.getD 0#8 ^^^ 1#8 <<< (i % 8) := by
        simp [List.getD_eq_getElem?_getD, List.getElem?_set, hi]
      rw [this, bit_xor_one _ _ _ (Nat.mod_lt _ (by decide))]
      by_cases hm : j % 8 = i % 8
      · have hji : j = i := by omega
        subst hji
        simp only [if_true]
        have : get bv j = bit (bv.b[j / 8]?.getD 0#8) (j % 8) := rfl
        rw [this] at hne
        revert hne; cases bit (bv.b[j / 8]?.getD 0#8) (j % 8) <;> cases v <;> simp
      · have hji : j ≠ i := by omega
        simp [hm, hji]
    · have hji : j ≠ i := by intro h; subst h; exact hb rfl
      have : (bv.b.set (i / 8) (bv.b[i / 8]?.getD 0#8 ^^^ 1#8 <<< (i % 8)))[j / 8]?.getD 0#8
          = bv.b[j / 8]?.getD 0#8 := by
        simp [List.getD_eq_getElem?_getD, List.getElem?_set, Ne.symm hb]
      simp [this, hji]
  · simp only [hne]
    by_cases hji : j = i
    · subst hji
      simp at hne
      simp [hne]
    · simp [hji]

/-- general invariant of the mask loop over any prefix of indices -/
theorem maskFold_get (v : Bool) (bs : List Byte) (n : Nat) (bv : BV) (hn : n ≤ bv.b.length * 8) (j : Nat) :
    let r := (List.range n).foldl
      (fun acc i => if bit (bs[i / 8]?.getD 0#8) (i % 8) then set acc i v else acc) bv
    r.len = bv.len ∧ r.b.length = bv.b.length ∧
    get r j = if j < n ∧ bit (bs[j / 8]?.getD 0#8) (j % 8) then v else get bv j := by
  induction n with
  | zero => simp
  | succ n ih =>
    have ih' := ih (by omega)
    simp only [List.range_succ, List.foldl_append, List.foldl_cons, List.foldl_nil]
    obtain ⟨h1, h2, h3⟩ := ih'
    by_cases hb : bit (bs[n / 8]?.getD 0#8) (n % 8) = true
    · simp only [hb, if_true]
      refine ⟨by simp [h1], by simp [h2], ?_⟩
      rw [get_set _ _ _ _ (by rw [h2]; omega)]
      by_cases hjn : j = n
      · subst hjn; simp [hb]
      · simp only [hjn, if_false, h3]
        by_cases hlt : j < n
        · have : j < n + 1 := by omega
          simp [hlt, this]
        · have : ¬ j < n + 1 := by omega
          simp [hlt, this]
    · simp only [hb]
      refine ⟨h1, h2, ?_⟩
      simp only [Bool.false_eq_true, if_false, h3]
      by_cases hjn : j = n
      · subst hjn; simp [hb]
      · have : (j < n + 1) = (j < n) := by apply propext; omega
        simp [this]

theorem lowBitsSet_iff (x : Byte) (n : Nat) (hn : n ≤ 8) :
    lowBitsSet x n = true ↔ ∀ k, k < n → bit x k = true := by
  induction n with
  | zero => simp [lowBitsSet]
  | succ n ih =>
    have hm : n % 8 = n := Nat.mod_eq_of_lt (by omega)
    simp only [lowBitsSet, hm]
    by_cases hb : bit x n = true
    · simp only [hb, if_true, ih (by omega)]
      constructor
      · intro h k hk
        by_cases hkn : k = n
        · subst hkn; exact hb
        · exact h k (by omega)
      · intro h k hk; exact h k (by omega)
    · simp only [hb]
      constructor
      · intro h; cases h
      · intro h; exact absurd (h n (by omega)) hb

theorem byte_ff_iff (x : Byte) : x = 0xff#8 ↔ ∀ k, k < 8 → bit x k = true := by
  unfold bit
  constructor
  · intro h k hk; subst h
    have : k = 0 ∨ k = 1 ∨ k = 2 ∨ k = 3 ∨ k = 4 ∨ k = 5 ∨ k = 6 ∨ k = 7 := by omega
    rcases this with h | h | h | h | h | h | h | h <;> subst h <;> decide
  · intro h
    apply BitVec.eq_of_getLsbD_eq
    intro i hi
    rw [h i hi]
    have : i = 0 ∨ i = 1 ∨ i = 2 ∨ i = 3 ∨ i = 4 ∨ i = 5 ∨ i = 6 ∨ i = 7 := by omega
    rcases this with h | h | h | h | h | h | h | h <;> subst h <;> decide

end Aurora.BitVector

namespace Aurora.BitVector

/-- the per-byte condition `Equals` tests at byte index `k` -/
def byteOk (rem l : Nat) (b : List Byte) (k : Nat) : Prop :=
  if rem ≠ 0 ∧ k = l - 1 then lowBitsSet (b[k]?.getD 0#8) rem = true else b[k]?.getD 0#8 = 0xff#8

theorem equalsLoop_iff (rem l : Nat) (b : List Byte) (fuel i : Nat) (h : i + fuel = l) :
    equalsLoop rem l b i fuel = true ↔ ∀ k, i ≤ k → k < l → byteOk rem l b k := by
  induction fuel generalizing i with
  | zero =>
    simp only [equalsLoop, true_iff]
    intro k h1 h2; omega
  | succ fuel ih =>
    have ih' := ih (i + 1) (by omega)
    unfold equalsLoop
    by_cases hc : rem ≠ 0 ∧ i = l - 1
    · rw [if_pos hc]
      have hil : i = l - 1 := hc.2
      by_cases hl : lowBitsSet (b[i]?.getD 0#8) rem = true
      · rw [if_pos hl, ih']
        constructor
        · intro hh k h1 h2
          by_cases hk : k = i
          · subst hk; unfold byteOk; rw [if_pos hc]; exact hl
          · exact hh k (by omega) h2
        · intro hh k h1 h2; exact hh k (by omega) h2
      · rw [if_neg hl]
        constructor
        · intro hh; cases hh
        · intro hh
          have := hh i (by omega) (by omega)
          unfold byteOk at this; rw [if_pos hc] at this; exact absurd this hl
    · rw [if_neg hc]
      by_cases hf : b[i]?.getD 0#8 = 0xff#8
      · rw [if_pos hf, ih']
        constructor
        · intro hh k h1 h2
          by_cases hk : k = i
          · subst hk; unfold byteOk; rw [if_neg hc]; exact hf
          · exact hh k (by omega) h2
        · intro hh k h1 h2; exact hh k (by omega) h2
      · rw [if_neg hf]
        constructor
        · intro hh; cases hh
        · intro hh
          have := hh i (by omega) (by omega)
          unfold byteOk at this; rw [if_neg hc] at this; exact absurd this hf

theorem get_mul_add (bv : BV) (k j : Nat) (hj : j < 8) :
    get bv (8 * k + j) = bit (bv.b[k]?.getD 0#8) j := by
  unfold get
  have h1 : (8 * k + j) / 8 = k := by omega
  have h2 : (8 * k + j) % 8 = j := by omega
  rw [h1, h2]

end Aurora.BitVector
