import Aurora.Generated.Consts
/-!
Model of `/repo/pkg/hive2/hive2.go:onFindNode` (after the `fix:` of the limit split), with
`boson.Proximity` and `inArray`.  Hand translation, tied by the C29 correspondence run.

* `St.conn` / `St.known` are the iteration orders of `Kad.EachPeer` / `Kad.EachKnownPeer`
  (observed by the runner), `St.book` the address book as an association list (first match wins).
  A record carries the overlay stored in it and the two `manet` classifications of its underlay.
* The closure `addrFunc` with its captured, growing `skip` slice is `scan` (it returns the final
  `skip` as well, because the second iteration continues with it).
* `randPeersLimit` is an oracle choice: when there are more candidates than the limit the code
  shuffles and takes a prefix; the model takes the chosen candidate *indices* (`pick`), admissible
  iff they are distinct, in range and exactly `limit` many (`AdmChoice`).
-/
namespace Aurora.Hive

abbrev Addr := List UInt8

structure Rec where
  overlay : Addr
  /-- `manet.IsPublicAddr(underlay)` -/
  pub : Bool
  /-- `manet.IsPrivateAddr(underlay)` -/
  priv : Bool
deriving DecidableEq, Repr

structure St where
  conn : List Addr
  known : List Addr
  book : List (Addr × Rec)
  allowPrivate : Bool

structure Req where
  requester : Addr
  limit : Int
  target : Addr
  pos : List Int

def maxPeersLimit : Int := 30

/-- number of leading zero bits of a non-zero byte (first set bit from the MSB) -/
def lead (z : UInt8) : Nat :=
  if z ≥ 128 then 0 else if z ≥ 64 then 1 else if z ≥ 32 then 2 else if z ≥ 16 then 3
  else if z ≥ 8 then 4 else if z ≥ 4 then 5 else if z ≥ 2 then 6 else 7

def proxLoop : List UInt8 → List UInt8 → Nat → Nat
  | x :: xs, y :: ys, i => if x = y then proxLoop xs ys (i + 1) else i * 8 + lead (x ^^^ y)
  | _, _, _ => Aurora.Generated.maxPO

/-- `boson.Proximity(one, other)`; the byte bound is `min(MaxPO/8+1, uint8(len one), uint8(len other))` -/
def proximity (one other : Addr) : Nat :=
  let b := min (Aurora.Generated.maxPO / 8 + 1) (min (one.length % 256) (other.length % 256))
  proxLoop (one.take b) (other.take b) 0

/-- Go `uint8(v)` for an `int32` -/
def toU8 (v : Int) : Nat := (v % 256).toNat

/-- `inArray(bin, pos)` -/
def inArray (bin : Nat) (pos : List Int) : Bool := pos.any (fun v => bin == toU8 v)

/-- the requester's own address-book record says it has a public underlay -/
def peerPublic (st : St) (requester : Addr) : Bool :=
  match st.book.lookup requester with
  | some r => r.pub
  | none => false

/-- one run of `EachPeer(addrFunc)` / `EachKnownPeer(addrFunc)`: returns the final `skip` and
    the collected `resp.Peers` -/
def scan (st : St) (req : Req) (pp : Bool) : List Addr → List Addr → List Rec → List Addr × List Rec
  | [], skip, out => (skip, out)
  | a :: rest, skip, out =>
    if skip.contains a then scan st req pp rest skip out
    else if inArray (proximity req.target a) req.pos then
      match st.book.lookup a with
      | none => scan st req pp rest skip out
      | some p =>
        if !st.allowPrivate && pp && p.priv then scan st req pp rest (skip ++ [p.overlay]) out
        else scan st req pp rest skip (out ++ [p])
    else scan st req pp rest skip out

def clamp (l : Int) : Int := if l > maxPeersLimit then maxPeersLimit else l

/-- `(limitConn, limitKnown)` for the clamped limit (repaired: a limit below 2 no longer yields 1+1) -/
def limits (l : Int) : Nat × Nat :=
  if l > 2 then ((l - l / 2).toNat, (l / 2).toNat)
  else if l < 2 then (if l < 1 then (0, 0) else (1, 0))
  else (1, 1)

/-- the pre-repair split: `limitConn = limitKnown = 1` unless `Limit > 2` -/
def limitsOld (l : Int) : Nat × Nat :=
  if l > 2 then ((l - l / 2).toNat, (l / 2).toNat) else (1, 1)

/-- `randPeersLimit(peers, limit)` with the random choice given as candidate indices -/
def pick (cands : List Rec) (limit : Nat) (choice : List Nat) : List Rec :=
  if cands.length > limit then choice.filterMap (fun i => cands[i]?) else cands

/-- admissible outcome of shuffle-then-prefix -/
def AdmChoice (cands : List Rec) (limit : Nat) (choice : List Nat) : Prop :=
  cands.length > limit → choice.length = limit ∧ choice.Nodup ∧ ∀ i ∈ choice, i < cands.length

instance (cands : List Rec) (limit : Nat) (choice : List Nat) : Decidable (AdmChoice cands limit choice) := by
  unfold AdmChoice; infer_instance

structure Out where
  connCands : List Rec
  connRes : List Rec
  knownCands : List Rec
  knownRes : List Rec

/-- `onFindNode` with a split function `lim` (so that the pre-repair variant can be stated) -/
def findNodeWith (lim : Int → Nat × Nat) (st : St) (req : Req) (c1 c2 : List Nat) : Out :=
  let l := lim (clamp req.limit)
  let pp := peerPublic st req.requester
  let s1 := scan st req pp st.conn [req.requester] []
  let r1 := pick s1.2 l.1 c1
  let skip2 := s1.1 ++ r1.map (·.overlay)
  let s2 := scan st req pp st.known skip2 []
  let r2 := pick s2.2 l.2 c2
  { connCands := s1.2, connRes := r1, knownCands := s2.2, knownRes := r2 }

def findNode := findNodeWith limits

/-- the reply written to the stream -/
def reply (st : St) (req : Req) (c1 c2 : List Nat) : List Rec :=
  let o := findNode st req c1 c2
  o.connRes ++ o.knownRes

def replyOld (st : St) (req : Req) (c1 c2 : List Nat) : List Rec :=
  let o := findNodeWith limitsOld st req c1 c2
  o.connRes ++ o.knownRes

/-- both random choices are admissible -/
def Adm (st : St) (req : Req) (c1 c2 : List Nat) : Prop :=
  let l := limits (clamp req.limit)
  let o := findNode st req c1 c2
  AdmChoice o.connCands l.1 c1 ∧ AdmChoice o.knownCands l.2 c2

end Aurora.Hive
