import Aurora.Generated.Consts
/-!
# Neighbourhood depth (property C22) — executable model of `recalcDepth`

Transcription of `pkg/topology/kademlia/kademlia.go:recalcDepth` (after the `fix:` commit that
makes the scan stop at a bin without reachable peers) and of the threshold derivation in
`kademlia.New`.  Core Lean only.

The peer set is seen through `bins : List (List Bool)`: entry `b` is bin `b` of the `PSlice`
(`pslice.go`), each element is one peer *in slice order*, the flag says whether the peer is
reachable (`!filter(addr)`).  Both iterations of the Go code (`EachBinRev` with an early
`stop`, `EachBin` with an early `stop`) are transcribed element by element; a raised `stop`
is a sticky flag that turns the remaining callbacks into no-ops.
-/
namespace Aurora.Topo

/-- the package-level thresholds of `kademlia.go` -/
structure Params where
  nnLow : Nat      -- nnLowWatermark
  quick : Nat      -- quickSaturationPeers
  sat : Nat        -- saturationPeers
  over : Nat       -- overSaturationPeers
  bootOver : Nat   -- bootNodeOverSaturationPeers
deriving Repr, DecidableEq

/-- the initialisers in the source, regenerated from /repo on every run -/
def Params.default : Params :=
  { nnLow := Aurora.Generated.nnLowWatermark
    quick := Aurora.Generated.quickSaturationPeers
    sat := Aurora.Generated.saturationPeers
    over := Aurora.Generated.overSaturationPeers
    bootOver := Aurora.Generated.bootNodeOverSaturationPeers }

/-- `kademlia.New`: `Options.BinMaxPeers > 0` re-derives over / saturation / quick. -/
def Params.withBinMax (p : Params) (binMax : Nat) : Params :=
  if binMax > 0 then
    let bm := if binMax < 5 then 5 else binMax
    let over := if bm % 5 == 0 then bm else bm - bm % 5 + 5
    { p with over := over, sat := over / 5 * 2, quick := over / 5 }
  else p

/-- `os` in `kademlia.New`: the oversaturation amount handed to `binSaturated` -/
def Params.osFor (p : Params) (bootMode : Bool) : Nat :=
  if bootMode && p.over < p.bootOver then p.bootOver else p.over

abbrev Bins := List (List Bool)

/-- `PSlice.Length` -/
def binsLength (bins : Bins) : Nat := (bins.map List.length).sum

/-- `PSlice.ShallowestEmpty`: `(bin, noEmptyBins)` -/
def shallowestEmptyGo : Nat → Bins → Nat × Bool
  | _, [] => (0, true)
  | i, b :: rest => if b.isEmpty then (i, false) else shallowestEmptyGo (i + 1) rest

def shallowestEmpty (bins : Bins) : Nat × Bool := shallowestEmptyGo 0 bins

/-- state of the first closure of `recalcDepth` -/
structure Scan where
  su : Nat          -- shallowestUnsaturated
  cnt : Nat         -- binCount
  stopped : Bool
deriving Repr, DecidableEq

/-- one callback of the `EachBinRev` closure for a peer in bin `bin` -/
def scanStep (q : Nat) (bin : Nat) (s : Scan) (reachable : Bool) : Scan :=
  if s.stopped then s
  else if !reachable then s                                  -- if filter(addr) { return }
  else if bin == s.su then { s with cnt := s.cnt + 1 }
  else if bin > s.su && s.cnt < q then { s with stopped := true }
  else if bin > s.su + 1 then { su := s.su + 1, cnt := 0, stopped := true }   -- the fix: gap
  else { su := bin, cnt := 1, stopped := false }

def scanBin (q : Nat) (bin : Nat) (s : Scan) (peers : List Bool) : Scan :=
  peers.foldl (scanStep q bin) s

/-- `EachBinRev`: bins ascending, peers in slice order -/
def scanGo (q : Nat) : Nat → Bins → Scan → Scan
  | _, [], s => s
  | i, b :: rest, s => scanGo q (i + 1) rest (scanBin q i s b)

def scanAll (q : Nat) (bins : Bins) : Scan := scanGo q 0 bins ⟨0, 0, false⟩

/-- state of the second closure (`peersCtr`, `candidate`) -/
structure Cand where
  ctr : Nat
  cand : Nat
  stopped : Bool
deriving Repr, DecidableEq

def candStep (nn : Nat) (bin : Nat) (s : Cand) (reachable : Bool) : Cand :=
  if s.stopped then s
  else if !reachable then s
  else if s.ctr + 1 ≥ nn then { ctr := s.ctr + 1, cand := bin, stopped := true }
  else { s with ctr := s.ctr + 1 }

def candBin (nn : Nat) (bin : Nat) (s : Cand) (peers : List Bool) : Cand :=
  peers.foldl (candStep nn bin) s

/-- `EachBin`: bins descending (`for i := maxBins-1; i >= 0; i--`): the deeper bins `rest` are
processed first, then bin `i`. -/
def candGo (nn : Nat) : Nat → Bins → Cand
  | _, [] => ⟨0, 0, false⟩
  | i, b :: rest => candBin nn i (candGo nn (i + 1) rest) b

def candAll (nn : Nat) (bins : Bins) : Cand := candGo nn 0 bins

/-- `if radius < x { return radius }; return x` -/
def capRadius (radius x : Nat) : Nat := if radius < x then radius else x

/-- `shallowestUnsaturated` after the `ShallowestEmpty` correction -/
def suOf (q : Nat) (bins : Bins) : Nat :=
  let se := shallowestEmpty bins
  let su0 := (scanAll q bins).su
  if !se.2 && se.1 < su0 then se.1 else su0

/-- `candidate` -/
def candOf (nn : Nat) (bins : Bins) : Nat := (candAll nn bins).cand

/-- `recalcDepth(peers, radius, filter)` -/
def recalcDepth (p : Params) (bins : Bins) (radius : Nat) : Nat :=
  if binsLength bins ≤ p.nnLow then 0
  else if suOf p.quick bins > candOf p.nnLow bins then capRadius radius (candOf p.nnLow bins)
  else capRadius radius (suOf p.quick bins)

/-- number of reachable peers in bin `b` -/
def reachIn (bins : Bins) (b : Nat) : Nat := (bins.getD b []).count true

/-- number of reachable peers in bins `≥ d` -/
def reachFrom (bins : Bins) (d : Nat) : Nat := ((bins.drop d).map (List.count true)).sum

end Aurora.Topo
