// Package c11: correspondence + model-free oracle for property C11
// (local store returns exactly what was stored).
package c11

import (
	"bytes"
	"fmt"

	"verifharness/core"
	"verifharness/lsharness"
)

type prop struct{}

func init() { core.Register(prop{}) }

func (prop) ID() string { return "C11" }
func (prop) Rule() string {
	return "histories of 6-40 ops over an 8-address universe (bins 0,0,0,1,1,2,3,7) and 4 roots, garbage collection out of reach (capacity 10^6): " +
		"put in all four modes (single and batched 2-4 chunks, 25 % of batches with a duplicate address, with/without root context, root chunk usually stored first), " +
		"get/getm in all modes, has/hasm, set remove/pin/unpin (single and batched, distinct addresses), clock changes (also an advancing clock), reopen; " +
		"addresses 60 % present / 25 % absent; a malformed stream (invalid modes, unparsable lines) in 1/5 of the cases; fixed regression cases first. " +
		"After every op the result and the full dump of the five indexes + gcSize are compared with the Lean model. " +
		"Non-trivial: >=1 successful put, >=1 lookup of a present chunk and >=1 set; distinct by op-list hash."
}

var fixed = []core.Case{
	// batched request put under a root context: GCounter counts 1 (same clock) although 3 chunks were cached
	{ID: "fix-batch-req-root", NT: true, Ops: []string{"put req 80 80:aa", "put req 80 81:bb,c0:cc", "has chunk c0", "get lookup - 81"}},
	// the same with an advancing clock: two gc entries for one root
	{ID: "fix-batch-req-root-clock", NT: true, Ops: []string{"now 10 1", "put req 80 80:aa,81:bb", "put req 40 40:01,41:02,20:03"}},
	// root chunk new in the same call: the whole batch fails, one at a time succeeds
	{ID: "fix-batch-root-in-call", NT: true, Ops: []string{"put req 80 80:aa,81:bb", "has chunk 80", "put req 80 80:aa", "put req 80 81:bb", "hasm chunk 80,81"}},
	// duplicate chunk in a pinning batch pins once; one at a time pins twice
	{ID: "fix-batch-dup-pin", NT: true, Ops: []string{"put uppin - 80:aa,80:aa", "put uppin - 81:bb", "put uppin - 81:bb", "hasm pin 80,81", "set remove - 80", "has chunk 80", "set remove - 81", "has chunk 81"}},
	// first put wins, removal honours pin counters
	{ID: "fix-first-put-wins", NT: true, Ops: []string{"put up - 80:aa", "put up - 80:bb", "get lookup - 80", "set pin - 80", "set pin - 80", "set remove - 80", "has chunk 80", "set remove - 80", "has chunk 80", "get sync - 80"}},
	{ID: "fix-get-pin-empty", NT: true, Ops: []string{"put uppin - 80:aabb", "get pin - 80", "getm pin 80", "get pin - 81", "set unpin - 80", "get pin - 80"}},
	{ID: "fix-modes", NT: false, Ops: []string{"put bad - 80:aa", "put up - 80:aa", "put bad - 80:aa", "get bad - 80", "has bad 80", "hasm bad 80,81", "set bad - 80", "put req - -", "set pin - -", "getm lookup -"}},
}

func (prop) Gen(r *core.Rand, tier string) []core.Case {
	n := 500
	if tier == "thorough" {
		n = 12000
	}
	cs := append([]core.Case(nil), fixed...)
	for i := 0; i < n; i++ {
		cfg := lsharness.GenConfig{MinOps: 6, MaxOps: 40, Reopen: true, ClockStep: true, Batches: 45, BadModes: i%5 == 0}
		ops := lsharness.GenHistory(r.Fork(), cfg)
		cs = append(cs, core.Case{ID: fmt.Sprintf("g%d", i), NT: nontrivial(ops), Ops: ops})
	}
	return cs
}

func nontrivial(ops []string) bool {
	put, look, set := 0, 0, 0
	for _, o := range ops {
		switch {
		case len(o) > 4 && o[:4] == "put " && o[4:7] != "bad":
			put++
		case len(o) > 4 && (o[:4] == "get " || o[:4] == "has " || o[:5] == "getm " || o[:5] == "hasm "):
			look++
		case len(o) > 4 && o[:4] == "set ":
			set++
		}
	}
	return put > 0 && look > 0 && set > 0
}

// ---- model-free oracle ---------------------------------------------------------------------

// entry of the reference chunk set: bytes of the first put and the pin count.
type entry struct {
	data []byte
	pin  uint64
}

type oracle struct {
	ref map[string]*entry
}

func (prop) New() core.Runner {
	o := &oracle{ref: map[string]*entry{}}
	return lsharness.NewRunner(lsharness.Options{Oracles: []lsharness.Oracle{o}})
}

func hasDup(addrs [][]byte) bool {
	for i := range addrs {
		for j := 0; j < i; j++ {
			if bytes.Equal(addrs[i], addrs[j]) {
				return true
			}
		}
	}
	return false
}

func (o *oracle) Check(ctx *core.Ctx, ev *lsharness.Event) {
	switch ev.Kind {
	case "put":
		o.checkPut(ctx, ev)
	case "set":
		o.applySet(ev)
	case "get":
		o.checkGet(ctx, ev, ev.Addrs[0], ev.Mode, ev.Err, ev.Chunks)
	case "getm":
		o.checkGetMulti(ctx, ev)
	case "has", "hasm":
		if ev.Err == "" {
			for i, a := range ev.Addrs {
				e := o.ref[string(a)]
				want := e != nil
				if ev.Mode == "pin" {
					want = e != nil && e.pin > 0
				}
				if ev.Bools[i] != want {
					ctx.Fail("present-iff-has", "%s %s %s = %v, reference says %v", ev.Kind, ev.Mode, lsharness.ShowAddr(a), ev.Bools[i], want)
				}
			}
		}
	}
	// present_iff on the whole universe after every op, through the public API
	o.checkUniverse(ctx, ev)
}

// checkUniverse: Has(chunk) <-> in reference; Get(lookup) returns the bytes of the first put; pin counts.
func (o *oracle) checkUniverse(ctx *core.Ctx, ev *lsharness.Event) {
	for _, h := range lsharness.Universe {
		a, _ := lsharness.ParseAddr(h)
		e := o.ref[string(a)]
		d, ok := ev.After.DataOf(a)
		if ok != (e != nil) {
			ctx.Fail("present-iff", "after `%s`: chunk %s stored=%v, reference (put and not removed since)=%v", ev.Kind, h, ok, e != nil)
			continue
		}
		if e != nil && !bytes.Equal(d.Data, e.data) {
			ctx.Fail("exact-bytes", "chunk %s holds %x, first put was %x", h, d.Data, e.data)
		}
		var want uint64
		if e != nil {
			want = e.pin
		}
		if got := ev.After.PinOf(a); got != want {
			ctx.Fail("pin-count", "after `%s %s`: pin count of %s is %d, reference %d", ev.Kind, ev.Mode, h, got, want)
		}
	}
}

func (o *oracle) checkGet(ctx *core.Ctx, ev *lsharness.Event, a []byte, mode, errw string, chunks [][]byte) {
	e := o.ref[string(a)]
	if mode == "bad" {
		return
	}
	switch {
	case e == nil:
		if errw != "notfound" {
			ctx.Fail("get-absent", "get %s of an absent chunk %s answered %q", mode, lsharness.ShowAddr(a), ev.Result)
		}
	case mode == "pin":
		if (e.pin > 0) != (errw == "") {
			ctx.Fail("get-pin", "get pin %s: pin count %d but result %q", lsharness.ShowAddr(a), e.pin, ev.Result)
		}
	default:
		if errw != "" || len(chunks) != 1 || !bytes.Equal(chunks[0], e.data) {
			ctx.Fail("get-exact-bytes", "get %s %s returned %q, first put was %x", mode, lsharness.ShowAddr(a), ev.Result, e.data)
		}
	}
}

func (o *oracle) checkGetMulti(ctx *core.Ctx, ev *lsharness.Event) {
	if ev.Mode == "bad" {
		return
	}
	all := true
	for _, a := range ev.Addrs {
		e := o.ref[string(a)]
		if e == nil || (ev.Mode == "pin" && e.pin == 0) {
			all = false
		}
	}
	if all != (ev.Err == "") {
		ctx.Fail("getm-present", "getm %s: all present=%v but result %q", ev.Mode, all, ev.Result)
		return
	}
	if all {
		for i, a := range ev.Addrs {
			if !bytes.Equal(ev.Chunks[i], o.ref[string(a)].data) {
				ctx.Fail("getm-exact-bytes", "getm %s returned %x for %s, first put was %x", ev.Mode, ev.Chunks[i], lsharness.ShowAddr(a), o.ref[string(a)].data)
			}
		}
	}
}

// applySet: the reference semantics of Set (all or nothing on error).
func (o *oracle) applySet(ev *lsharness.Event) {
	if ev.Err != "" || hasDup(ev.Addrs) {
		if hasDup(ev.Addrs) {
			o.resync(ev) // outside the property statement: duplicates inside one Set call
		}
		return
	}
	for _, a := range ev.Addrs {
		e := o.ref[string(a)]
		switch ev.Mode {
		case "remove":
			if e == nil {
				continue
			}
			if e.pin > 1 {
				e.pin--
			} else {
				delete(o.ref, string(a))
			}
		case "pin":
			if e != nil {
				e.pin++
			}
		case "unpin":
			if e != nil && e.pin > 0 {
				e.pin--
			}
		}
	}
}

func (o *oracle) resync(ev *lsharness.Event) {
	o.ref = map[string]*entry{}
	for _, d := range ev.After.Data {
		o.ref[string(d.Address)] = &entry{data: d.Data, pin: ev.After.PinOf(d.Address)}
	}
}

// checkPut: exist flags, reference update, and batch-vs-sequential through a shadow store.
func (o *oracle) checkPut(ctx *core.Ctx, ev *lsharness.Event) {
	if ev.Mode == "bad" {
		return
	}
	pinMode := ev.Mode == "uppin" || ev.Mode == "reqpin"
	if ev.Err == "" {
		// exist_flag_exact
		for i, a := range ev.Addrs {
			want := o.ref[string(a)] != nil
			for j := 0; j < i; j++ {
				if bytes.Equal(ev.Addrs[j], a) {
					want = true
				}
			}
			if i < len(ev.Exist) && ev.Exist[i] != want {
				ctx.Fail("exist-flag", "put %s: exist[%d]=%v for %s, present before or earlier in the call=%v", ev.Mode, i, ev.Exist[i], lsharness.ShowAddr(a), want)
			}
		}
		if len(ev.Exist) != len(ev.Addrs) {
			ctx.Fail("exist-flag-len", "put returned %d flags for %d chunks", len(ev.Exist), len(ev.Addrs))
		}
	}
	// batch == sequential (shadow store: the state before the call, the chunks put one at a time)
	if len(ev.Addrs) >= 2 {
		o.checkBatch(ctx, ev, pinMode)
	}
	// reference update: what the batched call should have done = one at a time
	if ev.Err == "" {
		for i, a := range ev.Addrs {
			dup := false
			for j := 0; j < i; j++ {
				if bytes.Equal(ev.Addrs[j], a) {
					dup = true
				}
			}
			e := o.ref[string(a)]
			if e == nil {
				e = &entry{data: ev.Datas[i]}
				o.ref[string(a)] = e
				if pinMode {
					e.pin++
				}
			} else if ev.Mode == "uppin" && !dup {
				e.pin++ // ModePutUploadPin pins an existing chunk again; ModePutRequestPin does not
			}
		}
	}
	if len(ev.Addrs) >= 2 && (ev.Err != "" || (pinMode && hasDup(ev.Addrs))) {
		o.resync(ev) // divergence already reported by checkBatch under its own clause
	}
}

type gcShape struct {
	root string
	cnt  uint64
}

func (o *oracle) checkBatch(ctx *core.Ctx, ev *lsharness.Event, pinMode bool) {
	rn := ev.Runner
	db, done, err := rn.OpenPrefix(ev.LogFrom)
	if err != nil {
		ctx.Fail("shadow-open", "%v", err)
		return
	}
	clockAfter, _ := rn.Clock()
	rn.SetClock(ev.ClockBefore)
	okSingles := 0
	for i := range ev.Addrs {
		_, e := lsharness.PutOn(db, ev.Mode, ev.Root, ev.Addrs[i:i+1], ev.Datas[i:i+1])
		if e == nil {
			okSingles++
		}
	}
	rn.SetClock(clockAfter)
	seq := lsharness.DumpOf(db)
	done()
	got := ev.After
	// abstract: Addr -> (bytes, pin count)
	abstractEq := len(seq.Data) == len(got.Data) && len(seq.Pin) == len(got.Pin)
	if abstractEq {
		for i := range seq.Data {
			if !bytes.Equal(seq.Data[i].Address, got.Data[i].Address) || !bytes.Equal(seq.Data[i].Data, got.Data[i].Data) {
				abstractEq = false
			}
		}
		for i := range seq.Pin {
			if !bytes.Equal(seq.Pin[i].Address, got.Pin[i].Address) || seq.Pin[i].PinCounter != got.Pin[i].PinCounter {
				abstractEq = false
			}
		}
	}
	if !abstractEq {
		switch {
		case ev.Err != "" && okSingles > 0:
			ctx.Fail("batch-aborts-where-sequential-stores", "put %s root=%s of %d chunks failed (%s) and stored nothing; one at a time %d of them are stored", ev.Mode, showRoot(ev.Root), len(ev.Addrs), ev.Err, okSingles)
		case pinMode && hasDup(ev.Addrs):
			ctx.Fail("batch-dup-pins-once", "put %s with a duplicated chunk pins it once; one at a time it is pinned per call", ev.Mode)
		default:
			ctx.Fail("batch-eq-sequential-abstract", "put %s of %d chunks: stored set / pin counts differ from one-at-a-time: batch %s vs sequential %s", ev.Mode, len(ev.Addrs), got.ShowDb(), seq.ShowDb())
		}
		return
	}
	// bookkeeping: gc entries (root, GCounter) in index order (timestamps abstracted to their order) + gcSize
	shape := func(d *lsharness.Dump) []gcShape {
		var l []gcShape
		for _, g := range d.GC {
			l = append(l, gcShape{lsharness.ShowAddr(g.Address), g.GCounter})
		}
		return l
	}
	if ev.Before.GCSize < ev.Before.GCSum() {
		return // opening the shadow store repaired gcSize upwards: its bookkeeping starts elsewhere
	}
	a, b := shape(got), shape(seq)
	same := len(a) == len(b) && got.GCSize == seq.GCSize && len(got.Access) == len(seq.Access)
	if same {
		for i := range a {
			if a[i] != b[i] {
				same = false
			}
		}
	}
	if !same {
		newChunks := 0
		for i, x := range ev.Exist {
			if !x && i < len(ev.Addrs) {
				newChunks++
			}
		}
		if ev.Mode == "req" && ev.Root != nil && newChunks >= 2 {
			ctx.Fail("batch-req-root-gcounter", "put req root=%s with %d new chunks in one call: gc bookkeeping %v gcSize=%d, one at a time %v gcSize=%d", showRoot(ev.Root), newChunks, a, got.GCSize, b, seq.GCSize)
		} else if ev.Mode == "reqpin" && ev.Root != nil {
			ctx.Fail("batch-reqpin-root-gcsize", "put reqpin root=%s of %d chunks: every setPin subtracts 1 from gcSize (the sum is skipped when it exceeds gcSize): gc bookkeeping %v gcSize=%d, one at a time %v gcSize=%d", showRoot(ev.Root), len(ev.Addrs), a, got.GCSize, b, seq.GCSize)
		} else {
			ctx.Fail("batch-eq-sequential-bookkeeping", "put %s root=%s: gc bookkeeping %v gcSize=%d, one at a time %v gcSize=%d", ev.Mode, showRoot(ev.Root), a, got.GCSize, b, seq.GCSize)
		}
	}
}

func showRoot(r []byte) string {
	if r == nil {
		return "-"
	}
	return lsharness.ShowAddr(r)
}
