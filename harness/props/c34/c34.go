// Package c34: correspondence + oracle for aurora.ParseAddress/NewAddress and its call sites
// handshake.parseCheckAck and routetab.saveUnderlay (property C34).
package c34

import (
	"bytes"
	"crypto/ecdsa"
	"encoding/binary"
	"fmt"
	"io"
	"math/big"
	"strconv"
	"sync"
	"sync/atomic"

	"github.com/btcsuite/btcd/btcec"
	"github.com/gauss-project/aurorafs/pkg/addressbook"
	"github.com/gauss-project/aurorafs/pkg/aurora"
	"github.com/gauss-project/aurorafs/pkg/boson"
	"github.com/gauss-project/aurorafs/pkg/crypto"
	"github.com/gauss-project/aurorafs/pkg/logging"
	"github.com/gauss-project/aurorafs/pkg/p2p/libp2p/verifexport"
	"github.com/gauss-project/aurorafs/pkg/routetab"
	rpb "github.com/gauss-project/aurorafs/pkg/routetab/pb"
	mockstate "github.com/gauss-project/aurorafs/pkg/statestore/mock"
	ma "github.com/multiformats/go-multiaddr"
	"github.com/sirupsen/logrus"

	"verifharness/core"
)

type prop struct{}

func init() { core.Register(prop{}) }

func (prop) ID() string { return "C34" }
func (prop) Rule() string {
	return "cases: 2-3 real secp256k1 keys; honest records from the real NewAddress (ip4/ip6/dns/p2p underlays, network ids 0,1,10,2^63,2^64-1); then every kind of single-field mutation " +
		"(bit flips in underlay / overlay / signature incl. the recovery byte, truncation, appended/prepended bytes, moving 1..8 bytes across the underlay/overlay boundary in both directions, ECDSA-malleated signature, " +
		"fields taken from another honest record, another network id) and a smaller stream of raw garbage records (empty fields, 64/66-byte signatures, unparsable underlays); " +
		"each record goes through ParseAddress, handshake.parseCheckAck (verif hook) and routetab.saveUnderlay (verif hook, then the address book is inspected); " +
		"save2 sends a mutant and an honest record in ONE two-entry list (both orders) through saveUnderlay and reports what the book holds under each overlay (model: saveUnderlay on the list, last write wins); par verifies two records concurrently (8 goroutines x 400) against the sequential verdicts. " +
		"Fixed cases first (own record, each single-field mutation, boundary move, malleated signature). Non-trivial: >=1 honest record and >=1 mutated record parsed; distinct by op-list hash."
}

var underlays = []string{"/ip4/8.8.8.8/tcp/1634", "/ip4/10.0.0.1/tcp/1634/p2p/QmcgpsyWgH8Y8ajJz1Cu72KnS5uo2Aa2LpzU7kinSupNKC", "/ip6/2001:db8::1/udp/7070", "/dns4/node.example.com/tcp/443", "/ip4/127.0.0.1/tcp/1"}
var nids = []string{"0", "1", "10", "9223372036854775808", "18446744073709551615"}

func (prop) Gen(r *core.Rand, tier string) []core.Case {
	n := 300
	if tier == "thorough" {
		n = 8000
	}
	var cs []core.Case
	three := func(slot int, nid string) []string {
		return []string{fmt.Sprintf("parse %d %s", slot, nid), fmt.Sprintf("ack %d %s", slot, nid), fmt.Sprintf("save %d %s", slot, nid)}
	}
	fixed := func(id string, ops ...string) {
		all := []string{"new 0 0 " + underlays[0] + " 10", "new 1 1 " + underlays[1] + " 10"}
		all = append(all, three(0, "10")...)
		all = append(all, ops...)
		all = append(all, three(9, "10")...)
		cs = append(cs, core.Case{ID: id, NT: true, Ops: all})
	}
	// every single bit of a 64-bit network id must be covered by the signature
	{
		const base = uint64(0x0102030405060708)
		all := []string{"new 0 0 " + underlays[0] + " " + strconv.FormatUint(base, 10)}
		all = append(all, three(0, strconv.FormatUint(base, 10))...)
		for b := 0; b < 64; b++ {
			all = append(all, three(0, strconv.FormatUint(base^(1<<uint(b)), 10))...)
		}
		cs = append(cs, core.Case{ID: "fix-netid-every-bit", NT: true, Ops: all})
	}
	// two-entry underlay lists (valid record first, then an unauthentic entry naming another overlay, and the other
	// orders) and concurrent verification of a genuine record next to a forged one with the same overlay and signature
	fixed("fix-save2-valid-then-forged", "take 9 0 1 0", "save2 0 9 10", "save2 9 0 10", "save2 0 1 10", "mut 1 8 u flip 12", "save2 0 8 10", "save2 8 0 10", "save2 0 0 10")
	fixed("fix-par-genuine-forged", "mut 0 9 u flip 12", "par 0 9 10", "par 0 1 10", "mut 0 8 u app 1", "par 0 8 10")
	fixed("fix-own", "mut 0 9 u app 0", "parse 0 11")
	fixed("fix-underlay-flip", "mut 0 9 u flip 12")
	fixed("fix-overlay-flip", "mut 0 9 o flip 0")
	fixed("fix-sig-flip", "mut 0 9 s flip 7")
	fixed("fix-sig-v", "mut 0 9 s flip 512")
	fixed("fix-move-fwd", "move 0 9 fwd 1")
	fixed("fix-move-back", "move 0 9 back 3")
	fixed("fix-malleate", "malleate 0 9")
	fixed("fix-foreign-overlay", "take 9 0 1 0")
	fixed("fix-foreign-sig", "take 9 0 0 1")
	fixed("fix-foreign-underlay", "take 9 1 0 0")
	for i := 0; i < n; i++ {
		c := core.Case{ID: fmt.Sprintf("g%d", i)}
		nid := nids[r.Intn(len(nids))]
		if r.Chance(40) { // any 64-bit network id (every byte of the id must be covered by the signature)
			nid = strconv.FormatUint(r.U64(), 10)
		}
		nk := r.Range(1, 3)
		for k := 0; k < nk; k++ {
			c.Ops = append(c.Ops, fmt.Sprintf("new %d %d %s %s", k, k, underlays[r.Intn(len(underlays))], nid))
		}
		c.Ops = append(c.Ops, three(0, nid)...)
		muts := 0
		for k := r.Range(2, 6); k > 0; k-- {
			src := r.Intn(nk)
			d := 5 + r.Intn(4)
			switch r.Intn(14) {
			case 0, 1:
				c.Ops = append(c.Ops, fmt.Sprintf("mut %d %d u %s %d", src, d, []string{"flip", "flip", "trunc", "app", "pre"}[r.Intn(5)], r.Intn(400)))
			case 2, 3:
				c.Ops = append(c.Ops, fmt.Sprintf("mut %d %d o %s %d", src, d, []string{"flip", "flip", "trunc", "app", "pre"}[r.Intn(5)], r.Intn(256)))
			case 4, 5:
				c.Ops = append(c.Ops, fmt.Sprintf("mut %d %d s %s %d", src, d, []string{"flip", "flip", "trunc", "app", "pre"}[r.Intn(5)], r.Pick([]int{r.Intn(520), 512, 513, 519, 64, 65, 66, 0})))
			case 6, 7:
				c.Ops = append(c.Ops, fmt.Sprintf("move %d %d %s %d", src, d, []string{"fwd", "back"}[r.Intn(2)], r.Range(1, 8)))
			case 8:
				c.Ops = append(c.Ops, fmt.Sprintf("malleate %d %d", src, d))
			case 9, 10:
				c.Ops = append(c.Ops, fmt.Sprintf("take %d %d %d %d", d, r.Intn(nk), r.Intn(nk), r.Intn(nk)))
			case 11: // another network id on the honest record: a listed one, or the same with ONE of its 64 bits flipped
				other := nids[r.Intn(len(nids))]
				if r.Chance(60) {
					if v, err := strconv.ParseUint(nid, 10, 64); err == nil {
						other = strconv.FormatUint(v^(1<<uint(r.Intn(64))), 10)
					}
				}
				c.Ops = append(c.Ops, three(src, other)...)
				muts++
				continue
			case 12: // raw garbage
				c.Ops = append(c.Ops, fmt.Sprintf("raw %d %s %s %s", d, core.Hex(r.Bytes(r.Pick([]int{0, 1, 8, 20}))), core.Hex(r.Bytes(r.Pick([]int{0, 20, 32, 33}))), core.Hex(r.Bytes(r.Pick([]int{0, 64, 65, 65, 66})))))
			default: // mutate a mutant again
				c.Ops = append(c.Ops, fmt.Sprintf("mut %d %d %s flip %d", 5+r.Intn(4), d, []string{"u", "o", "s"}[r.Intn(3)], r.Intn(300)))
			}
			muts++
			c.Ops = append(c.Ops, three(d, nid)...)
			// the mutant next to an honest record in ONE underlay list (both orders), sometimes verified concurrently
			if r.Chance(35) {
				h := r.Intn(nk)
				if r.Bool() {
					c.Ops = append(c.Ops, fmt.Sprintf("save2 %d %d %s", h, d, nid))
				} else {
					c.Ops = append(c.Ops, fmt.Sprintf("save2 %d %d %s", d, h, nid))
				}
			}
			if r.Chance(4) {
				c.Ops = append(c.Ops, fmt.Sprintf("par %d %d %s", r.Intn(nk), d, nid))
			}
		}
		c.NT = muts > 0
		cs = append(cs, c)
	}
	return cs
}

// ---- runner

type record struct{ u, o, sig []byte }

type honest struct {
	record
	nid uint64
}

type slotT struct {
	record
	base int // index into honest (lineage), -1 for raw
}

type runner struct {
	keys   map[int]*ecdsa.PrivateKey
	slots  map[int]*slotT
	honest []honest
}

func (prop) New() core.Runner {
	return &runner{keys: map[int]*ecdsa.PrivateKey{}, slots: map[int]*slotT{}}
}
func (*runner) Close() {}

var noop = logging.New(io.Discard, logrus.ErrorLevel)

func signData(u, o []byte, nid uint64) []byte {
	b := make([]byte, 8)
	binary.BigEndian.PutUint64(b, nid)
	d := append([]byte("aurorafs-handshake-"), u...)
	d = append(d, o...)
	return append(d, b...)
}

func (rn *runner) key(i int) *ecdsa.PrivateKey {
	if k, ok := rn.keys[i]; ok {
		return k
	}
	seed := bytes.Repeat([]byte{byte(0x11 * (i + 1))}, 32)
	seed[31] = byte(i + 1)
	k := crypto.Secp256k1PrivateKeyFromBytes(seed)
	rn.keys[i] = k
	return k
}

func flip(b []byte, i int) []byte {
	c := append([]byte(nil), b...)
	if len(c) == 0 {
		return c
	}
	i %= len(c) * 8
	c[i/8] ^= 1 << uint(i%8)
	return c
}

func mutField(b []byte, kind string, arg int) ([]byte, bool) {
	switch kind {
	case "flip":
		return flip(b, arg), true
	case "trunc":
		if arg < len(b) {
			return append([]byte(nil), b[:arg]...), true
		}
		return append([]byte(nil), b...), true
	case "app":
		return append(append([]byte(nil), b...), byte(arg)), true
	case "pre":
		return append([]byte{byte(arg)}, b...), true
	}
	return nil, false
}

func malleate(sig []byte) []byte {
	if len(sig) != 65 {
		return append([]byte(nil), sig...)
	}
	n := btcec.S256().N
	s := new(big.Int).SetBytes(sig[32:64])
	s.Mod(s, n)
	s.Sub(n, s)
	s.Mod(s, n)
	out := append([]byte(nil), sig[:32]...)
	sb := s.Bytes()
	out = append(out, make([]byte, 32-len(sb))...)
	out = append(out, sb...)
	// the last byte is btcec's compact header 27 + recovery id (+4 if compressed): flip the id's parity bit
	v := sig[64]
	if v >= 27 {
		v = 27 + ((v - 27) ^ 1)
	} else {
		v ^= 1
	}
	return append(out, v)
}

func (rn *runner) Step(ctx *core.Ctx, op []string) string {
	atoi := func(s string) (int, bool) { v, e := strconv.Atoi(s); return v, e == nil && v >= 0 }
	if len(op) == 0 {
		return "bad-op"
	}
	switch {
	case op[0] == "new" && len(op) == 5:
		s, ok1 := atoi(op[1])
		ki, ok2 := atoi(op[2])
		u, err := ma.NewMultiaddr(op[3])
		nid, err2 := strconv.ParseUint(op[4], 10, 64)
		if !ok1 || !ok2 || err != nil || err2 != nil {
			return "bad-op"
		}
		k := rn.key(ki)
		ov, err := crypto.NewOverlayAddress(k.PublicKey, nid)
		if err != nil {
			return "err"
		}
		a, err := aurora.NewAddress(crypto.NewDefaultSigner(k), u, ov, nid)
		if err != nil {
			return "err"
		}
		rec := record{u: a.Underlay.Bytes(), o: a.Overlay.Bytes(), sig: a.Signature}
		rn.honest = append(rn.honest, honest{record: rec, nid: nid})
		rn.slots[s] = &slotT{record: rec, base: len(rn.honest) - 1}
		ctx.Annotate("u="+core.Hex(rec.u), "o="+core.Hex(rec.o), "sig="+core.Hex(rec.sig))
		// records produced by a node's own signer are always accepted
		if _, err := aurora.ParseAddress(rec.u, rec.o, rec.sig, nid); err != nil {
			ctx.Fail("own-record-rejected", "ParseAddress rejects the record NewAddress just produced: %v", err)
		}
		return "ok"
	case op[0] == "raw" && len(op) == 5:
		s, ok1 := atoi(op[1])
		u, e1 := core.UnHex(op[2])
		o, e2 := core.UnHex(op[3])
		sg, e3 := core.UnHex(op[4])
		if !ok1 || e1 != nil || e2 != nil || e3 != nil {
			return "bad-op"
		}
		rn.slots[s] = &slotT{record: record{u, o, sg}, base: -1}
		return "ok"
	case op[0] == "mut" && len(op) == 6:
		s, ok1 := atoi(op[1])
		d, ok2 := atoi(op[2])
		arg, ok3 := atoi(op[5])
		if !ok1 || !ok2 || !ok3 {
			return "bad-op"
		}
		src := rn.slots[s]
		if src == nil {
			return "noslot"
		}
		nr := *src
		var ok bool
		switch op[3] {
		case "u":
			nr.u, ok = mutField(src.u, op[4], arg)
		case "o":
			nr.o, ok = mutField(src.o, op[4], arg)
		case "s":
			nr.sig, ok = mutField(src.sig, op[4], arg)
		}
		if !ok {
			return "bad-op"
		}
		rn.slots[d] = &nr
		return "ok"
	case op[0] == "move" && len(op) == 5:
		s, ok1 := atoi(op[1])
		d, ok2 := atoi(op[2])
		k, ok3 := atoi(op[4])
		if !ok1 || !ok2 || !ok3 {
			return "bad-op"
		}
		src := rn.slots[s]
		if src == nil {
			return "noslot"
		}
		nr := *src
		switch op[3] {
		case "fwd":
			if k > len(src.u) {
				k = len(src.u)
			}
			nr.u = append([]byte(nil), src.u[:len(src.u)-k]...)
			nr.o = append(append([]byte(nil), src.u[len(src.u)-k:]...), src.o...)
		case "back":
			if k > len(src.o) {
				k = len(src.o)
			}
			nr.u = append(append([]byte(nil), src.u...), src.o[:k]...)
			nr.o = append([]byte(nil), src.o[k:]...)
		default:
			return "bad-op"
		}
		rn.slots[d] = &nr
		return "ok"
	case op[0] == "malleate" && len(op) == 3:
		s, ok1 := atoi(op[1])
		d, ok2 := atoi(op[2])
		if !ok1 || !ok2 {
			return "bad-op"
		}
		src := rn.slots[s]
		if src == nil {
			return "noslot"
		}
		nr := *src
		nr.sig = malleate(src.sig)
		rn.slots[d] = &nr
		return "ok"
	case op[0] == "take" && len(op) == 5:
		d, ok0 := atoi(op[1])
		a, ok1 := atoi(op[2])
		b, ok2 := atoi(op[3])
		c, ok3 := atoi(op[4])
		if !ok0 || !ok1 || !ok2 || !ok3 {
			return "bad-op"
		}
		sa, sb, sc := rn.slots[a], rn.slots[b], rn.slots[c]
		if sa == nil || sb == nil || sc == nil {
			return "noslot"
		}
		rn.slots[d] = &slotT{record: record{u: sa.u, o: sb.o, sig: sc.sig}, base: sb.base}
		return "ok"
	case (op[0] == "save2" || op[0] == "par") && len(op) == 4:
		a, ok1 := atoi(op[1])
		b, ok2 := atoi(op[2])
		nid, err := strconv.ParseUint(op[3], 10, 64)
		if !ok1 || !ok2 || err != nil {
			return "bad-op"
		}
		sa, sb := rn.slots[a], rn.slots[b]
		if sa == nil || sb == nil {
			return "noslot"
		}
		var toks []string
		verdict := func(sl *slotT, tag string) bool { // the primitives' own verdict on one record (as in parse/ack/save)
			data := signData(sl.u, sl.o, nid)
			recov, authentic := "none", false
			if pk, err := crypto.Recover(sl.sig, data); err == nil && pk != nil {
				if ov, err := crypto.NewOverlayAddress(*pk, nid); err == nil {
					recov = core.Hex(ov.Bytes())
					authentic = bytes.Equal(ov.Bytes(), sl.o)
				}
			}
			_, uerr := ma.NewMultiaddrBytes(sl.u)
			toks = append(toks, "data"+tag+"="+core.Hex(data), "rec"+tag+"="+recov, "uok"+tag+"="+core.B(uerr == nil))
			return authentic && uerr == nil
		}
		va, vb := verdict(sa, "A"), verdict(sb, "B")
		if op[0] == "save2" {
			ctx.Annotate(toks...)
		}
		if op[0] == "save2" {
			// one underlay response carrying TWO entries: each entry stands for itself — what is stored under an
			// overlay is that entry's own record, and only if it is authentic
			ab := addressbook.New(mockstate.NewStateStore())
			routetab.VerifSaveUnderlay(ab, nid, noop, []*rpb.UnderlayResp{{Dest: sa.o, Underlay: sa.u, Signature: sa.sig}, {Dest: sb.o, Underlay: sb.u, Signature: sb.sig}})
			held := func(o []byte) string {
				got, err := ab.Get(boson.NewAddress(o))
				switch {
				case err != nil || got == nil:
					return "none"
				case bytes.Equal(got.Overlay.Bytes(), sa.o) && bytes.Equal(got.Underlay.Bytes(), sa.u) && bytes.Equal(got.Signature, sa.sig):
					return "A"
				case bytes.Equal(got.Overlay.Bytes(), sb.o) && bytes.Equal(got.Underlay.Bytes(), sb.u) && bytes.Equal(got.Signature, sb.sig):
					return "B"
				}
				return "other"
			}
			// expected book: the entries one after the other, each standing for itself, a later authentic entry for the
			// same overlay replacing an earlier one
			exp := map[string]string{}
			if va {
				exp[string(sa.o)] = "A"
			}
			if vb {
				lbl := "B"
				if bytes.Equal(sa.o, sb.o) && bytes.Equal(sa.u, sb.u) && bytes.Equal(sa.sig, sb.sig) {
					lbl = "A" // the same record twice
				}
				exp[string(sb.o)] = lbl
			}
			for i, o := range [][]byte{sa.o, sb.o} {
				want, got := exp[string(o)], held(o)
				if want == "" {
					want = "none"
				}
				if got == want {
					continue
				}
				switch {
				case got == "other" || (got == "A" && !bytes.Equal(o, sa.o)) || (got == "B" && !bytes.Equal(o, sb.o)):
					ctx.Fail("save2-foreign-record-stored", "two-entry underlay list: under the overlay of entry %d the address book holds a record of ANOTHER overlay (%s)", i, got)
				case (got == "A" && !va) || (got == "B" && !vb):
					ctx.Fail("save2-accepted-unauthentic", "two-entry underlay list: the unauthentic entry %s is stored", got)
				case got == "none":
					ctx.Fail("save2-own-record-rejected", "two-entry underlay list: nothing stored under the overlay of entry %d, expected record %s", i, want)
				default:
					ctx.Fail("save2-book-differs", "two-entry underlay list: overlay of entry %d holds %s, expected %s", i, got, want)
				}
			}
			return "a=" + held(sa.o) + " b=" + held(sb.o)
		}
		// par: the two records are verified concurrently, many times; every single verdict must be the sequential one
		var wrongA, wrongB int64
		var wg sync.WaitGroup
		for g := 0; g < 8; g++ {
			wg.Add(1)
			go func(g int) {
				defer wg.Done()
				sl, want, cnt := sa, va, &wrongA
				if g%2 == 1 {
					sl, want, cnt = sb, vb, &wrongB
				}
				for i := 0; i < 400; i++ {
					_, err := aurora.ParseAddress(sl.u, sl.o, sl.sig, nid)
					if (err == nil) != want {
						atomic.AddInt64(cnt, 1)
					}
				}
			}(g)
		}
		wg.Wait()
		if wrongA+wrongB > 0 {
			ctx.Fail("par-verdict-differs", "concurrent ParseAddress: %d verdicts on record %d and %d on record %d differ from the sequential verdicts (%v, %v)", wrongA, a, wrongB, b, va, vb)
		}
		return "done"
	case (op[0] == "parse" || op[0] == "ack" || op[0] == "save") && len(op) == 3:
		s, ok1 := atoi(op[1])
		nid, err := strconv.ParseUint(op[2], 10, 64)
		if !ok1 || err != nil {
			return "bad-op"
		}
		sl := rn.slots[s]
		if sl == nil {
			return "noslot"
		}
		// the primitives' own verdicts (real libraries), passed to the model
		data := signData(sl.u, sl.o, nid)
		recov := "none"
		authentic := false
		if pk, err := crypto.Recover(sl.sig, data); err == nil && pk != nil {
			if ov, err := crypto.NewOverlayAddress(*pk, nid); err == nil {
				recov = core.Hex(ov.Bytes())
				authentic = bytes.Equal(ov.Bytes(), sl.o)
			}
		}
		_, uerr := ma.NewMultiaddrBytes(sl.u)
		ctx.Annotate("data="+core.Hex(data), "rec="+recov, "uok="+core.B(uerr == nil))
		accepted := false
		switch op[0] {
		case "parse":
			a, err := aurora.ParseAddress(sl.u, sl.o, sl.sig, nid)
			accepted = err == nil
			if accepted && !(bytes.Equal(a.Overlay.Bytes(), sl.o) && bytes.Equal(a.Underlay.Bytes(), sl.u) && bytes.Equal(a.Signature, sl.sig)) {
				return "ok-different-record"
			}
		case "ack":
			_, err := verifexport.ParseCheckAck(nid, sl.u, sl.o, sl.sig)
			accepted = err == nil
		default:
			ab := addressbook.New(mockstate.NewStateStore())
			routetab.VerifSaveUnderlay(ab, nid, noop, []*rpb.UnderlayResp{{Dest: sl.o, Underlay: sl.u, Signature: sl.sig}})
			got, err := ab.Get(boson.NewAddress(sl.o))
			accepted = err == nil && got != nil
			if accepted && !(bytes.Equal(got.Underlay.Bytes(), sl.u) && bytes.Equal(got.Signature, sl.sig)) {
				return "ok-different-record"
			}
		}
		if accepted {
			rn.oracle(ctx, op[0], sl, nid, authentic, uerr == nil)
			return "ok"
		}
		// an honest record with its own network id must be accepted
		for _, h := range rn.honest {
			if h.nid == nid && bytes.Equal(h.u, sl.u) && bytes.Equal(h.o, sl.o) && bytes.Equal(h.sig, sl.sig) {
				ctx.Fail(op[0]+"-own-record-rejected", "an honest record is rejected")
			}
		}
		return "invalid"
	}
	return "bad-op"
}

// oracle: an accepted record must be authentic, and — every signature in this run having been
// made by NewAddress above — must be one of the honest (record, network id) pairs unchanged.
func (rn *runner) oracle(ctx *core.Ctx, via string, sl *slotT, nid uint64, authentic, uok bool) {
	if !authentic || !uok {
		ctx.Fail(via+"-accepted-unauthentic", "accepted although the signature does not recover to a key with the claimed overlay (or the underlay does not parse)")
		return
	}
	for _, h := range rn.honest {
		if h.nid == nid && bytes.Equal(h.u, sl.u) && bytes.Equal(h.o, sl.o) && bytes.Equal(h.sig, sl.sig) {
			return
		}
	}
	clause := "tampered-accepted"
	if sl.base >= 0 {
		h := rn.honest[sl.base]
		du, do, ds, dn := !bytes.Equal(h.u, sl.u), !bytes.Equal(h.o, sl.o), !bytes.Equal(h.sig, sl.sig), h.nid != nid
		cnt := 0
		for _, b := range []bool{du, do, ds, dn} {
			if b {
				cnt++
			}
		}
		switch {
		case cnt == 1 && ds && bytes.Equal(malleate(h.sig), sl.sig):
			clause = "sig-malleable-accepted"
		case cnt == 1 && ds:
			clause = "tampered-sig-accepted"
		case cnt == 1 && du:
			clause = "tampered-underlay-accepted"
		case cnt == 1 && do:
			clause = "tampered-overlay-accepted"
		case cnt == 1 && dn:
			clause = "tampered-networkid-accepted"
		default:
			clause = "tampered-multi-accepted"
		}
	}
	ctx.Fail(via+"-"+clause, "accepted a record that no signer of this run produced")
}
