import Aurora.Lemmas.AtomicRegion
import Aurora.Lemmas.Cheque
import Aurora.Lemmas.Accounting
/-! Instances of the sequential run of `Model/AtomicRegion.lean` used by Props/C30 and Props/C32. -/

namespace Aurora.Cheque

/-- the sequential run of cheque-store deliveries is the `run` of the C30 model over `srecv` ops -/
theorem seqRun_storeOnly (chq : Nat → Cheque) (rec : Nat → Option Nat) (st : St) (l : List Nat) :
    (AtomicRegion.seqRun (fun t x => storeOnly x (chq t) (rec t)) st l).1 =
      run st (l.map fun t => Op.srecv (chq t) (rec t)) := by
  induction l generalizing st with
  | nil => rfl
  | cons t l ih => simp only [AtomicRegion.seqRun, List.map_cons, run, List.foldl_cons, step]; exact ih _

end Aurora.Cheque

namespace Aurora.Accounting

/-- get-or-create on the map entry of one peer: goroutine `t` finds record `r`, or inserts the record
    it has just built (named `t`) -/
def getOrCreate (t : Nat) (e : Option Nat) : Option Nat × Nat :=
  match e with
  | some r => (some r, r)
  | none => (some t, t)

theorem seqRun_getOrCreate_some (r : Nat) (l : List Nat) :
    (AtomicRegion.seqRun getOrCreate (some r) l).1 = some r ∧
    ∀ x ∈ (AtomicRegion.seqRun getOrCreate (some r) l).2, x.2 = r := by
  induction l with
  | nil => simp [AtomicRegion.seqRun]
  | cons t l ih =>
    simp only [AtomicRegion.seqRun, getOrCreate]
    refine ⟨ih.1, fun x hx => ?_⟩
    rcases List.mem_cons.1 hx with h | h
    · rw [h]
    · exact ih.2 x h

end Aurora.Accounting
