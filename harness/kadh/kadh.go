// Package kadh is the shared "Kad harness" of properties C22, C23 and C24: it drives the REAL
// kademlia.Kad of /repo (constructed with kademlia.New, in-memory address book, the repo's own
// discovery / p2p / pingpong mocks, default reachability filter = Kad.peerUnreachable fed
// through Kad.Reachable) synchronously, one op line at a time.  The manage loop is never
// started (Kad.Start is not called), so nothing happens between two ops.
//
// Op lines (all self-contained; before `init` every op answers `nokad`):
//
//	init <base> <binmax> <full|boot> <static,…|->   new Kad (Options.BinMaxPeers, NodeMode, StaticNodes)
//	add <a,b,…>                  AddPeers                         -> ok
//	conn <a> <0|1>               Connected(peer, force)           -> ok | oversat | err   [| kick <addr>]
//	out <a> <full|boot>          Outbound(peer with that mode)    -> ok
//	disc <a>                     Disconnected                     -> ok
//	force <a>                    DisconnectForce                  -> ok | err
//	pick <a>                     Pick                             -> 0 | 1
//	protect <a,b,…|->            RefreshProtectPeer               -> ok
//	reach <a> <pub|priv|unk>     Reachable(a, status)             -> ok
//	self <pub|priv|unk>          UpdateReachability               -> ok
//	radius <r>                   SetRadius                        -> ok
//	depth                        NeighborhoodDepth                -> n
//	depthx <seed>                NeighborhoodDepth (the oracle additionally rebuilds the same peer set
//	                             in a permuted connection order on a second Kad)  -> n
//	state                        -> d=<depth> c=<sorted connected> k=<sorted known>
//	bins                         -> connected peers per bin in slice order, `bin:a,b;bin:c`
//	closest <t> <self> <reach> <skip,…|->   ClosestPeer   -> <addr> | self | notfound | err
//	closestn <t> <n> <reach> <skip,…|->     ClosestPeers  -> <a,b,…> | -
package kadh

import (
	"context"
	"errors"
	"fmt"
	"io"
	"sort"
	"strconv"
	"strings"
	"sync"
	"time"

	"github.com/gauss-project/aurorafs/pkg/addressbook"
	"github.com/gauss-project/aurorafs/pkg/aurora"
	"github.com/gauss-project/aurorafs/pkg/boson"
	discmock "github.com/gauss-project/aurorafs/pkg/discovery/mock"
	"github.com/gauss-project/aurorafs/pkg/logging"
	"github.com/gauss-project/aurorafs/pkg/p2p"
	p2pmock "github.com/gauss-project/aurorafs/pkg/p2p/mock"
	ppmock "github.com/gauss-project/aurorafs/pkg/pingpong/mock"
	"github.com/gauss-project/aurorafs/pkg/shed"
	sldb "github.com/gauss-project/aurorafs/pkg/shed/leveldb"
	mockstate "github.com/gauss-project/aurorafs/pkg/statestore/mock"
	"github.com/gauss-project/aurorafs/pkg/subscribe"
	"github.com/gauss-project/aurorafs/pkg/topology"
	"github.com/gauss-project/aurorafs/pkg/topology/kademlia"

	"verifharness/core"
)

const NNLowWatermark = 3 // kademlia.nnLowWatermark (never changed by New); the Lean side gets it from the extractor

var regOnce sync.Once

func registerDriver() {
	regOnce.Do(func() {
		for _, d := range shed.Drivers() {
			if d == "leveldb" {
				return
			}
		}
		shed.Register("leveldb", sldb.Driver{})
	})
}

// nullSubPub swallows the peersChange / peerState publications.
type nullSubPub struct{}

func (nullSubPub) Subscribe(subscribe.INotifier, string, string, string) error { return nil }
func (nullSubPub) Publish(string, string, string, interface{}) error           { return nil }
func (nullSubPub) PublishArray(string, string, string, []interface{}) error    { return nil }

// Thresholds are the values kademlia.New derives from Options.BinMaxPeers (>0).
type Thresholds struct{ Over, Sat, Quick int }

func ThresholdsFor(binMax int) Thresholds {
	if binMax < 5 {
		binMax = 5
	}
	over := binMax
	if binMax%5 != 0 {
		over = binMax - binMax%5 + 5
	}
	return Thresholds{Over: over, Sat: over / 5 * 2, Quick: over / 5}
}

// Runner holds one real Kad.
type Runner struct {
	K        *kademlia.Kad
	Base     boson.Address
	BinMax   int
	T        Thresholds
	BootMode bool
	Static   []boson.Address
	Protect  []boson.Address
	Radius   uint8
	Live     map[string]bool // oracle bookkeeping: address -> last event was a successful connect
	Kicked   []boson.Address // p2p.Disconnect calls made by Kad during the current op
	// StaleReach: a `reach x priv|unk` happened and no depth recomputation since
	StaleReach bool
	After      func(ctx *core.Ctx, r *Runner, op []string, out string) // property oracle hook
	Before     func(ctx *core.Ctx, r *Runner, op []string)             // optional: look at the pre-state
	Scratch    interface{}                                             // oracle-private data

	db *shed.DB
}

func NewRunner(after func(ctx *core.Ctx, r *Runner, op []string, out string)) *Runner {
	return &Runner{After: after}
}

func (r *Runner) Close() { r.drop() }

func (r *Runner) drop() {
	if r.K != nil {
		r.K.VerifStop()
		r.K = nil
	}
	if r.db != nil {
		_ = r.db.Close()
		r.db = nil
	}
}

func FullPeer(a boson.Address) p2p.Peer {
	return p2p.Peer{Address: a, Mode: aurora.NewModel().SetMode(aurora.FullNode)}
}
func BootPeer(a boson.Address) p2p.Peer {
	return p2p.Peer{Address: a, Mode: aurora.NewModel().SetMode(aurora.FullNode).SetMode(aurora.BootNode)}
}

// NewKad builds a real Kad; onDisconnect observes p2p.Disconnect calls made by Kad.
func NewKad(base boson.Address, binMax int, boot bool, static []boson.Address, onDisconnect func(boson.Address)) (*kademlia.Kad, *shed.DB, error) {
	registerDriver()
	db, err := shed.NewDB("", &shed.Options{Driver: "leveldb"})
	if err != nil {
		return nil, nil, err
	}
	ab := addressbook.New(mockstate.NewStateStore())
	disc := discmock.NewDiscovery()
	disc.SetHive2(true) // Announce returns immediately: no gossip goroutines, no random subsets
	p2ps := p2pmock.New(p2pmock.WithDisconnectFunc(func(a boson.Address, _ string) error {
		if onDisconnect != nil {
			onDisconnect(a)
		}
		return nil
	}))
	pp := ppmock.New(func(context.Context, boson.Address, ...string) (time.Duration, error) { return 0, nil })
	mode := aurora.NewModel().SetMode(aurora.FullNode)
	if boot {
		mode = mode.SetMode(aurora.BootNode)
	}
	k, err := kademlia.New(base, ab, disc, p2ps, pp, nil, nil, db, logging.New(io.Discard, 0), nullSubPub{},
		kademlia.Options{BinMaxPeers: binMax, NodeMode: mode, StaticNodes: static})
	if err != nil {
		_ = db.Close()
		return nil, nil, err
	}
	// as in the node: p2p.Disconnect(peer) ends with notifier.Disconnected(peer)
	p2ps.SetPickyNotifier(k)
	return k, db, nil
}

func ParseAddr(s string) (boson.Address, bool) {
	b, err := core.UnHex(s)
	if err != nil {
		return boson.ZeroAddress, false
	}
	return boson.NewAddress(b), true
}

func ParseList(s string) ([]boson.Address, bool) {
	if s == "-" {
		return nil, true
	}
	var out []boson.Address
	for _, x := range strings.Split(s, ",") {
		if x == "" || x == "-" {
			return nil, false
		}
		a, ok := ParseAddr(x)
		if !ok {
			return nil, false
		}
		out = append(out, a)
	}
	return out, true
}

func JoinAddrs(as []boson.Address) string {
	if len(as) == 0 {
		return "-"
	}
	ss := make([]string, len(as))
	for i, a := range as {
		ss[i] = core.Hex(a.Bytes())
	}
	return strings.Join(ss, ",")
}

func sortedHex(as []boson.Address) string {
	ss := make([]string, len(as))
	for i, a := range as {
		ss[i] = core.Hex(a.Bytes())
	}
	sort.Strings(ss)
	if len(ss) == 0 {
		return "-"
	}
	return strings.Join(ss, ",")
}

func parseStatus(s string) (p2p.ReachabilityStatus, bool) {
	switch s {
	case "pub":
		return p2p.ReachabilityStatusPublic, true
	case "priv":
		return p2p.ReachabilityStatusPrivate, true
	case "unk":
		return p2p.ReachabilityStatusUnknown, true
	}
	return 0, false
}

// Connected / Known return the peers in EachBin order (deepest bin first, slice order).
func (r *Runner) Connected() (as []boson.Address) {
	_ = r.K.EachPeer(func(a boson.Address, _ uint8) (bool, bool, error) { as = append(as, a); return false, false, nil }, topology.Filter{})
	return
}
func (r *Runner) Known() (as []boson.Address) {
	_ = r.K.EachKnownPeer(func(a boson.Address, _ uint8) (bool, bool, error) { as = append(as, a); return false, false, nil })
	return
}

// Reachable is the implementation's own view of a peer's reachability (what peerUnreachable reads).
func (r *Runner) Reachable(a boson.Address) bool {
	ss := r.K.SnapshotAddr(a)
	return ss != nil && ss.Reachability == p2p.ReachabilityStatusPublic
}

// Counts gives per-bin (reachable, total) counts of connected (or known) peers.
func (r *Runner) Counts(known bool) (reach, total [32]int) {
	f := func(a boson.Address, po uint8) (bool, bool, error) {
		total[po]++
		if r.Reachable(a) {
			reach[po]++
		}
		return false, false, nil
	}
	if known {
		_ = r.K.EachKnownPeer(f)
	} else {
		_ = r.K.EachPeer(f, topology.Filter{})
	}
	return
}

// SelfPublic is the implementation's own view of the node's reachability status.
func (r *Runner) SelfPublic() bool { return r.K.Snapshot().Reachability == p2p.ReachabilityStatusPublic.String() }

func (r *Runner) IsStatic(a boson.Address) bool    { return a.MemberOf(r.Static) }
func (r *Runner) IsProtected(a boson.Address) bool { return a.MemberOf(r.Protect) }

func (r *Runner) Step(ctx *core.Ctx, op []string) string {
	if r.Before != nil && r.K != nil && len(op) > 0 && op[0] != "init" {
		r.Before(ctx, r, op)
	}
	out := r.step(ctx, op)
	if r.After != nil && r.K != nil && out != "bad-op" {
		r.After(ctx, r, op, out)
	}
	return out
}

func (r *Runner) step(ctx *core.Ctx, op []string) string {
	if len(op) == 0 {
		return "bad-op"
	}
	if op[0] == "init" {
		if len(op) != 5 {
			return "bad-op"
		}
		base, ok1 := ParseAddr(op[1])
		bm, err := strconv.Atoi(op[2])
		static, ok2 := ParseList(op[4])
		if !ok1 || err != nil || !ok2 || bm <= 0 || (op[3] != "full" && op[3] != "boot") {
			return "bad-op"
		}
		r.drop()
		r.Base, r.BinMax, r.T, r.BootMode, r.Static = base, bm, ThresholdsFor(bm), op[3] == "boot", static
		r.Protect, r.Radius, r.Live, r.StaleReach = nil, uint8(boson.MaxPO), map[string]bool{}, false
		k, db, e := NewKad(base, bm, r.BootMode, static, func(a boson.Address) { r.Kicked = append(r.Kicked, a) })
		if e != nil {
			return "err"
		}
		r.K, r.db = k, db
		return "ok"
	}
	if r.K == nil {
		return "nokad"
	}
	k := r.K
	r.Kicked = nil
	bg := context.Background()
	switch op[0] {
	case "add":
		if len(op) != 2 {
			return "bad-op"
		}
		as, ok := ParseList(op[1])
		if !ok || len(as) == 0 {
			return "bad-op"
		}
		k.AddPeers(as...)
		return "ok"
	case "conn":
		if len(op) != 3 || (op[2] != "0" && op[2] != "1") {
			return "bad-op"
		}
		a, ok := ParseAddr(op[1])
		if !ok {
			return "bad-op"
		}
		err := k.Connected(bg, FullPeer(a), op[2] == "1")
		for _, x := range r.Kicked {
			ctx.Annotate("kick", core.Hex(x.Bytes()))
			delete(r.Live, x.ByteString())
		}
		switch {
		case err == nil:
			r.Live[a.ByteString()] = true
			r.StaleReach = false
			return "ok"
		case errors.Is(err, topology.ErrOversaturated):
			return "oversat"
		}
		return "err"
	case "out":
		if len(op) != 3 || (op[2] != "full" && op[2] != "boot") {
			return "bad-op"
		}
		a, ok := ParseAddr(op[1])
		if !ok {
			return "bad-op"
		}
		if op[2] == "boot" {
			k.Outbound(BootPeer(a))
		} else {
			k.Outbound(FullPeer(a))
			r.Live[a.ByteString()] = true
			r.StaleReach = false
		}
		return "ok"
	case "disc":
		if len(op) != 2 {
			return "bad-op"
		}
		a, ok := ParseAddr(op[1])
		if !ok {
			return "bad-op"
		}
		k.Disconnected(FullPeer(a), "verif")
		delete(r.Live, a.ByteString())
		r.StaleReach = false
		return "ok"
	case "force":
		if len(op) != 2 {
			return "bad-op"
		}
		a, ok := ParseAddr(op[1])
		if !ok {
			return "bad-op"
		}
		if err := k.DisconnectForce(a, "verif"); err != nil {
			return "err"
		}
		delete(r.Live, a.ByteString())
		r.StaleReach = false
		return "ok"
	case "pick":
		if len(op) != 2 {
			return "bad-op"
		}
		a, ok := ParseAddr(op[1])
		if !ok {
			return "bad-op"
		}
		return core.B(k.Pick(FullPeer(a)))
	case "protect":
		if len(op) != 2 {
			return "bad-op"
		}
		as, ok := ParseList(op[1])
		if !ok {
			return "bad-op"
		}
		r.Protect = as
		k.RefreshProtectPeer(as)
		return "ok"
	case "reach":
		if len(op) != 3 {
			return "bad-op"
		}
		a, ok := ParseAddr(op[1])
		st, ok2 := parseStatus(op[2])
		if !ok || !ok2 {
			return "bad-op"
		}
		k.Reachable(a, st)
		r.StaleReach = st != p2p.ReachabilityStatusPublic
		return "ok"
	case "self":
		if len(op) != 2 {
			return "bad-op"
		}
		st, ok := parseStatus(op[1])
		if !ok {
			return "bad-op"
		}
		k.UpdateReachability(st)
		return "ok"
	case "radius":
		if len(op) != 2 {
			return "bad-op"
		}
		n, err := strconv.Atoi(op[1])
		if err != nil || n < 0 || n > 255 {
			return "bad-op"
		}
		if uint8(n) != r.Radius {
			r.StaleReach = false
		}
		r.Radius = uint8(n)
		k.SetRadius(uint8(n))
		return "ok"
	case "depth":
		if len(op) != 1 {
			return "bad-op"
		}
		return strconv.Itoa(int(k.NeighborhoodDepth()))
	case "depthx":
		if len(op) != 2 {
			return "bad-op"
		}
		if _, err := strconv.ParseUint(op[1], 10, 64); err != nil {
			return "bad-op"
		}
		return strconv.Itoa(int(k.NeighborhoodDepth()))
	case "state":
		if len(op) != 1 {
			return "bad-op"
		}
		return fmt.Sprintf("d=%d c=%s k=%s", k.NeighborhoodDepth(), sortedHex(r.Connected()), sortedHex(r.Known()))
	case "bins":
		if len(op) != 1 {
			return "bad-op"
		}
		var parts []string
		for b := 0; b < int(boson.MaxBins); b++ {
			ps := k.ConnectedPeers().BinPeers(uint8(b))
			if len(ps) > 0 {
				parts = append(parts, fmt.Sprintf("%d:%s", b, JoinAddrs(ps)))
			}
		}
		if len(parts) == 0 {
			return "-"
		}
		return strings.Join(parts, ";")
	case "closest":
		if len(op) != 5 || (op[2] != "0" && op[2] != "1") || (op[3] != "0" && op[3] != "1") {
			return "bad-op"
		}
		t, ok := ParseAddr(op[1])
		skip, ok2 := ParseList(op[4])
		if !ok || !ok2 {
			return "bad-op"
		}
		p, err := k.ClosestPeer(t, op[2] == "1", topology.Filter{Reachable: op[3] == "1"}, skip...)
		switch {
		case err == nil:
			return core.Hex(p.Bytes())
		case errors.Is(err, topology.ErrWantSelf):
			return "self"
		case errors.Is(err, topology.ErrNotFound):
			return "notfound"
		}
		return "err"
	case "closestn":
		if len(op) != 5 || (op[3] != "0" && op[3] != "1") {
			return "bad-op"
		}
		t, ok := ParseAddr(op[1])
		n, err := strconv.Atoi(op[2])
		skip, ok2 := ParseList(op[4])
		if !ok || !ok2 || err != nil || n < 0 || n > 1000 {
			return "bad-op"
		}
		ps, e := k.ClosestPeers(t, n, topology.Filter{Reachable: op[3] == "1"}, skip...)
		if e != nil {
			return "err"
		}
		return JoinAddrs(ps)
	}
	return "bad-op"
}

// ---------------------------------------------------------------------------------------------
// Independent (closed-form) helpers for the oracles.  They are NOT transcriptions of
// recalcDepth: they evaluate the property's predicates on per-bin counts.

// Proximity order of two equal-length addresses: number of leading equal bits, capped at MaxPO,
// looking at the first four bytes only (computed bit by bit here, independently of boson.Proximity).
func PO(a, b []byte) int {
	n := 0
	for i := 0; i < 4 && i < len(a) && i < len(b); i++ {
		for j := 7; j >= 0; j-- {
			if (a[i]>>uint(j))&1 != (b[i]>>uint(j))&1 {
				return n
			}
			n++
			if n >= int(boson.MaxPO) {
				return int(boson.MaxPO)
			}
		}
	}
	return int(boson.MaxPO)
}

// SpecDepth is the depth the property text pins down once "shallowest unsaturated bin" is read as
// "first bin with fewer than quick reachable peers": min(radius, that bin, bin of the nn-th
// reachable peer counted from the deepest bin), and 0 when there are at most nn peers.
func SpecDepth(reach, total [32]int, radius, quick int) int {
	n := 0
	for _, t := range total {
		n += t
	}
	if n <= NNLowWatermark {
		return 0
	}
	su := 31
	for b := 0; b < 32; b++ {
		if reach[b] < quick {
			su = b
			break
		}
	}
	cand, c := 0, 0
	for b := 31; b >= 0; b-- {
		c += reach[b]
		if c >= NNLowWatermark {
			cand = b
			break
		}
	}
	d := su
	if cand < d {
		d = cand
	}
	if radius < d {
		d = radius
	}
	return d
}

// XorLess reports whether a is strictly XOR-nearer to t than b (big-endian integer order of a^t vs b^t).
func XorLess(t, a, b []byte) bool {
	for i := range t {
		if i >= len(a) || i >= len(b) {
			return false
		}
		x, y := a[i]^t[i], b[i]^t[i]
		if x != y {
			return x < y
		}
	}
	return false
}

// ---------------------------------------------------------------------------------------------
// Generator helpers.

// AddrInBin returns an address of len(base) bytes whose proximity order to base is exactly bin
// (0..31); bits after the deciding bit are random.  For bin 31 half of the addresses share all
// 32 inspected bits with base (Proximity then answers MaxPO as well).  len(base) must be >= 5.
func AddrInBin(r *core.Rand, base []byte, bin int) []byte {
	a := r.Bytes(len(base))
	if bin > 31 {
		bin = 31
	}
	keep := bin // number of leading bits copied from base
	flip := true
	if bin == 31 && r.Bool() {
		keep, flip = 32, false
	}
	for i := 0; i < keep; i++ {
		m := byte(1) << uint(7-i%8)
		a[i/8] = a[i/8]&^m | base[i/8]&m
	}
	if flip {
		m := byte(1) << uint(7-bin%8)
		a[bin/8] = a[bin/8]&^m | (^base[bin/8])&m
	}
	return a
}

// Universe makes n distinct addresses (none equal to base) spread over the given bins.
func Universe(r *core.Rand, base []byte, bins []int, n int) [][]byte {
	seen := map[string]bool{string(base): true}
	var out [][]byte
	for tries := 0; len(out) < n && tries < 50*n+50; tries++ {
		a := AddrInBin(r, base, bins[r.Intn(len(bins))])
		if !seen[string(a)] {
			seen[string(a)] = true
			out = append(out, a)
		}
	}
	return out
}

func HexList(as [][]byte) string {
	if len(as) == 0 {
		return "-"
	}
	ss := make([]string, len(as))
	for i, a := range as {
		ss[i] = core.Hex(a)
	}
	return strings.Join(ss, ",")
}
