// Package c02: correspondence + oracles for "the content reference is the Aurora tree hash of the
// bytes alone" (pkg/file/pipeline feeder + hashtrie via builder; file.ChunkPipe + FeedPipeline).
package c02

import (
	"fmt"

	"verifharness/core"
	fc "verifharness/props/filecommon"
)

type prop struct{}

func init() { core.Register(prop{}) }

func (prop) ID() string       { return "C02" }
func (prop) New() core.Runner { return fc.New("C02") }
func (prop) Rule() string {
	return "cases: `new` (builder.NewPipelineBuilder, real constants C=262144 B=8192), `new pipe` (same through file.ChunkPipe + builder.FeedPipeline; the model side runs Aurora.ChunkPipe — buffer, cursor, Write, Close — in front of the pipeline model and both sides report the number and a chained digest of the pieces that left the pipe; dedicated `pp*` / `fix-pipe-*` cases write 2..6 pieces drawn from short (1..C-1, stay buffered) and long (C..2.5C) lengths in the orders short-long, long-short-long, short-short-long-short, long-long-short, short-long-short-long, random, with zero-length writes interleaved, or one source in C+1 / C-1 / C / 1.5C / 2C+1 / random pieces behind a short first write, every write with its own non-periodic source; direct oracle: the bytes read out of the pipe are the bytes written, in order, and only the last piece is shorter than C) or " +
		"`new feed <shape>` (the written bytes reach builder.FeedPipeline at `sum` through a reader of that shape: bytes.Reader, iotest.DataErrReader = last bytes TOGETHER with io.EOF in 1 KiB pieces, chunk<k> = k-byte pieces with io.EOF on the last, OneByteReader, HalfReader, HalfReader over DataErrReader; every Read result is annotated, the model checks it is admissible and runs Aurora.FeedPipeline.writes; oracle feedpipeline-bytes-dropped: the bytes handed to the pipeline are the bytes the reader delivered), " +
		"`parup reps src…` (concurrent uploads sharing the process-wide BMT pool: uploader 1 stores a 2..4-chunk content reps = 8..14 times while 12 uploaders keep storing a 50-byte content and one a <= 1-chunk content; every reference must equal the independent format implementation's — par-ref-not-format-hash — and the sequential model's; 40 s watchdog par-hang; these cases run last), or " +
		"`new small c b` (the same feeder/bmt/store/hashtrie writers assembled with chunk size c in {32,64,96,100} and branching b in {2,3,4,5,8}: trees up to the 8-level limit, " +
		"chunk counts b^k-1, b^k, b^k+1, and 2^7+1 chunks for the trie-full error); content lengths 0,1,31..33,63..65,127..129,4095..4097, C-1,C,C+1,2C-1,2C,2C+1,3C, random; " +
		"segmentations: one write, fixed pieces 1/7/31/32/33/1000/4096/C/C+1/3C/random, random cuts with zero-length writes, cuts next to chunk boundaries; then `sum`. " +
		"Model side also evaluates the independent format specification (Spec.root) and runs the literal buffer-and-cursor model of the hash-trie writer next to the list model (BUF-LIST-MISMATCH if they differ); in `new small` mode the answers carry the writer's cursors[1..8], full flag and a digest of buffer[0:cursors[1]] after every ChainWrite and after Sum (real writer: verif hook hashtrie.VerifPeek; model: Aurora.HashTrieBuf), incl. fixed cases with the real constants (`new small 262144 8192`), B=128 and B=16. Go oracle: independent Go implementation of the format (own BMT over sha3), same bytes in one write give the same reference, every Put is cac.Valid; pipe mode: chunkpipe-bytes-reordered / -lost-or-added / chunkpipe-short-piece-not-last. " +
		"`leaves n span seed` (only in `new small`): n ChainWrite calls on the REAL hash-trie writer itself with Span = le64(span) and the i-th 32-byte piece of genBytes(seed) as reference (no data: spans of 2^32 and more cost nothing), `sum` then is the writer's own Sum (feeder bypassed); the model side feeds the same leaves to the list model and the literal cursor model and evaluates rootG over the leaf entries as specification; fixed cases fix-span-4gib (totals exactly 2^32 at the root, at level 2, 2^33 with a carried leaf) and fix-span-4gib-plus-chunk (2^32 + C; 129 leaves of 2^25 with the real chunk size and B=128; 2^63+2^63 = uint64 wrap-around to 0; malformed), spx-b-j±1 (b in {2,4,8}, leaf span 2^32/b^j, b^j-1 / b^j / b^j+1 leaves: the sum reaches 2^32 when level j is wrapped, j up to 7), sp* (leaf spans c, 2^20, 2^28, 2^31, 2^32-1, 2^32, 2^32+1, 2^40, 2^62, random; n around b^k incl. the trie-full error; whole chunks written first; a last smaller leaf); totals stay below 2^64 except in the fixed wrap-around case. Go oracle in every `new small` case (trie-intermediate-span-not-children-sum, trie-root-span-not-leaf-sum, trie-chunk-missing): the span header of every stored intermediate chunk is the uint64 sum of its children's spans and the root's is the sum of the leaf spans the writer was given. " +
		"Non-trivial: summed content of >= 2 chunks or written in >= 2 writes; distinct by op-list hash. Real-constant multi-chunk cases are limited in number (Lean-side hashing cost)."
}

func pick64(r *core.Rand, xs []uint64) uint64 { return xs[r.Intn(len(xs))] }

func pow(b, k int) int {
	p := 1
	for i := 0; i < k; i++ {
		p *= b
	}
	return p
}

func (prop) Gen(r *core.Rand, tier string) []core.Case {
	nSmall, nMed, nBig, nTiny, nPipe, nFeed, nPar, nSpan := 110, 10, 7, 90, 16, 16, 0, 30
	if tier == "thorough" {
		nSmall, nMed, nBig, nTiny, nPipe, nFeed, nPar, nSpan = 600, 60, 20, 700, 150, 150, 6, 300
	}
	C := fc.C
	cs := []core.Case{
		// seeded change C08-3 (wrapFullLevel wrote the summed span of an intermediate chunk with PutUint32): spans of
		// 2^32 and more, reached without data by `leaves n span seed` = n ChainWrite calls on the real hash-trie writer
		{ID: "fix-span-4gib", NT: true, Ops: []string{
			"new small 64 4", "leaves 4 1073741824 1", "sum", // root over 4 leaves of 2^30: total exactly 2^32
			"new small 64 2", "leaves 4 1073741824 2", "sum", // two levels: 2^31 + 2^31
			"new small 64 4", "leaves 16 268435456 3", "sum", // level 2 full: 4 x (4 x 2^28)
			"new small 64 2", "leaves 2 4294967295 4", "leaves 1 2 4", "sum"}}, // (2^32-1) + (2^32-1), carried 2: 2^33
		{ID: "fix-span-4gib-plus-chunk", NT: true, Ops: []string{
			"new small 64 4", "leaves 4 1073741824 5", fmt.Sprintf("leaves 1 %d 6", C), "sum", // 2^32 + C
			fmt.Sprintf("new small %d 128", C), fmt.Sprintf("leaves 129 %d 7", 128*C), "sum", // (128+1) x 2^25 = 2^32 + 2^25, real chunk size
			"new small 64 2", "leaves 2 9223372036854775808 8", "sum", // 2^63 + 2^63: the uint64 sum wraps to 0
			"new small 64 2", "leaves 3 9223372036854775808 9", "leaves 1 5 9", "sum",
			"new", "leaves 1 1 1", "new small 64 2", "leaves 0 1 1", "leaves 1 18446744073709551616 1", "leaves 1 1 4294967296", "leaves 1 18446744073709551615 1", "sum", "leaves 1 1 1"}},
		{ID: "fix-selftest", Ops: []string{"selftest h:-", "selftest g:1:100", "selftest g:2:5000", fmt.Sprintf("selftest p:3:%d:1000", C)}},
		{ID: "fix-empty", NT: true, Ops: []string{"new", "sum", "new", "write h:-", "write h:-", "sum", "new pipe", "sum"}},
		{ID: "fix-protocol", Ops: []string{"write h:00", "sum", "open", "new", "write h:00", "sum", "sum", "write h:01", "new small 0 2", "new small 64 1", "frob"}},
		{ID: "fix-chunk-boundary", NT: true, Ops: []string{"new", fmt.Sprintf("write p:7:%d:4096", C), "write h:ab", "sum",
			"new", fmt.Sprintf("writeseg p:7:%d:4096 %d", C, C-1), "write h:ab", "sum", "new pipe", fmt.Sprintf("write p:7:%d:4096", C-5), fmt.Sprintf("write p:7:%d:4096", 5), "sum"}},
		{ID: "fix-trie-full", NT: true, Ops: []string{"new small 32 2", "writeseg g:5:4096 32", "sum", "new small 32 2", "writeseg g:5:4097 33", "sum", "new small 32 2", "writeseg g:5:4128 32", "write h:01", "sum"}},
		// cursor machine: real constants through the observable small assembly (cursors compared after every ChainWrite/Sum),
		// a wide level (B=128: cursor values up to 128*40), three wrapped levels with B=16, carry into a full level (B=3)
		{ID: "fix-cursors-real", NT: true, Ops: []string{fmt.Sprintf("new small %d 8192", C), fmt.Sprintf("write p:11:%d:4096", 2*C+5), "write h:abcd", "sum",
			fmt.Sprintf("new small %d 8192", C), "write h:01", "sum"}},
		{ID: "fix-cursors-wide", NT: true, Ops: []string{"new small 32 128", "writeseg g:3:4128 32", "sum", "new small 32 128", "writeseg g:3:4096 1000", "sum",
			"new small 32 16", "writeseg g:4:131104 4096", "sum"}},
		{ID: "fix-cursors-carry-full", NT: true, Ops: []string{"new small 32 3", "writeseg g:6:352 32", "sum", "new small 32 3", "writeseg g:6:864 32", "sum",
			"new small 32 2", "writeseg g:6:96 32", "sum", "new small 32 2", "writeseg g:6:4064 32", "sum"}},
		{ID: "fix-carry", NT: true, Ops: []string{"new small 64 4", "writeseg g:9:1088 64", "sum", "new small 64 4", "write g:9:1088", "sum", "new small 64 4", "writeseg g:9:1025 7", "sum"}},
	}
	// file.ChunkPipe (seeded change C02-3: whole chunks of a write overtook the buffered bytes of an earlier
	// short write): a short write then >= one chunk, chunk-short-chunk, a write spanning several chunks
	// after a partial buffer, a write that leaves exactly one chunk buffered, writeseg pieces of C+1 / C-1.
	// Every write has its own source so that no reordering maps the content onto itself.
	pipeCase := func(id string, lens ...int) {
		c := core.Case{ID: id, NT: true, Ops: []string{"new pipe"}}
		for i, n := range lens {
			if n == 0 {
				c.Ops = append(c.Ops, "write h:-")
			} else {
				c.Ops = append(c.Ops, fmt.Sprintf("write g:%d:%d", 7000+31*len(cs)+i, n))
			}
		}
		c.Ops = append(c.Ops, "sum")
		cs = append(cs, c)
	}
	pipeCase("fix-pipe-short-then-chunk", 100, C)
	pipeCase("fix-pipe-chunk-short-chunk", C, 2, C)
	pipeCase("fix-pipe-short-then-chunks", 10, 2*C+5, 7)
	pipeCase("fix-pipe-chunk-left-buffered", 2*C)
	pipeCase("fix-pipe-chunk-left-buffered-then-byte", 2*C, 1)
	pipeCase("fix-pipe-fill-to-boundary", C-1, 1, C, 0, 1)
	pipeCase("fix-pipe-halves-then-two-chunks", C/2, C/2, C/2, 2*C)
	cs = append(cs, core.Case{ID: "fix-pipe-writeseg", NT: true, Ops: []string{"new pipe", fmt.Sprintf("writeseg g:81:%d %d", 3*C, C+1), "sum",
		"new pipe", "write h:aabbcc", fmt.Sprintf("writeseg g:82:%d %d", 2*C+9, C), "sum", "new pipe", fmt.Sprintf("writeseg g:83:%d %d", 2*C, C-1), "sum"}})
	// builder.FeedPipeline with a reader that reports io.EOF together with its last bytes (C02-5)
	cs = append(cs, core.Case{ID: "fix-feed-data-with-eof", NT: true, Ops: []string{
		"new feed dataerr", "write g:91:5000", "sum",
		"new feed chunk4096", "write g:92:10000", "sum",
		"new feed dataerr", "sum",
		"new feed dataerr", "write h:ab", "sum",
		fmt.Sprintf("new feed chunk%d", C), fmt.Sprintf("write g:93:%d", 2*C+5), "sum",
		fmt.Sprintf("new feed chunk%d", C), fmt.Sprintf("write g:94:%d", 2*C), "sum",
		"new feed dataerr", fmt.Sprintf("write g:95:%d", C+100), "sum",
		"new feed plain", "write g:91:5000", "sum",
		"new feed one", "write g:96:700", "sum",
		"new feed half", fmt.Sprintf("write g:97:%d", C+3), "sum",
		"new feed halfdataerr", "write g:98:4097", "sum",
		"new feed nosuchshape", "new feed chunk0"}})
	add := func(id string, total int, head string) {
		c := core.Case{ID: id, Ops: []string{head}}
		w := fc.Writes(r, total)
		c.Ops = append(c.Ops, w...)
		c.Ops = append(c.Ops, "sum")
		c.NT = total > C || len(w) > 1 || (len(w) == 1 && w[0][:8] == "writeseg")
		cs = append(cs, c)
	}
	for i := 0; i < nSmall; i++ {
		head := "new"
		if r.Chance(20) {
			head = "new pipe"
		}
		add(fmt.Sprintf("s%d", i), fc.Length(r, 0, 0), head)
	}
	for i := 0; i < nMed; i++ {
		add(fmt.Sprintf("m%d", i), fc.Length(r, 1, 0), "new")
	}
	for i := 0; i < nBig; i++ {
		head := "new"
		if r.Chance(25) {
			head = "new pipe"
		}
		add(fmt.Sprintf("b%d", i), fc.Length(r, 2, 4*C), head)
	}
	// file.ChunkPipe with rich segmentations: 2..6 writes drawn from short (stay in the buffer) and long
	// (>= one chunk) lengths in the orders short-long, long-short-long, short-short-long, long-long, …
	// (total <= ~5 chunks), or one source cut into C+1 / C-1 / C / C+C/2 / 2C+1 / random pieces behind a short first write
	for i := 0; i < nPipe; i++ {
		c := core.Case{ID: fmt.Sprintf("pp%d", i), NT: true, Ops: []string{"new pipe"}}
		short := func() int {
			return r.Pick([]int{1, 2, 7, 10, 100, 4096, C / 2, C - 1, C - 7, r.Range(1, C-1), r.Range(1, 300)})
		}
		long := func() int {
			return r.Pick([]int{C, C, C + 1, C + 5, 2*C - 1, 2 * C, 2*C + 1, 2*C + 5, r.Range(C, 2*C+C/2)})
		}
		wr := func(n int) {
			if n == 0 {
				c.Ops = append(c.Ops, "write h:-")
			} else {
				c.Ops = append(c.Ops, "write "+fc.Src(r, n, true))
			}
		}
		if r.Chance(25) {
			if r.Chance(70) {
				wr(short())
			}
			k := r.Pick([]int{C + 1, C - 1, C, C + C/2, 2*C + 1, r.Range(C/2, 2*C)})
			c.Ops = append(c.Ops, fmt.Sprintf("writeseg g:%d:%d %d", r.Intn(100000), r.Range(2*C, 4*C), k))
		} else {
			pat := r.Pick([]int{0, 0, 1, 2, 3, 4, 5})
			var seq []int
			switch pat {
			case 0:
				seq = []int{short(), long()}
			case 1:
				seq = []int{long(), short(), long()}
			case 2:
				seq = []int{short(), short(), long(), short()}
			case 3:
				seq = []int{long(), long(), short()}
			case 4:
				seq = []int{short(), long(), short(), long()}
			default:
				for j, n := 0, r.Range(2, 6); j < n; j++ {
					if r.Chance(45) {
						seq = append(seq, long())
					} else {
						seq = append(seq, short())
					}
				}
			}
			tot := 0
			for _, n := range seq {
				if tot+n > 5*C {
					n = short()
				}
				tot += n
				wr(n)
				if r.Chance(10) {
					wr(0)
				}
			}
		}
		c.Ops = append(c.Ops, "sum")
		cs = append(cs, c)
	}
	// builder.FeedPipeline over readers of different shapes (seeded change C02-5: the bytes a reader returns
	// together with io.EOF were dropped): plain, data-with-EOF (iotest.DataErrReader, 1 KiB pieces; chunk<k>: k-byte
	// pieces, the last one with io.EOF), one-byte, half, half over data-with-EOF
	for i := 0; i < nFeed; i++ {
		shape := []string{"dataerr", "dataerr", "plain", "one", "half", "halfdataerr", "chunk1", "chunk4096", "chunk1000",
			fmt.Sprintf("chunk%d", C), fmt.Sprintf("chunk%d", C-1), fmt.Sprintf("chunk%d", 2*C)}[r.Intn(12)]
		total := fc.Length(r, 0, 0)
		switch {
		case shape == "one" || shape == "chunk1":
			if total > 3000 {
				total = r.Range(1, 3000)
			}
		case i%4 == 0:
			total = fc.Length(r, 2, 3*C)
		case i%4 == 1:
			total = fc.Length(r, 1, 0)
		}
		add(fmt.Sprintf("fd%d", i), total, "new feed "+shape)
		cs[len(cs)-1].NT = true
	}
	// small-parameter instances: deep trees
	for i := 0; i < nTiny; i++ {
		c := r.Pick([]int{32, 64, 96, 100})
		b := r.Pick([]int{2, 2, 3, 4, 4, 5, 8})
		maxk := 7
		for pow(b, maxk) > 2600 {
			maxk--
		}
		k := r.Range(1, maxk)
		n := pow(b, k) + r.Pick([]int{-1, 0, 0, 1, 1, 2})
		if r.Chance(35) {
			n = r.Range(1, pow(b, maxk)+1)
		}
		if b == 2 && r.Chance(15) {
			n = r.Pick([]int{127, 128, 129, 130})
		}
		if n < 1 {
			n = 1
		}
		total := n*c + r.Pick([]int{0, 0, 0, 1, -1, c / 2, -(c / 2)})
		if total < 0 {
			total = 0
		}
		cse := core.Case{ID: fmt.Sprintf("t%d", i), NT: true, Ops: []string{fmt.Sprintf("new small %d %d", c, b)}}
		switch r.Intn(4) {
		case 0:
			cse.Ops = append(cse.Ops, fmt.Sprintf("write g:%d:%d", r.Intn(100000), total))
		case 1:
			cse.Ops = append(cse.Ops, fmt.Sprintf("writeseg g:%d:%d %d", r.Intn(100000), total, r.Pick([]int{c, c - 1, c + 1, 3 * c, 7, 1000})))
		default:
			left := total
			for left > 0 {
				n := r.Range(0, 4*c)
				if r.Chance(30) {
					n = r.Range(0, left)
				}
				if n > left {
					n = left
				}
				cse.Ops = append(cse.Ops, fmt.Sprintf("write g:%d:%d", r.Intn(100000), n))
				left -= n
				if len(cse.Ops) > 60 {
					cse.Ops = append(cse.Ops, fmt.Sprintf("write g:%d:%d", r.Intn(100000), left))
					left = 0
				}
			}
		}
		cse.Ops = append(cse.Ops, "sum")
		cs = append(cs, cse)
	}
	// spans beyond 2^32 (seeded change C08-3): `leaves` on the real hash-trie writer.  (a) the sum crosses 2^32 exactly
	// when a group of level j is wrapped: branching b in {2,4,8}, leaf span 2^32 / b^j, b^j - 1 / b^j / b^j + 1 leaves
	// (+ sometimes a last smaller leaf); (b) random: leaf spans c, 2^20, 2^28, 2^31, 2^32-1, 2^32, 2^32+1, 2^40, 2^62, random;
	// n around b^k; optionally whole chunks written through the pipeline first and a last leaf with a smaller span
	span := func(id string, c, b int, ops ...string) {
		cse := core.Case{ID: id, NT: true, Ops: []string{fmt.Sprintf("new small %d %d", c, b)}}
		cse.Ops = append(cse.Ops, ops...)
		cse.Ops = append(cse.Ops, "sum")
		cs = append(cs, cse)
	}
	for _, bj := range [][2]int{{2, 1}, {2, 2}, {2, 3}, {2, 4}, {2, 5}, {2, 6}, {2, 7}, {4, 1}, {4, 2}, {4, 3}, {4, 4}, {4, 5}, {8, 1}, {8, 2}, {8, 3}} {
		b, j := bj[0], bj[1]
		leaf := uint64(1<<32) / uint64(pow(b, j))
		for _, d := range []int{-1, 0, 1} {
			if tier != "thorough" && d != 0 && r.Chance(50) {
				continue
			}
			ops := []string{fmt.Sprintf("leaves %d %d %d", pow(b, j)+d, leaf, r.Intn(1<<30))}
			if r.Chance(40) {
				ops = append(ops, fmt.Sprintf("leaves 1 %d %d", r.Range(1, 64), r.Intn(1<<30)))
			}
			span(fmt.Sprintf("spx-%d-%d%+d", b, j, d), 64, b, ops...)
		}
	}
	for i := 0; i < nSpan; i++ {
		c := r.Pick([]int{32, 64})
		b := r.Pick([]int{2, 2, 3, 4, 5, 8})
		maxk := 7
		for pow(b, maxk) > 1100 {
			maxk--
		}
		n := pow(b, r.Range(1, maxk)) + r.Pick([]int{-1, 0, 0, 1})
		if r.Chance(25) {
			n = r.Range(1, pow(b, maxk)+1)
		}
		if n < 1 {
			n = 1
		}
		leaf := pick64(r, []uint64{uint64(c), 1 << 20, 1 << 28, 1 << 31, 1<<32 - 1, 1 << 32, 1<<32 + 1, 1 << 40, 1 << 62, uint64(r.Intn(1 << 31)), uint64(r.Intn(1<<31)) << 20})
		var ops []string
		if r.Chance(20) {
			ops = append(ops, fmt.Sprintf("write g:%d:%d", r.Intn(100000), c*r.Range(1, 2*b)))
		}
		if r.Chance(30) && n > 2 {
			k := r.Range(1, n-1)
			ops = append(ops, fmt.Sprintf("leaves %d %d %d", k, leaf, r.Intn(1<<30)))
			n -= k
			if r.Chance(50) {
				leaf = pick64(r, []uint64{uint64(c), 1 << 31, 1 << 32, 1 << 33})
			}
		}
		ops = append(ops, fmt.Sprintf("leaves %d %d %d", n, leaf, r.Intn(1<<30)))
		if r.Chance(40) {
			ops = append(ops, fmt.Sprintf("leaves 1 %d %d", r.Range(1, c), r.Intn(1<<30)))
		}
		span(fmt.Sprintf("sp%d", i), c, b, ops...)
	}
	// concurrent uploads (seeded change C02-4: the pipeline's bmt writer returned its hasher to the process-wide
	// pool before Hash had finished): one uploader stores a 4-chunk content several times while twelve others keep
	// storing a 50-byte content (single-section chunks cycle through the pool quickly); every reference must be the
	// sequential one.  These cases come LAST: a code change that wedges a pooled BMT tree must not take the
	// remaining cases of the run with it (watchdog 40 s, clause par-hang).
	small := "h:" + core.Hex(core.GenBytes(4242, 50, 0))
	par := func(id string, reps int, big ...string) {
		ops := fmt.Sprintf("parup %d %s", reps, big[0])
		for i := 0; i < 12; i++ {
			ops += " " + small
		}
		for _, b := range big[1:] {
			ops += " " + b
		}
		cs = append(cs, core.Case{ID: id, NT: true, Ops: []string{ops}})
	}
	par("fix-parallel-uploads", 12, fmt.Sprintf("g:4243:%d", 3*C+12345), "g:4244:137000")
	for i := 0; i < nPar; i++ {
		par(fmt.Sprintf("par%d", i), r.Range(8, 14), fmt.Sprintf("g:%d:%d", r.Intn(100000), r.Range(2*C, 4*C)), fmt.Sprintf("g:%d:%d", r.Intn(100000), r.Range(1, C+5)))
	}
	return cs
}
