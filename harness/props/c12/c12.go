// Package c12: correspondence + model-free oracle for property C12
// (garbage collection never deletes pinned or uploaded chunks) on the node-lite harness.
package c12

import (
	"fmt"
	"strings"

	"verifharness/core"
	"verifharness/nodelite"
)

type prop struct{}

func init() { core.Register(prop{}) }

func (prop) ID() string { return "C12" }
func (prop) Rule() string {
	return "node-lite histories (real localstore + chunkinfo + pinning + traversal + netstore + retrieval + API server, a second real node as peer): 1-3 initial uploads / cached files, " +
		"then 6-16 ops: uploads (45 % pinned) of files with identical content, chunk-aligned prefixes, repeated chunks and directories sharing files; raw /bytes uploads (70 % pinned, not known to chunkinfo); " +
		"files cached from the peer (pyramid exchange + full or partial fetch); pin/unpin through the API; collection runs `gc c` with capacity 0-8 (synchronous, until done); collection runs `gcr c trigger op target` in which a scripted operation (API pin / unpin of a file, read of one of its chunks under the file context) is executed " +
		"inside the run's first DelFile call if that call is for the trigger file — i.e. after the run selected the candidate and before the deletion callback re-checks the dirty addresses — target = the candidate itself, a file sharing chunks with it, a later candidate or any file; in fixed cases `gcr2 c first second` (POST /pins of the first candidate inside the second DelFile call: after its callback, before the commit); read-back. " +
		"Fixed regression histories for every known trigger first. After every op status and full symbolic dump (stored set, pin index, gc index, gcSize, pyramid refcounts, chunkinfo tables, state-store keys, pin list) are compared with the Lean model; " +
		"the oracle compares the pin index before/after every run (for a run with a racing operation: before the run vs right before the operation, and right after the operation vs after the run) and checks Has for every pinned or uploaded chunk. Non-trivial: >=1 executed gc run with a non-empty gc index and >=1 pinned or uploaded chunk stored; distinct by op-list hash."
}

var fixed = []core.Case{
	// pinned raw upload of A; cached file AB lists A with refcount 1 (chunkinfo does not know the raw upload) -> evicting AB deletes A and its pin
	{ID: "fix-raw-pinned-shared-with-cached", NT: true, Ops: []string{"raw A 1", "pup x/AB 0", "pyr x/AB", "fetch x/AB 0 11", "gc 0", "read x/AB"}},
	// uploaded file becomes a gc candidate after pin; unpin
	{ID: "fix-upload-pin-unpin-gc", NT: true, Ops: []string{"up x/a 0", "pin x/a", "unpin x/a", "gc 0", "read x/a"}},
	// pinned cached file: more chunks fetched after the pin re-enter the root into the gc index
	{ID: "fix-cached-pinned-then-fetch", NT: true, Ops: []string{"pup y/ABA 0", "pyr y/ABA", "fetch y/ABA 0 100", "pin y/ABA", "fetch y/ABA 0 010", "gc 0", "read y/ABA"}},
	// uploaded and cached files sharing chunks, both known to chunkinfo: protected by refcounts
	{ID: "fix-upload-and-cache-share", NT: true, Ops: []string{"up x/AB 1", "pup y/ABA 0", "pyr y/ABA", "fetch y/ABA 0 111", "gc 0", "read x/AB", "pins"}},
	// a file cached first and uploaded afterwards keeps its root in the gc index: the run deletes the uploaded chunks (and pins)
	{ID: "fix-cached-then-uploaded", NT: true, Ops: []string{"pup w/c 0", "pyr w/c", "up w/c 0", "gc 1", "read w/c"}},
	{ID: "fix-cached-then-uploaded-pinned", NT: true, Ops: []string{"pup y/a 0", "pyr y/a", "up y/a 1", "gc 1", "read y/a", "pins"}},
	// signature `.after-unpin` on every seed (so far produced only by chance, generated case g23 of seed 1): a pinned upload is unpinned (its root
	// enters the gc index) and evicted; its chunks come back as cache of another file and are evicted again
	{ID: "fix-unpinned-upload-evicted-recached", NT: true, Ops: []string{"up q/b+s/c 1", "unpin q/b+s/c", "gc 3", "pup p/a+q/b+r/c 0", "pyr p/a+q/b+r/c", "fetch p/a+q/b+r/c 0 1", "fetch p/a+q/b+r/c 2 1", "gc 1"}},
	// operations racing with the eviction of the first candidate: they run after the collection entered DelFile for it and before the
	// deletion callback re-checks the dirty addresses under batchMu — the candidate must be skipped, pins and chunks untouched
	{ID: "fix-race-pin-candidate", NT: true, Ops: []string{"pup x/AB 0", "pyr x/AB", "fetch x/AB 0 11", "gcr 0 x/AB pin x/AB -", "read x/AB", "pins", "unpin x/AB"}},
	{ID: "fix-race-pin-candidate-short", NT: true, Ops: []string{"pup w/c 0", "pyr w/c", "gcr 0 w/c pin w/c -", "read w/c", "gc 0"}},
	{ID: "fix-race-get-candidate", NT: true, Ops: []string{"pup x/AB 0", "pyr x/AB", "fetch x/AB 0 11", "gcr 0 x/AB get x/AB d0", "read x/AB", "gc 0"}},
	{ID: "fix-race-pin-later-candidate-sharing", NT: true, Ops: []string{"pup x/AB 0", "pyr x/AB", "fetch x/AB 0 11", "pup y/ABA 0", "pyr y/ABA", "fetch y/ABA 0 111", "gcr 0 x/AB pin y/ABA -", "read y/ABA", "read x/AB", "pins"}},
	{ID: "fix-race-unpin-pinned-candidate", NT: true, Ops: []string{"pup y/ABA 0", "pyr y/ABA", "fetch y/ABA 0 100", "pin y/ABA", "fetch y/ABA 0 010", "gcr 0 y/ABA unpin y/ABA -", "pins", "gc 0"}},
	{ID: "fix-race-pin-uploaded-sharing", NT: true, Ops: []string{"up z/AB 0", "pup x/AB 0", "pyr x/AB", "fetch x/AB 0 11", "gcr 0 x/AB pin z/AB -", "read z/AB", "pins"}},
	{ID: "fix-race-not-first-candidate", NT: true, Ops: []string{"pup w/c 0", "pyr w/c", "pup x/a 0", "pyr x/a", "gcr 0 x/a pin x/a -", "pins"}},
	// trigger 5: POST /pins of a file after its callback decided the deletions and before the run's commit: pin entries stay, chunks go
	{ID: "fix-race-pin-evicted-before-commit", NT: true, Ops: []string{"pup w/c 0", "pyr w/c", "pup x/a 0", "pyr x/a", "gcr2 0 w/c x/a", "pins", "read w/c", "unpin w/c"}},
	{ID: "fix-race-pin-before-commit-not-armed", NT: true, Ops: []string{"pup w/c 0", "pyr w/c", "pup x/a 0", "pyr x/a", "gcr2 0 x/a w/c", "pins"}},
	{ID: "fix-dir-pinned-cache-shares-file", NT: true, Ops: []string{"up p/a+q/b 1", "pup q/b+s/c 0", "pyr q/b+s/c", "fetch q/b+s/c 0 1", "fetch q/b+s/c 1 1", "gc 1", "read p/a+q/b"}},
}

func (prop) Gen(r *core.Rand, tier string) []core.Case {
	n := 80
	if tier == "thorough" {
		n = 450
	}
	cs := append([]core.Case(nil), fixed...)
	for i := 0; i < n; i++ {
		cfg := nodelite.GenConfig{MinOps: 6, MaxOps: 16, PinUploads: 45, Pins: 14, GC: 14, GCRace: 10, Cache: 18, Partial: i%2 == 0, Reads: 6, Raw: 8, Dirs: true, Budget: 7}
		ops := nodelite.GenHistory(r.Fork(), cfg)
		cs = append(cs, core.Case{ID: fmt.Sprintf("g%d", i), NT: nontrivial(ops), Ops: ops})
	}
	return cs
}

func nontrivial(ops []string) bool {
	gc, stored, cached := false, false, false
	for _, o := range ops {
		switch {
		case strings.HasPrefix(o, "gc "), strings.HasPrefix(o, "gcr "), strings.HasPrefix(o, "gcr2 "):
			gc = gc || cached || stored
		case strings.HasPrefix(o, "up ") || strings.HasPrefix(o, "raw "):
			stored = true
		case strings.HasPrefix(o, "fetch ") || strings.HasPrefix(o, "pyr "):
			cached = true
		}
	}
	return gc && stored && cached
}


func (prop) New() core.Runner { return nodelite.NewRunner(nodelite.NewC12Oracle()) }
