import Aurora.Lemmas.MantarayRemove
/-! Persistence: what a reader sees on a (lazily loaded) manifest opened from a stored reference.

* `obs` — the answer of `Lookup` on any node state;
* `obs_lookup` — reads load nodes in place but never change any later answer;
* `obs_saved` — a trie that was built in memory and saved answers, when reopened from the returned
  reference, exactly as it did in memory. -/
namespace Aurora.Mantaray

/-- the answer of the wrapper's `Lookup` (any node state; fuel `f`) -/
def obs (f : Nat) (n : Node) (q : Bytes) : Option (Bytes × Meta) := (lookupNode f n q).2.bind semNode

theorem load_load (n : Node) : n.load.load = n.load := load_stable _ (load_stable' n)

theorem lookupNode_load (f : Nat) (n : Node) (q : Bytes) :
    lookupNode (f + 1) n.load q = lookupNode (f + 1) n q := by
  cases q <;> simp only [lookupNode, load_load]

theorem obs_load (f : Nat) (n : Node) (q : Bytes) : obs f n.load q = obs f n q := by
  cases f with
  | zero => rfl
  | succ f => unfold obs; rw [lookupNode_load]

/-- unfolding `obs` on a node that needs no loading -/
theorem obs_cons (f : Nat) (n : Node) (hst : n.loaded = true ∨ n.ref = none) (k : UInt8) (t : Bytes) :
    obs (f + 1) n (k :: t) =
      match findFork n.forks k with
      | none => none
      | some pc => if isPrefix pc.1 (k :: t) then obs f pc.2 ((k :: t).drop pc.1.length) else none := by
  unfold obs
  simp only [lookupNode, load_stable n hst]
  cases hff : findFork n.forks k with
  | none => rfl
  | some pc =>
    obtain ⟨pfx, child⟩ := pc
    simp only
    by_cases hp : isPrefix pfx (k :: t) = true
    · have hc := (common_len_iff pfx (k :: t)).2 hp
      simp only [hc, if_true, hp, common_of_isPrefix _ _ hp]
    · have hc : ¬ (common pfx (k :: t)).length = pfx.length := fun h => hp ((common_len_iff _ _).1 h)
      simp [hc, hp]

theorem obs_nil (f : Nat) (n : Node) : obs (f + 1) n [] = semNode n.load := by
  unfold obs; simp [lookupNode]

theorem semNode_load_setForks (n : Node) (fs) : semNode (n.setForks fs) = semNode n := semNode_setForks n fs

/-- the node a `Lookup` leaves behind is stable and keeps the own answer -/
theorem lookupNode_fst (f : Nat) (n : Node) (q : Bytes) :
    ((lookupNode (f + 1) n q).1.loaded = true ∨ (lookupNode (f + 1) n q).1.ref = none) ∧
    semNode (lookupNode (f + 1) n q).1 = semNode n.load := by
  have hst := load_stable' n
  cases q with
  | nil => exact ⟨by simpa [lookupNode] using hst, by simp [lookupNode]⟩
  | cons k t =>
    simp only [lookupNode]
    cases findFork n.load.forks k with
    | none => exact ⟨hst, rfl⟩
    | some pc =>
      obtain ⟨pfx, child⟩ := pc
      simp only
      by_cases hc : (common pfx (k :: t)).length = pfx.length
      · simp only [hc, if_true]
        refine ⟨?_, semNode_setForks _ _⟩
        rw [setForks_loaded, setForks_ref]; exact hst
      · simp only [hc, if_false]
        exact ⟨hst, trivial⟩

/-- Reads never change a later answer: after `Lookup q` (which loads nodes in place) every lookup
    answers as it would have before. -/
theorem obs_lookup : ∀ (f2 : Nat) (n : Node) (f : Nat) (q q2 : Bytes),
    obs f2 (lookupNode f n q).1 q2 = obs f2 n q2 := by
  intro f2
  induction f2 with
  | zero => intro n f q q2; rfl
  | succ f2 ih =>
    intro n f q q2
    cases f with
    | zero => rfl
    | succ f =>
      obtain ⟨hst, hsn⟩ := lookupNode_fst f n q
      cases q2 with
      | nil => rw [obs_nil, obs_nil, load_stable _ hst, hsn]
      | cons k2 t2 =>
        rw [← obs_load (f2 + 1) n, obs_cons f2 _ hst, obs_cons f2 _ (load_stable' n)]
        cases q with
        | nil => simp only [lookupNode]
        | cons k t =>
          simp only [lookupNode]
          cases hff : findFork n.load.forks k with
          | none => rfl
          | some pc =>
            obtain ⟨pfx, child⟩ := pc
            simp only
            by_cases hc : (common pfx (k :: t)).length = pfx.length
            · simp only [hc, if_true]
              have hh := findFork_some_head hff
              simp only at hh
              rw [setForks_forks]
              by_cases hk : k2 = k
              · subst hk
                rw [findFork_setFork_same _ _ _ hh, hff]
                simp only
                by_cases hp2 : isPrefix pfx (k2 :: t2) = true
                · simp only [hp2, if_true]
                  exact ih _ _ _ _
                · simp [hp2]
              · rw [findFork_setFork_other _ _ _ _ hh hk]
            · simp only [hc, if_false]

/-! ## saving a trie that was built in memory -/

/-- a trie built in memory and never saved: loaded, `ref = nil` everywhere, and metadata only on
    nodes flagged with-metadata -/
inductive Fresh : Node → Prop
  | mk (v w : Bool) (e : Bytes) (m : Meta) (f : List (Bytes × Node)) :
      (w = false → m = []) → (∀ pc ∈ f, Fresh pc.2) → Fresh (.mk v w none e m true f)

theorem Fresh.mem {n : Node} (h : Fresh n) : Mem n := by
  induction h with
  | mk v w e m f _ _ ih => exact Mem.mk _ _ _ _ _ _ ih

theorem Fresh.new : Fresh Node.new := Fresh.mk _ _ _ _ [] (fun _ => rfl) (by simp)

theorem Fresh.setEntry {n : Node} (h : Fresh n) (e : Bytes) (md : Meta) : Fresh (n.setEntry e md) := by
  cases h with
  | mk v w e0 m f hw hf =>
    simp only [Node.setEntry]
    split
    · exact Fresh.mk _ _ _ _ _ hw hf
    · exact Fresh.mk _ _ _ _ _ (by simp) hf

theorem Fresh.setForks {n : Node} (h : Fresh n) (fs : List (Bytes × Node)) (hfs : ∀ pc ∈ fs, Fresh pc.2) :
    Fresh (n.setForks fs) := by
  cases h with
  | mk v w e m f hw hf => exact Fresh.mk _ _ _ _ _ hw hfs

theorem Fresh.child {n : Node} (h : Fresh n) {pc : Bytes × Node} (hpc : pc ∈ n.forks) : Fresh pc.2 := by
  cases h with
  | mk v w e m f hw hf => exact hf pc hpc

/-- `Add` keeps a trie fresh -/
theorem fresh_add (e : Bytes) (md : Meta) : ∀ (fa : Nat) (n : Node) (p : Bytes) (n' : Node), Fresh n →
    add fa n p e md = some n' → Fresh n' := by
  intro fa
  induction fa with
  | zero => intro n p n' h hadd; simp only [add, Option.some.injEq] at hadd; subst hadd; exact h
  | succ fa ih =>
    intro n p n' hfr hadd
    have hm := hfr.mem
    cases p with
    | nil => simp only [add, Option.some.injEq] at hadd; subst hadd; exact hfr.setEntry e md
    | cons k t =>
      simp only [add, hm.loaded, if_true] at hadd
      have key : ∀ (nn0 : Node) (sp c : Bytes), Fresh nn0 →
          (match add fa nn0 sp e md with
            | none => none
            | some nn => some (n.setForks (setFork n.forks k (c, nn)))) = some n' → Fresh n' := by
        intro nn0 sp c h0 hh
        cases hnn : add fa nn0 sp e md with
        | none => rw [hnn] at hh; exact absurd hh (by simp)
        | some nn =>
          rw [hnn] at hh
          simp only [Option.some.injEq] at hh
          subst hh
          exact hfr.setForks _ (mem_setFork (P := fun pc => Fresh pc.2) (fun pc hpc => hfr.child hpc)
            (ih nn0 sp nn h0 hnn))
      cases hff : findFork n.forks k with
      | none =>
        simp only [hff, hm.loaded, Bool.not_true, Bool.false_eq_true, if_false] at hadd
        split at hadd
        · exact key _ _ _ Fresh.new hadd
        · simp only [Option.some.injEq] at hadd
          subst hadd
          exact hfr.setForks _ (mem_setFork (P := fun pc => Fresh pc.2) (fun pc hpc => hfr.child hpc)
            (Fresh.new.setEntry e md))
      | some pc =>
        obtain ⟨pfx, child⟩ := pc
        have hfc : Fresh child := hfr.child (findFork_mem hff)
        simp only [hff] at hadd
        refine key _ _ _ ?_ hadd
        split
        · exact hfc
        · exact Fresh.mk _ _ _ _ _ (fun _ => rfl) (by intro pc hpc; simp at hpc; subst hpc; exact hfc)

/-- the unloaded node `UnmarshalBinary` creates for a fork record -/
def mkChild (x : Bytes × Bool × Bool × Meta × PTree) : Bytes × Node :=
  (x.1, Node.mk x.2.1 x.2.2.1 (some x.2.2.2.2) [] x.2.2.2.1 false [])

theorem load_unloaded (v w : Bool) (pe : Bytes) (pfs) (e0 : Bytes) (m : Meta) (f0) :
    (Node.mk v w (some (PTree.mk pe pfs)) e0 m false f0).load =
      Node.mk v w (some (PTree.mk pe pfs)) pe m true (pfs.map mkChild) := rfl

/-- `save` of a fresh node -/
theorem save_fresh_eq (v w : Bool) (e : Bytes) (m : Meta) (f : List (Bytes × Node)) :
    save (.mk v w none e m true f) =
      match saveForks f with
      | none => none
      | some fs =>
        match blobForks fs with
        | none => none
        | some pfs => some (.mk v w (some (.mk e pfs)) e m false []) := by
  rw [save]
  cases saveForks f with
  | none => rfl
  | some fs => simp only [Bool.not_true, Bool.false_eq_true, if_false]; cases blobForks fs <;> rfl

/-- shape of a saved fresh node: flags, entry and metadata stay, the reference denotes the entry and
    the fork records -/
theorem save_fresh_shape {n n1 : Node} (h : Fresh n) (hs : save n = some n1) :
    ∃ pfs fs1, n1 = Node.mk n.value n.withMeta (some (PTree.mk n.entry pfs)) n.entry n.md false [] ∧
      saveForks n.forks = some fs1 ∧ blobForks fs1 = some pfs := by
  cases h with
  | mk v w e m f hw hf =>
    rw [save_fresh_eq] at hs
    cases hsf : saveForks f with
    | none => rw [hsf] at hs; exact absurd hs (by simp)
    | some fs1 =>
      rw [hsf] at hs
      simp only at hs
      cases hbf : blobForks fs1 with
      | none => rw [hbf] at hs; exact absurd hs (by simp)
      | some pfs =>
        rw [hbf] at hs
        simp only [Option.some.injEq] at hs
        exact ⟨pfs, fs1, hs.symm, hsf, hbf⟩

/-- the fork records of the blob mirror the forks of the node -/
theorem forks_corr (k : UInt8) : ∀ (fs fs1 : List (Bytes × Node)) (pfs : List (Bytes × Bool × Bool × Meta × PTree)),
    (∀ pc ∈ fs, Fresh pc.2) → saveForks fs = some fs1 → blobForks fs1 = some pfs →
    match findFork fs k with
    | none => findFork (pfs.map mkChild) k = none
    | some pc => ∃ tc c1, save pc.2 = some c1 ∧ c1.ref = some tc ∧
        findFork (pfs.map mkChild) k =
          some (pc.1, Node.mk pc.2.value pc.2.withMeta (some tc) [] pc.2.md false []) := by
  intro fs
  induction fs with
  | nil =>
    intro fs1 pfs _ hs hb
    simp only [saveForks, Option.some.injEq] at hs
    subst hs
    simp only [blobForks, Option.some.injEq] at hb
    subst hb
    simp [findFork]
  | cons pc rest ih =>
    intro fs1 pfs hfr hs hb
    obtain ⟨p, c⟩ := pc
    have hfc : Fresh c := hfr (p, c) (by simp)
    simp only [saveForks] at hs
    cases hsc : save c with
    | none => simp [hsc] at hs
    | some c1 =>
      cases hsr : saveForks rest with
      | none => simp [hsc, hsr] at hs
      | some rest1 =>
        simp only [hsc, hsr, Option.some.injEq] at hs
        subst hs
        obtain ⟨cpfs, cfs1, hc1, _, _⟩ := save_fresh_shape hfc hsc
        simp only [blobForks] at hb
        have hc1ref : c1.ref = some (PTree.mk c.entry cpfs) := by rw [hc1]; rfl
        cases hbr : blobForks rest1 with
        | none => simp [hc1ref, hbr] at hb
        | some prest =>
          simp only [hc1ref, hbr, Option.some.injEq] at hb
          subst hb
          have ihr := ih rest1 prest (fun x hx => hfr x (by simp [hx])) hsr hbr
          have hmd : (if c1.withMeta = true then c1.md else []) = c.md := by
            cases hfc with
            | mk v w e m f hw hf =>
              rw [hc1]
              simp only [Node.withMeta, Node.md]
              cases w with
              | true => rfl
              | false => simp [hw rfl]
          have hv : c1.value = c.value := by rw [hc1]; rfl
          have hw : c1.withMeta = c.withMeta := by rw [hc1]; rfl
          simp only [List.map_cons, mkChild, findFork, List.find?_cons]
          by_cases hk : (p.head? == some k) = true
          · simp only [hk]
            exact ⟨_, c1, hsc, hc1ref, by rw [hmd, hv, hw]⟩
          · simp only [hk]
            exact ihr

/-- A trie built in memory and saved answers, when opened from the returned reference (any
    unloaded node carrying the same flags / metadata and that reference), as it did in memory. -/
theorem obs_saved : ∀ (f : Nat) (n n1 : Node) (t : PTree), Fresh n → save n = some n1 → n1.ref = some t →
    ∀ (uw : Bool) (ue : Bytes) (uf : List (Bytes × Node)) (q : Bytes), q.length < f →
      obs f (Node.mk n.value uw (some t) ue n.md false uf) q = sem f n q := by
  intro f
  induction f with
  | zero => intro n n1 t _ _ _ uw ue uf q hq; omega
  | succ f ih =>
    intro n n1 t hfr hs hr uw ue uf q hq
    obtain ⟨pfs, fs1, hn1, hsf, hbf⟩ := save_fresh_shape hfr hs
    have ht : t = PTree.mk n.entry pfs := by
      rw [hn1] at hr; simp only [Node.ref, Option.some.injEq] at hr; exact hr.symm
    subst ht
    rw [← obs_load, load_unloaded]
    cases q with
    | nil =>
      rw [obs_nil, sem_nil]
      cases n; rfl
    | cons k rest =>
      rw [obs_cons f _ (Or.inl rfl), sem_cons]
      have hfk : (Node.mk n.value uw (some (PTree.mk n.entry pfs)) n.entry n.md true (pfs.map mkChild)).forks =
          pfs.map mkChild := rfl
      rw [hfk]
      have hcorr := forks_corr k n.forks fs1 pfs (fun pc hpc => hfr.child hpc) hsf hbf
      cases hff : findFork n.forks k with
      | none => rw [hff] at hcorr; simp only at hcorr; rw [hcorr]
      | some pc =>
        rw [hff] at hcorr
        simp only at hcorr
        obtain ⟨tc, c1, hsc, hc1, hfind⟩ := hcorr
        rw [hfind]
        simp only
        by_cases hp : isPrefix pc.1 (k :: rest) = true
        · simp only [hp, if_true]
          have hh := findFork_some_head hff
          have hppos : 0 < pc.1.length := by
            cases hpc1 : pc.1 with
            | nil => rw [hpc1] at hh; simp at hh
            | cons a b => simp
          exact ih pc.2 c1 tc (hfr.child (findFork_mem hff)) hsc hc1 _ _ _ ((k :: rest).drop pc.1.length) (by
            simp only [List.length_drop, List.length_cons] at *; omega)
        · simp [hp]

/-- saving a fresh trie succeeds and yields a reference -/
theorem save_fresh_some {n : Node} (h : Fresh n) : ∃ n1 t, save n = some n1 ∧ n1.ref = some t := by
  induction h with
  | mk v w e m f hw hf ih =>
    have hl : ∃ fs1 pfs, saveForks f = some fs1 ∧ blobForks fs1 = some pfs := by
      clear hw
      induction f with
      | nil => exact ⟨[], [], rfl, rfl⟩
      | cons pc rest ihl =>
        obtain ⟨p, c⟩ := pc
        obtain ⟨c1, tc, hsc, hc1⟩ := ih (p, c) (by simp)
        obtain ⟨r1, pr, hsr, hbr⟩ := ihl (fun x hx => hf x (by simp [hx])) (fun x hx => ih x (by simp [hx]))
        have hsc' : save c = some c1 := hsc
        refine ⟨(p, c1) :: r1, (p, c1.value, c1.withMeta, (if c1.withMeta then c1.md else []), tc) :: pr, ?_, ?_⟩
        · simp only [saveForks, hsc', hsr]
        · simp only [blobForks, hc1, hbr]
    obtain ⟨fs1, pfs, hsf, hbf⟩ := hl
    refine ⟨Node.mk v w (some (PTree.mk e pfs)) e m false [], PTree.mk e pfs, ?_, rfl⟩
    rw [save_fresh_eq, hsf]
    simp only [hbf]

/-- `Add` of a non-empty path leaves the node's own flags and metadata alone -/
theorem add_own (e : Bytes) (md : Meta) (fa : Nat) (n : Node) (k : UInt8) (t : Bytes) (n' : Node)
    (hl : n.loaded = true) (hadd : add (fa + 1) n (k :: t) e md = some n') :
    n'.value = n.value ∧ n'.md = n.md := by
  have hsf : ∀ fs, (n.setForks fs).value = n.value ∧ (n.setForks fs).md = n.md := by
    intro fs; cases n; exact ⟨rfl, rfl⟩
  simp only [add, hl, if_true] at hadd
  cases hff : findFork n.forks k with
  | none =>
    simp only [hff, hl, Bool.not_true, Bool.false_eq_true, if_false] at hadd
    split at hadd
    · split at hadd
      · exact absurd hadd (by simp)
      · simp only [Option.some.injEq] at hadd; subst hadd; exact hsf _
    · simp only [Option.some.injEq] at hadd; subst hadd; exact hsf _
  | some pc =>
    simp only [hff] at hadd
    split at hadd
    · exact absurd hadd (by simp)
    · simp only [Option.some.injEq] at hadd; subst hadd; exact hsf _

theorem lookup_obs (n : Node) (p : Bytes) : (lookup n p).2 = obs (p.length + 1) n p := by
  unfold lookup obs
  simp only
  cases (lookupNode (p.length + 1) n p).2 with
  | none => rfl
  | some x => simp [semNode, Option.bind]

end Aurora.Mantaray
