// Package c29: correspondence + oracle for pkg/hive2 onFindNode (property C29).
package c29

import (
	"context"
	"fmt"
	"io"
	"strconv"
	"strings"
	"sync"
	"time"

	"github.com/gauss-project/aurorafs/pkg/addressbook"
	"github.com/gauss-project/aurorafs/pkg/aurora"
	"github.com/gauss-project/aurorafs/pkg/boson"
	"github.com/gauss-project/aurorafs/pkg/hive2"
	"github.com/gauss-project/aurorafs/pkg/hive2/pb"
	"github.com/gauss-project/aurorafs/pkg/logging"
	"github.com/gauss-project/aurorafs/pkg/p2p"
	p2pmock "github.com/gauss-project/aurorafs/pkg/p2p/mock"
	"github.com/gauss-project/aurorafs/pkg/p2p/protobuf"
	"github.com/gauss-project/aurorafs/pkg/p2p/streamtest"
	pingpongmock "github.com/gauss-project/aurorafs/pkg/pingpong/mock"
	"github.com/gauss-project/aurorafs/pkg/shed"
	sldb "github.com/gauss-project/aurorafs/pkg/shed/leveldb"
	mockstate "github.com/gauss-project/aurorafs/pkg/statestore/mock"
	"github.com/gauss-project/aurorafs/pkg/subscribe"
	"github.com/gauss-project/aurorafs/pkg/topology"
	"github.com/gauss-project/aurorafs/pkg/topology/kademlia"
	ma "github.com/multiformats/go-multiaddr"
	manet "github.com/multiformats/go-multiaddr/net"
	"github.com/sirupsen/logrus"

	"verifharness/core"
)

type prop struct{}

func init() { core.Register(prop{}) }

func (prop) ID() string { return "C29" }
func (prop) Rule() string {
	return "cases: a real hive2 service over a real Kad (4-28 peers placed at chosen proximity orders 0..31+ around a target, some random) and the real address book with " +
		"public / private (10/8, 192.168/16, 172.16/12, loopback, CGNAT, link-local, ULA) / unroutable / dns underlays, some peers without a record; peers are added as known or connected, some disconnected again; " +
		"AllowPrivateCIDRs on in 1/3 of cases; then 3-8 FindNode requests from a requester that is connected/known/unknown with a public/private/no record, limits -1..40 (dense at -1,0,1,2,3,29,30,31,40), " +
		"Pos lists empty/all/some/exact/out-of-range, targets = the centre, a peer, random, short or empty. The reply the real handler writes is parsed from the stream; the random truncation is observed and its admissibility checked by the model. " +
		"Fixed regression cases (limit 1, 0, -1 with one connected and one known candidate) first. Non-trivial: >=1 find whose reply is non-empty or whose limit <= 2; distinct by op-list hash."
}

var (
	pubU   = []string{"/ip4/8.8.8.8/tcp/1634", "/ip4/1.1.1.1/udp/7070", "/ip6/2001:4860:4860::8888/tcp/1634", "/ip4/203.0.114.7/tcp/1/p2p/QmcgpsyWgH8Y8ajJz1Cu72KnS5uo2Aa2LpzU7kinSupNKC"}
	privU  = []string{"/ip4/10.0.0.1/tcp/1634", "/ip4/192.168.1.5/tcp/1634", "/ip4/172.16.3.4/tcp/1", "/ip4/127.0.0.1/tcp/1634", "/ip4/100.64.0.1/tcp/1", "/ip4/169.254.1.1/tcp/1", "/ip6/::1/tcp/1", "/ip6/fc00::1/tcp/1", "/ip6/fe80::1/tcp/1", "/ip4/172.31.255.255/udp/9"}
	otherU = []string{"/ip4/0.0.0.0/tcp/1", "/ip4/192.0.2.1/tcp/1", "/ip4/255.255.255.255/tcp/1", "/dns4/example.com/tcp/1634", "/ip4/172.32.0.1/tcp/1", "/ip4/11.0.0.1/tcp/1"}
)

func pickU(r *core.Rand) string {
	switch r.Intn(10) {
	case 0, 1, 2, 3:
		return pubU[r.Intn(len(pubU))]
	case 4, 5, 6, 7:
		return privU[r.Intn(len(privU))]
	default:
		return otherU[r.Intn(len(otherU))]
	}
}

// atPO returns a 32-byte address whose proximity order to t is exactly po (po<=31) or >=32 bits shared (po>31).
func atPO(r *core.Rand, t []byte, po int) []byte {
	a := r.Bytes(32)
	for i := 0; i < po && i < 256; i++ {
		bit := byte(1) << uint(7-i%8)
		a[i/8] = a[i/8]&^bit | t[i/8]&bit
	}
	if po < 256 {
		bit := byte(1) << uint(7-po%8)
		a[po/8] = a[po/8]&^bit | (^t[po/8])&bit
	}
	return a
}

func posList(r *core.Rand, exact []int) string {
	var xs []int
	switch r.Intn(9) {
	case 0:
		return "-"
	case 1, 2: // all
		for i := 0; i <= 31; i++ {
			xs = append(xs, i)
		}
	case 3, 4: // exactly the orders present
		xs = append(xs, exact...)
	case 5: // some of the present ones + noise
		for _, e := range exact {
			if r.Bool() {
				xs = append(xs, e)
			}
		}
		xs = append(xs, r.Intn(32))
	case 6: // out-of-range spellings
		for _, e := range exact {
			xs = append(xs, e+256*r.Pick([]int{1, -1, 2}))
		}
		xs = append(xs, -1, 255, 256)
	default:
		for k := r.Range(1, 6); k > 0; k-- {
			xs = append(xs, r.Intn(34))
		}
	}
	if len(xs) == 0 {
		return "-"
	}
	var ss []string
	for _, x := range xs {
		ss = append(ss, strconv.Itoa(x))
	}
	return strings.Join(ss, ",")
}

func (prop) Gen(r *core.Rand, tier string) []core.Case {
	n := 100
	if tier == "thorough" {
		n = 1500
	}
	var cs []core.Case
	// regression: one connected + one known candidate, both matching; limits 1, 0, -1 (pre-fix: 2 peers)
	{
		t := make([]byte, 32)
		a, b, q := atPO(r, t, 3), atPO(r, t, 3), atPO(r, t, 9)
		pre := []string{"book " + core.Hex(a) + " " + pubU[0], "book " + core.Hex(b) + " " + pubU[1], "conn " + core.Hex(a), "known " + core.Hex(b)}
		for _, l := range []int{1, 0, -1, 2, 3} {
			ops := append(append([]string{}, pre...), fmt.Sprintf("find %s %d %s 3", core.Hex(q), l, core.Hex(t)))
			cs = append(cs, core.Case{ID: fmt.Sprintf("fix-limit-%d", l), NT: true, Ops: ops})
		}
	}
	for i := 0; i < n; i++ {
		c := core.Case{ID: fmt.Sprintf("g%d", i)}
		target := r.Bytes(32)
		npeers := r.Range(4, 28)
		if r.Chance(15) {
			npeers = r.Range(30, 70) // enough to hit the cap of 30
		}
		var peers [][]byte
		var pos []int
		poChoices := []int{0, 1, 2, 3, 7, 8, 9, 15, 16, 30, 31, 32, 40}
		focus := poChoices[r.Intn(len(poChoices))]
		for k := 0; k < npeers; k++ {
			var a []byte
			switch r.Intn(5) {
			case 0:
				a = r.Bytes(32)
			case 1, 2:
				a = atPO(r, target, focus)
			default:
				a = atPO(r, target, poChoices[r.Intn(len(poChoices))])
			}
			peers = append(peers, a)
			pos = append(pos, int(boson.Proximity(target, a)))
		}
		if r.Chance(33) {
			c.Ops = append(c.Ops, "allow 1")
		}
		for _, a := range peers {
			if r.Chance(90) {
				c.Ops = append(c.Ops, "book "+core.Hex(a)+" "+pickU(r))
			}
			switch r.Intn(5) {
			case 0, 1:
				c.Ops = append(c.Ops, "known "+core.Hex(a))
			case 2, 3:
				c.Ops = append(c.Ops, "conn "+core.Hex(a))
			default:
				c.Ops = append(c.Ops, "conn "+core.Hex(a), "disc "+core.Hex(a))
			}
		}
		// requester
		var rq []byte
		switch r.Intn(4) {
		case 0:
			rq = r.Bytes(32)
		default:
			rq = peers[r.Intn(len(peers))]
		}
		switch r.Intn(5) {
		case 0: // no record (or whatever it got above)
		case 1, 2:
			c.Ops = append(c.Ops, "book "+core.Hex(rq)+" "+pubU[r.Intn(len(pubU))])
		case 3:
			c.Ops = append(c.Ops, "book "+core.Hex(rq)+" "+privU[r.Intn(len(privU))])
		default:
			c.Ops = append(c.Ops, "book "+core.Hex(rq)+" "+otherU[r.Intn(len(otherU))])
		}
		nt := false
		for k := r.Range(3, 8); k > 0; k-- {
			tg := target
			switch r.Intn(8) {
			case 0:
				tg = r.Bytes(32)
			case 1:
				tg = peers[r.Intn(len(peers))]
			case 2:
				tg = target[:r.Pick([]int{0, 1, 2, 3, 4, 5, 20})]
			}
			lim := r.Pick([]int{-1, 0, 1, 2, 3, 4, 5, 7, 16, 29, 30, 31, 40, r.Range(-1, 40), r.Range(-1, 40)})
			if r.Chance(3) {
				lim = r.Pick([]int{-2147483648, 2147483647, 1000})
			}
			if lim <= 2 {
				nt = true
			}
			if r.Chance(20) {
				c.Ops = append(c.Ops, "allow "+strconv.Itoa(r.Intn(2)))
			}
			if r.Chance(30) { // the requester's record is replaced between requests (a new handshake): private <-> public
				all := [][]string{pubU, privU, privU, otherU}
				cl := all[r.Intn(len(all))]
				c.Ops = append(c.Ops, "book "+core.Hex(rq)+" "+cl[r.Intn(len(cl))])
			}
			c.Ops = append(c.Ops, fmt.Sprintf("find %s %d %s %s", core.Hex(rq), lim, core.Hex(tg), posList(r, pos)))
		}
		c.NT = true
		_ = nt
		cs = append(cs, c)
	}
	return cs
}

// ---- runner

var regOnce sync.Once

type runner struct {
	ab   addressbook.Interface
	kad  *kademlia.Kad
	svc  *hive2.Service
	db   *shed.DB
	fail string
	// AllowPrivateCIDRs is not readable from the service: mirror of the last `allow` op
	allowMirror bool
}

var noop = logging.New(io.Discard, logrus.ErrorLevel)

func (prop) New() core.Runner {
	regOnce.Do(func() {
		for _, d := range shed.Drivers() {
			if d == "leveldb" {
				return
			}
		}
		shed.Register("leveldb", sldb.Driver{})
	})
	rn := &runner{}
	db, err := shed.NewDB("", nil)
	if err != nil {
		rn.fail = err.Error()
		return rn
	}
	rn.db = db
	base := boson.NewAddress(make([]byte, 32))
	rn.ab = addressbook.New(mockstate.NewStateStore())
	p2ps := p2pmock.New()
	stream := streamtest.New(streamtest.WithBaseAddr(base))
	rn.svc = hive2.New(stream, rn.ab, 0, noop)
	ppm := pingpongmock.New(func(_ context.Context, _ boson.Address, _ ...string) (time.Duration, error) { return 0, nil })
	kad, err := kademlia.New(base, rn.ab, rn.svc, p2ps, ppm, nil, nil, db, noop, subscribe.NewSubPub(),
		kademlia.Options{BinMaxPeers: 100, NodeMode: aurora.NewModel().SetMode(aurora.FullNode)})
	if err != nil {
		rn.fail = err.Error()
		return rn
	}
	rn.kad = kad
	rn.svc.SetAddPeersHandler(kad.AddPeers)
	rn.svc.SetConfig(hive2.Config{Kad: kad, Base: base, AllowPrivateCIDRs: false})
	return rn
}

func (rn *runner) Close() {
	if rn.svc != nil {
		_ = rn.svc.Close()
	}
	// Kad.Close would wait 10 s for a manage loop that was never started (Start is not called)
	if rn.db != nil {
		_ = rn.db.Close()
	}
}

func hexList(as []boson.Address) string {
	if len(as) == 0 {
		return "-"
	}
	var ss []string
	for _, a := range as {
		ss = append(ss, core.Hex(a.Bytes()))
	}
	return strings.Join(ss, ",")
}

func (rn *runner) Step(ctx *core.Ctx, op []string) string {
	if rn.fail != "" {
		return "setup-failed:" + strings.ReplaceAll(rn.fail, " ", "_")
	}
	addr := func(s string) (boson.Address, bool) {
		b, err := core.UnHex(s)
		if err != nil {
			return boson.ZeroAddress, false
		}
		return boson.NewAddress(b), true
	}
	full := aurora.NewModel().SetMode(aurora.FullNode)
	switch {
	case len(op) == 2 && op[0] == "allow":
		if op[1] != "0" && op[1] != "1" {
			return "bad-op"
		}
		rn.svc.SetConfig(hive2.Config{Kad: rn.kad, Base: boson.NewAddress(make([]byte, 32)), AllowPrivateCIDRs: op[1] == "1"})
		rn.allowMirror = op[1] == "1"
		return "ok"
	case len(op) == 3 && op[0] == "book":
		a, ok := addr(op[1])
		u, err := ma.NewMultiaddr(op[2])
		if !ok || err != nil {
			return "bad-op"
		}
		if err := rn.ab.Put(a, aurora.Address{Overlay: a, Underlay: u, Signature: []byte("sig-" + op[1][:4])}); err != nil {
			return "err"
		}
		ctx.Annotate("pub="+core.B(manet.IsPublicAddr(u)), "priv="+core.B(manet.IsPrivateAddr(u)))
		return "ok"
	case len(op) == 2 && op[0] == "known":
		a, ok := addr(op[1])
		if !ok {
			return "bad-op"
		}
		rn.kad.AddPeers(a)
		return "ok"
	case len(op) == 2 && op[0] == "conn":
		a, ok := addr(op[1])
		if !ok {
			return "bad-op"
		}
		if err := rn.kad.Connected(context.Background(), p2p.Peer{Address: a, Mode: full}, true); err != nil {
			return "err"
		}
		return "ok"
	case len(op) == 2 && op[0] == "disc":
		a, ok := addr(op[1])
		if !ok {
			return "bad-op"
		}
		rn.kad.Disconnected(p2p.Peer{Address: a, Mode: full}, "verif")
		return "ok"
	case len(op) == 5 && op[0] == "find":
		rq, ok1 := addr(op[1])
		lim, err := strconv.ParseInt(op[2], 10, 32)
		tg, err2 := core.UnHex(op[3])
		var pos []int32
		if op[4] != "-" {
			for _, s := range strings.Split(op[4], ",") {
				v, e := strconv.ParseInt(s, 10, 32)
				if e != nil {
					return "bad-op"
				}
				pos = append(pos, int32(v))
			}
		}
		if !ok1 || err != nil || err2 != nil {
			return "bad-op"
		}
		var conn, known []boson.Address
		_ = rn.kad.EachPeer(func(a boson.Address, _ uint8) (bool, bool, error) { conn = append(conn, a); return false, false, nil }, topology.Filter{})
		_ = rn.kad.EachKnownPeer(func(a boson.Address, _ uint8) (bool, bool, error) { known = append(known, a); return false, false, nil })
		// the request goes through the real protocol handler over an in-memory stream
		rec := streamtest.New(streamtest.WithProtocols(rn.svc.Protocol()), streamtest.WithBaseAddr(rq))
		c, cancel := context.WithTimeout(context.Background(), 10*time.Second)
		defer cancel()
		st, e := rec.NewStream(c, boson.NewAddress(make([]byte, 32)), nil, "hive2", "1.0.0", "findNode")
		if e != nil {
			return "err-stream"
		}
		w, rd := protobuf.NewWriterAndReader(st)
		if e := w.WriteMsgWithContext(c, &pb.FindNodeReq{Target: tg, Pos: pos, Limit: int32(lim)}); e != nil {
			return "err-write"
		}
		var res pb.Peers
		if e := rd.ReadMsgWithContext(c, &res); e != nil {
			return "err-read"
		}
		_ = st.Close()
		var reply []boson.Address
		for _, p := range res.Peers {
			reply = append(reply, boson.NewAddress(p.Overlay))
		}
		ctx.Annotate("conn="+hexList(conn), "known="+hexList(known), "reply="+hexList(reply))
		rn.oracle(ctx, rq, int(lim), tg, pos, res.Peers)
		return fmt.Sprintf("ok %d", len(reply))
	}
	return "bad-op"
}

// oracle: the property's clauses evaluated directly on the reply (no model involved).
func (rn *runner) oracle(ctx *core.Ctx, rq boson.Address, lim int, tg []byte, pos []int32, peers []*pb.AuroraAddress) {
	max := lim
	if max < 0 {
		max = 0
	}
	if max > 30 {
		max = 30
	}
	if len(peers) > max {
		clause := "limit-exceeded"
		if lim <= 1 {
			clause = "limit-exceeded-limit-le-1"
		}
		ctx.Fail(clause, "limit %d but reply has %d peers", lim, len(peers))
	}
	requesterPublic := false
	if a, err := rn.ab.Get(rq); err == nil && a != nil {
		requesterPublic = manet.IsPublicAddr(a.Underlay)
	}
	allow := rn.allowMirror
	seen := map[string]bool{}
	for _, p := range peers {
		o := boson.NewAddress(p.Overlay)
		if o.Equal(rq) {
			ctx.Fail("contains-requester", "reply contains the requester %s", o)
		}
		if seen[o.ByteString()] {
			ctx.Fail("repeated-peer", "peer %s twice in the reply", o)
		}
		seen[o.ByteString()] = true
		po := boson.Proximity(tg, p.Overlay)
		in := false
		for _, v := range pos {
			if uint8(v) == po {
				in = true
			}
		}
		if !in {
			ctx.Fail("pos-not-requested", "peer %s has proximity %d to the target, requested orders %v", o, po, pos)
		}
		u, err := ma.NewMultiaddrBytes(p.Underlay)
		if err != nil {
			ctx.Fail("bad-underlay", "reply underlay does not parse")
			continue
		}
		if requesterPublic && !allow && manet.IsPrivateAddr(u) {
			ctx.Fail("private-to-public", "private underlay %s offered to a requester with a public underlay", u)
		}
	}
}
