package filecommon

import (
	"fmt"

	"verifharness/core"
)

// Src returns a data-source token for n bytes.  Big sources are periodic with a period that
// divides the chunk size (all full chunks equal → the Lean driver memoises their reference) unless
// distinct is set.
func Src(r *core.Rand, n int, distinct bool) string {
	switch {
	case n <= 40:
		return "h:" + core.Hex(r.Bytes(n))
	case n > 70000 && !distinct:
		return fmt.Sprintf("p:%d:%d:%d", r.Intn(100000), n, r.Pick([]int{C, C / 2, C / 64, 4096}))
	case n > 70000 && r.Chance(50):
		return fmt.Sprintf("p:%d:%d:%d", r.Intn(100000), n, r.Range(100, 3000))
	}
	return fmt.Sprintf("g:%d:%d", r.Intn(100000), n)
}

var SmallLens = []int{0, 1, 2, 31, 32, 33, 63, 64, 65, 127, 128, 129, 4095, 4096, 4097}
var BigLens = []int{C - 1, C, C + 1, 2*C - 1, 2 * C, 2*C + 1, 3 * C, C + C/2}

// Writes returns the op lines that write `total` bytes with a randomly chosen segmentation:
// one write; fixed-size pieces (1, 7, 4096, C, C+1, 3C, random); random cut points (with
// zero-length writes interleaved); cuts next to chunk boundaries.
func Writes(r *core.Rand, total int) []string {
	big := total > 70000
	switch r.Intn(10) {
	case 0, 1, 2:
		return []string{"write " + Src(r, total, false)}
	case 3, 4, 5:
		k := r.Pick([]int{1, 7, 4096, C, C + 1, 3 * C, 31, 32, 33, 1000})
		if r.Chance(25) {
			k = r.Range(1, total+2)
		}
		limit := 1500
		if big {
			limit = 40
		}
		for total/k > limit {
			k = k*2 + 1
		}
		return []string{fmt.Sprintf("writeseg %s %d", Src(r, total, false), k)}
	case 6, 7:
		var ops []string
		left := total
		parts := r.Range(2, 6)
		for i := 0; i < parts; i++ {
			n := left
			if i < parts-1 {
				n = r.Intn(left + 1)
				if r.Chance(15) {
					n = 0
				}
			}
			ops = append(ops, "write "+Src(r, n, !big))
			left -= n
		}
		return ops
	default:
		// cut next to chunk boundaries / tiny first write
		first := r.Pick([]int{1, 7, C - 1, C, C + 1, C / 2, 2 * C, 2*C - 1, 2*C + 1})
		if first > total {
			first = total / 2
		}
		ops := []string{"write " + Src(r, first, !big)}
		if r.Chance(30) {
			ops = append(ops, "write h:-")
		}
		rest := total - first
		if rest > 0 && r.Chance(40) {
			mid := r.Intn(rest + 1)
			ops = append(ops, "write "+Src(r, mid, !big))
			rest -= mid
		}
		return append(ops, "write "+Src(r, rest, false))
	}
}

// Length picks a content length: class 0 small (boundaries ≤ 4097 or random ≤ 5000), 1 medium
// (≤ 70000), 2 big (around C, 2C, 3C or random ≤ maxBig).
func Length(r *core.Rand, class int, maxBig int) int {
	switch class {
	case 0:
		if r.Chance(45) {
			return r.Pick(SmallLens)
		}
		return r.Range(0, 5000)
	case 1:
		return r.Range(5000, 70000)
	}
	if r.Chance(65) {
		return r.Pick(BigLens)
	}
	return r.Range(C/2, maxBig)
}
