#!/usr/bin/env python3
"""print the prompt for an independent mutation-writing agent: property text + scratch worktree only"""
import json, sys
pid, wt = sys.argv[1], sys.argv[2]
p = next(json.loads(l) for l in open('/verif/properties.jsonl') if json.loads(l)['id'] == pid)
print(f"""You are given a scratch git worktree of the Go repository gauss-project/aurorafs (a Swarm/Bee-derived p2p content-addressed storage node) at {wt}. Work ONLY inside {wt} (you may read the Go module cache under /root/go/pkg/mod). Do not read or use anything under /verif or /repo or /root/.vp, and no other directory under /tmp. There is no network; use `export GOFLAGS=-mod=mod GOPROXY=off GOSUMDB=off GOTOOLCHAIN=local` in every shell call.

Here is a semantic property of the code base that users rely on:

  {pid} — {p['title']}
  {p['statement']}
  (It is meant to hold for: {p['quantifier']['text']}.)
  Anchored in: {', '.join(p['anchors']['files'])}

Your task: write a realistic change to the repository's source (the kind of slip a maintainer could make in a refactor or optimisation: an off-by-one, a dropped or inverted condition, a lost lock, a wrong constant, a missed update of a second site, an early return …) that BREAKS this property while the repository still compiles (`go build ./...` in {wt}) and every existing test of the packages you touch that passed before your change still passes (run `go test -count=1 ./pkg/<touched package>/...` before and after; some tests fail or do not even build on the unchanged tree — those do not count, but record that). Prefer a change that needs something specific to manifest — a particular interleaving, a crash or fault at a particular point, a multi-step sequence of operations, an unusual input, or two cooperating sites that each look fine alone — not one that ordinary use would expose at once. Do not touch test files in the change itself.

Also write a demonstration: a Go test (new `_test.go` file) or small program inside {wt} that FAILS with your change and PASSES on the unchanged tree (check both; NEVER use `git stash` — the stash is shared with other people's worktrees of this repository; instead save your change with `git diff > {wt}/p.diff`, remove it with `git apply -R {wt}/p.diff`, restore it with `git apply {wt}/p.diff`). If an anchored package's own test files do not build, put the demonstration in a new directory (e.g. {wt}/verifdemo/<name>/, package main or a _test package importing the repo packages by their module path github.com/gauss-project/aurorafs/...).

If you can, produce TWO different changes (different mechanisms). For each change k = 1, 2 leave in {wt}/MUTATION/k/ :
  patch.diff  — `git diff` of the source change only (no demonstration files in it), applicable with `git apply` at the repository root;
  demo/       — the demonstration file(s), with their intended path inside the repository recorded in README.md;
  README.md   — which clause of the property breaks, what is needed for it to manifest, the exact commands you ran (build, package tests before/after, demonstration with and without the change) and their outcome.
At the end restore the worktree's source to the unchanged state (`git checkout -- .`), leaving only the MUTATION directory (and untracked demo files if you like). Your final message: for each change, one paragraph (what, why it still passes the tests, how the demonstration fails).""")
