import Aurora.Model.Bmt
import Aurora.Model.Cac
/-!
# The Aurora file format (shared by C01, C02, C07, C08, C09)

Parameters everywhere: `C` chunk payload bytes (`boson.ChunkSize`), `B` branching (references per
intermediate chunk), and the *chunk reference function* `cref : span8 → payload → reference`
(plain mode: `Aurora.Bmt.bmtHash H 32 12`; the theorems never unfold it).

* `Entry`  — what the hash-trie writer keeps per reference: `(span, ref)`.
* `T`      — a file tree: `leaf d` (data chunk) / `node span kids` (intermediate chunk).
             `T.size`, `T.flat`, `T.payload`, `T.data` (= `le64 size ++ payload`, the stored chunk
             bytes), `T.ref`, `T.chunks` (all `(address, data)` pairs, root first).
* `WF C B h t` — the shape the writer produces and the reader's span arithmetic relies on:
             `t` has height ≤ `h`; every child of a node but the last is *full*
             (`size = C * B^h'` at the node's child height `h'`), the last child is any
             well-formed tree of height ≤ `h'` with `0 < size ≤ C * B^h'` — a lone carried-up
             reference is exactly such a last child of smaller height.
* `levelUpG`, `rootG` — the bottom-up definition of the format, generic in the element type so
             that it can be run on `(span, ref)` entries (`Spec.root`, the independent
             specification C02 compares the pipeline with) and on trees (`specTree`).
-/
namespace Aurora.Tree
open Aurora.Bmt (Bytes)
open Aurora.Cac (le64)

/-! ## The instance used by the repository (checked against `Aurora/Generated/Consts.lean` in `Props/C02`) -/
/-- `boson.ChunkSize` -/
def chunkBytes : Nat := 262144
/-- `boson.Branches` (plain references per intermediate chunk) -/
def branching : Nat := 8192
/-- `boson.EncryptedBranches` -/
def encBranching : Nat := 4096
/-- `boson.HashSize` (plain reference length; encrypted references are twice as long) -/
def hashBytes : Nat := 32
/-- `boson.SpanSize` -/
def spanBytes : Nat := 8
/-- `hashtrie.maxLevel` -/
def maxLevel : Nat := 8

/-- `binary.LittleEndian.Uint64(b[:8])` -/
def fromLe64 (b : Bytes) : Nat := (b.take 8).foldr (fun x acc => x.toNat + 256 * acc) 0

/-- one reference as the hash-trie writer holds it: the subtree's span and its reference -/
structure Entry where
  span : Nat
  ref : Bytes
deriving Repr, DecidableEq

inductive T where
  | leaf (d : Bytes)
  | node (span : Nat) (kids : List T)
deriving Repr

/-- `|d|` for a leaf, the stored span for a node -/
def T.size : T → Nat
  | .leaf d => d.length
  | .node s _ => s

mutual
/-- concatenation of the leaves, left to right -/
def T.flat : T → Bytes
  | .leaf d => d
  | .node _ ks => flatL ks
def flatL : List T → Bytes
  | [] => []
  | t :: ts => t.flat ++ flatL ts
end

section Ref
variable (cref : Bytes → Bytes → Bytes)

mutual
/-- reference of a subtree: `cref (le64 size) payload` -/
def T.ref : T → Bytes
  | .leaf d => cref (le64 d.length) d
  | .node s ks => cref (le64 s) (refsL ks)
/-- payload of an intermediate chunk: the children's references, concatenated -/
def refsL : List T → Bytes
  | [] => []
  | t :: ts => t.ref ++ refsL ts
end

/-- chunk payload (without the span prefix) -/
def T.payload : T → Bytes
  | .leaf d => d
  | .node _ ks => refsL cref ks

/-- the chunk bytes as stored: 8-byte little-endian span, then the payload -/
def T.data (t : T) : Bytes := le64 t.size ++ t.payload cref

mutual
/-- every chunk of the tree as `(address, data)`, root first, children left to right -/
def T.chunks : T → List (Bytes × Bytes)
  | .leaf d => [(cref (le64 d.length) d, le64 d.length ++ d)]
  | .node s ks => (cref (le64 s) (refsL cref ks), le64 s ++ refsL cref ks) :: chunksL ks
def chunksL : List T → List (Bytes × Bytes)
  | [] => []
  | t :: ts => t.chunks ++ chunksL ts
end

def T.entry (t : T) : Entry := ⟨t.size, t.ref cref⟩

end Ref

/-- Well-formed file tree of height ≤ `h` (see the file header). -/
def WF (C B : Nat) : Nat → T → Prop
  | 0, t => ∃ d, t = .leaf d ∧ d.length ≤ C
  | h + 1, t => WF C B h t ∨
      ∃ span init last, t = .node span (init ++ [last]) ∧ 1 ≤ init.length ∧ init.length + 1 ≤ B ∧
        (∀ k ∈ init, WF C B h k ∧ k.size = C * B ^ h) ∧
        WF C B h last ∧ 0 < last.size ∧ last.size ≤ C * B ^ h ∧
        span = ((init ++ [last]).map T.size).sum

/-- `WF h k ∧ size k = C * B^h` -/
def Full (C B h : Nat) (k : T) : Prop := WF C B h k ∧ k.size = C * B ^ h

/-! ## The bottom-up definition of the format -/

section Generic
variable {α : Type} (wrap : List α → α) (B : Nat)

/-- One level up: cut the list into groups of `B`; a group of ≥ 2 becomes one wrapped element, a
    lone last element is carried unchanged. -/
def levelUpG (es : List α) : List α :=
  if B = 0 ∨ es.length ≤ B then
    match es with
    | [] => []
    | [e] => [e]
    | g => [wrap g]
  else wrap (es.take B) :: levelUpG (es.drop B)
termination_by es.length
decreasing_by simp only [List.length_drop]; omega

/-- Repeat `levelUpG` until one element remains. -/
def rootG : Nat → List α → Option α
  | _, [e] => some e
  | 0, _ => none
  | fuel + 1, es => rootG fuel (levelUpG wrap B es)

end Generic

/-- pieces of `C` bytes (the last one shorter); `[]` for empty input -/
def pieces (C : Nat) (data : Bytes) : List Bytes :=
  if C = 0 ∨ data.length ≤ C then (if data = [] then [] else [data])
  else data.take C :: pieces C (data.drop C)
termination_by data.length
decreasing_by simp only [List.length_drop]; omega

/-- the data chunks of a file: `C`-byte pieces; the empty file is ONE chunk with span 0 -/
def leafData (C : Nat) (data : Bytes) : List Bytes :=
  if data = [] then [[]] else pieces C data

section Spec
variable (cref : Bytes → Bytes → Bytes) (C B : Nat)

/-- an intermediate chunk over a group of entries: span = Σ spans, payload = the references -/
def wrapE (g : List Entry) : Entry :=
  let s := (g.map Entry.span).sum
  ⟨s, cref (le64 s) (g.flatMap Entry.ref)⟩

def leafEntry (d : Bytes) : Entry := ⟨d.length, cref (le64 d.length) d⟩

/-- **The format specification of property C02**, as an executable definition:
    data chunks → references → group by `B` (lone reference carried up) until one is left. -/
def Spec.root (data : Bytes) : Option Bytes :=
  let es := (leafData C data).map (leafEntry cref)
  (rootG (wrapE cref) B es.length es).map Entry.ref

/-- a node over a group of trees -/
def wrapT (g : List T) : T := .node ((g.map T.size).sum) g

/-- the same bottom-up construction on trees -/
def specTree (data : Bytes) : Option T :=
  let ts := (leafData C data).map T.leaf
  rootG wrapT B ts.length ts

end Spec

end Aurora.Tree
