// Package c15: correspondence + model-free oracle for property C15
// (pin and unpin are idempotent inverses) on the node-lite harness.
package c15

import (
	"fmt"
	"strings"

	"verifharness/core"
	"verifharness/nodelite"
)

type prop struct{}

func init() { core.Register(prop{}) }

func (prop) ID() string { return "C15" }
func (prop) Rule() string {
	return "node-lite histories: 1-3 initial uploads / cached files, then 8-30 ops dominated by pin / unpin / haspin / pins through the HTTP handlers on 2-5 overlapping references " +
		"(identical content under two names, chunk-aligned prefix, repeated chunk inside one file, directories sharing files, files cached from the peer), repeated pins and unpins, " +
		"unpin of never-pinned references, uploads with the pin header (15 %), encrypted uploads (random keys; their chunks are opaque to the model, the oracle knows them from the Put log), read-back. " +
		"Fixed regression histories first. After every op status + symbolic dump are compared with the Lean model; the oracle checks: after an effective pin the reference and every chunk the upload wrote has a positive counter; " +
		"a repeated pin / unpin changes nothing; after a nested pin ... unpin every counter of the whole pin index is back at its pre-pin value; listed (GET /pins, GET /pins/ref) iff the last pin/unpin op was a pin. " +
		"Non-trivial: >=2 references, >=1 effective pin followed by an unpin of the same reference; distinct by op-list hash."
}

var fixed = []core.Case{
	{ID: "fix-repeated-chunk", NT: true, Ops: []string{"up y/ABA 0", "pin y/ABA", "pin y/ABA", "pins", "unpin y/ABA", "unpin y/ABA", "pins", "read y/ABA"}},
	{ID: "fix-overlap-prefix", NT: true, Ops: []string{"up x/AB 0", "up y/ABA 0", "pin x/AB", "pin y/ABA", "unpin y/ABA", "haspin x/AB", "unpin x/AB", "pins"}},
	{ID: "fix-overlap-non-nested", NT: true, Ops: []string{"up x/a 0", "up y/a 0", "pin x/a", "pin y/a", "unpin x/a", "unpin y/a", "pins"}},
	{ID: "fix-dir-shares-file", NT: true, Ops: []string{"up p/a+q/b 0", "up q/b+s/c 0", "pin p/a+q/b", "pin q/b+s/c", "unpin q/b+s/c", "unpin p/a+q/b"}},
	{ID: "fix-pinned-upload", NT: true, Ops: []string{"up x/a 1", "pins", "pin x/a", "unpin x/a", "unpin x/a", "pins"}},
	{ID: "fix-encrypted-multi", NT: true, Ops: []string{"upenc ex/AB 0", "pin ex/AB", "pins", "unpin ex/AB", "pins"}},
	{ID: "fix-encrypted-single", NT: true, Ops: []string{"upenc ex/a 0", "pin ex/a", "haspin ex/a", "unpin ex/a"}},
	// a PARTLY stored reference can be pinned (missing chunks skipped) but not unpinned: the failed unpin is not atomic and a retry
	// lowers shared counters again, which destroys the pin state of a properly pinned reference
	{ID: "fix-partial-reference-unpin-retry", NT: true, Ops: []string{"up s/AA 0", "pup m/A+k/Ab 0", "pyr m/A+k/Ab", "pin s/AA", "pin m/A+k/Ab", "unpin m/A+k/Ab", "unpin m/A+k/Ab", "unpin s/AA", "pins"}},
	{ID: "fix-cached-file", NT: true, Ops: []string{"pup y/ABA 0", "pyr y/ABA", "fetch y/ABA 0 111", "pin y/ABA", "pin y/ABA", "unpin y/ABA", "unpin y/ABA"}},
}

func (prop) Gen(r *core.Rand, tier string) []core.Case {
	n := 80
	if tier == "thorough" {
		n = 450
	}
	cs := append([]core.Case(nil), fixed...)
	for i := 0; i < n; i++ {
		cfg := nodelite.GenConfig{MinOps: 8, MaxOps: 30, PinUploads: 15, Pins: 70, Cache: 6, Reads: 4, Dirs: true, Budget: 6}
		if i%4 == 0 {
			cfg.Enc = 6
		}
		ops := nodelite.GenHistory(r.Fork(), cfg)
		cs = append(cs, core.Case{ID: fmt.Sprintf("g%d", i), NT: nontrivial(ops), Ops: ops})
	}
	return cs
}

func nontrivial(ops []string) bool {
	refs := map[string]bool{}
	pinned := map[string]bool{}
	ok := false
	for _, o := range ops {
		f := strings.Fields(o)
		switch f[0] {
		case "up", "upenc", "pup":
			refs[f[1]] = true
		case "pin":
			pinned[f[1]] = true
		case "unpin":
			if pinned[f[1]] {
				ok = true
			}
		}
	}
	return ok && len(refs) >= 2
}

func (prop) New() core.Runner { return nodelite.NewRunner(nodelite.NewC15Oracle()) }
