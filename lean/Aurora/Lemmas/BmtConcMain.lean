import Aurora.Lemmas.BmtConcTog
/-! Reachability, terminal states, progress, termination measure for `Model/BmtConc.lean`. -/
namespace Aurora.BmtConc
open Aurora.Bmt

theorem inv_step_mono {cfg : Cfg} {s s' : St} {ph : Nat → Nat → Ph} {t : Nat} (hv : cfg.vals ≠ [])
    (hpos : cfg.pos < 2 ^ cfg.d) (inv : Inv cfg s ph) (h : step cfg s t = some s') :
    ∃ ph', Inv cfg s' ph' ∧ Mono ph ph' := by
  obtain ⟨ht, hr⟩ := step_rel h
  cases hr with
  | init hpc => exact ⟨ph, inv_init hv inv ht hpc, mono_refl _⟩
  | send c k sv v hpc hc hres hvv => exact ⟨_, inv_send hpos inv ht hpc hc hvv, mono_arrive _ _ _⟩
  | finNil c k hpc hc _ => exact ⟨ph, inv_finNil inv ht hpc hc, mono_refl _⟩
  | wrL c k sv hpc hc htp hk =>
    cases sv with
    | none => have := inv.thr t ht; rw [hpc] at this; have := this.1; omega
    | some v => exact ⟨ph, inv_writeL inv ht hpc hc htp hk, mono_refl _⟩
  | wrR c k sv hpc hc htp hk =>
    cases sv with
    | none => have := inv.thr t ht; rw [hpc] at this; have := this.1; omega
    | some v => exact ⟨ph, inv_writeR inv ht hpc hc hk, mono_refl _⟩
  | fzr c k sv hpc hc htp hk => exact ⟨ph, inv_fzr inv ht hpc hc htp hk, mono_refl _⟩
  | fwr c k v hpc hc htp hk => exact ⟨ph, inv_writeR inv ht hpc hc hk, mono_refl _⟩
  | fnil c k hpc hc htp hk => exact ⟨ph, inv_fnil inv ht hpc hc hk, mono_refl _⟩
  | zrSome c k v hpc htp => exact ⟨_, inv_zrSome hv inv ht hpc⟩
  | zrNone c k hpc htp => exact inv_zrNone hv inv ht hpc
  | tog c k hpc => exact inv_tog inv ht hpc
  | hash c j hpc => exact ⟨ph, inv_hash hv inv ht hpc, mono_refl _⟩

theorem inv_step {cfg : Cfg} {s s' : St} {ph : Nat → Nat → Ph} {t : Nat} (hv : cfg.vals ≠ [])
    (hpos : cfg.pos < 2 ^ cfg.d) (inv : Inv cfg s ph) (h : step cfg s t = some s') :
    ∃ ph', Inv cfg s' ph' := by
  obtain ⟨ph', h1, _⟩ := inv_step_mono hv hpos inv h
  exact ⟨ph', h1⟩

/-- initial ghost: leaf `i ≤ pos` is held by its section thread, everything else pending -/
def ph0 (cfg : Cfg) : Nat → Nat → Ph := fun c k => if c = 0 ∧ k ≤ cfg.pos then .held k else .pending

theorem inv_of_init {cfg : Cfg} {s : St} (h : Init cfg s) : Inv cfg s (ph0 cfg) := by
  have harr : ∀ c x, arr cfg s (ph0 cfg) c x = false := by
    intro c x
    unfold arr
    split
    · unfold ph0; split <;> simp
    · rw [h.pcs _ (Nat.le_refl _)]; simp [fl]
  refine ⟨?_, ?_, ?_, ?_, ?_, ?_⟩
  · intro t ht
    rw [h.pcs t ht]
    show ph0 cfg 0 t = .held t
    simp [ph0, ht]
  · intro c k t hh
    unfold ph0 at hh
    split at hh
    · next hc =>
      cases hh
      refine ⟨hc.2, ?_⟩
      rw [h.pcs _ hc.2]
      exact ⟨hc.1, rfl⟩
    · cases hh
  · intro c j _ _
    unfold NodeAt NodeOK
    rw [harr, harr]
    refine ⟨?_, (fun h => by cases h), (fun h => by cases h), ?_⟩
    · rw [h.even]; rfl
    · simp [ph0]
  · intro c j _; exact h.even c j
  · intro i hi; simp [ph0, hi]
  · rw [h.result, if_neg]
    unfold ph0; split <;> simp

theorem inv_exec {cfg : Cfg} {s s' : St} {ts : List Nat} (hv : cfg.vals ≠ [])
    (hpos : cfg.pos < 2 ^ cfg.d) (h : Exec cfg s ts s') :
    (∃ ph, Inv cfg s ph) → ∃ ph', Inv cfg s' ph' := by
  induction h with
  | nil => exact id
  | cons hs _ ih =>
    rintro ⟨ph, inv⟩
    exact ih (inv_step hv hpos inv hs)

/-! ## all threads finished -/

def AllDone (cfg : Cfg) (s : St) : Prop := ∀ t, t ≤ cfg.pos → s.pc t = .done

theorem done_arrived {cfg : Cfg} {s : St} {ph : Nat → Nat → Ph} (inv : Inv cfg s ph) (hd : AllDone cfg s) :
    ∀ c, c ≤ cfg.d → ∀ k, k ≤ path cfg.pos c → ph c k = .arrived := by
  have nothold : ∀ c k t, ph c k ≠ .held t := by
    intro c k t hh
    obtain ⟨ht, hh'⟩ := inv.own c k t hh
    rw [hd t ht] at hh'
    exact hh'
  intro c
  induction c with
  | zero =>
    intro _ k hk
    have := inv.leaf k hk
    cases hph : ph 0 k with
    | pending => exact absurd hph this
    | held t => exact absurd hph (nothold _ _ _)
    | arrived => rfl
  | succ c ih =>
    intro hc j hj
    have hN := inv.node c j (by omega) hj
    unfold NodeAt NodeOK at hN
    have hp : path cfg.pos (c + 1) = path cfg.pos c / 2 := rfl
    have a1 : arr cfg s ph c (2 * j) = true := by
      unfold arr; rw [if_pos (by omega), ih (by omega) _ (by omega)]; simp
    have a2 : arr cfg s ph c (2 * j + 1) = true := by
      unfold arr
      split
      · next h => rw [ih (by omega) _ h]; simp
      · rw [hd _ (Nat.le_refl _)]; simp only [fl]; exact decide_eq_true (by omega)
    cases hph : ph (c + 1) j with
    | pending => exact absurd ⟨a1, a2⟩ (hN.2.2.2.mp hph)
    | held t => exact absurd hph (nothold _ _ _)
    | arrived => rfl

theorem done_result {cfg : Cfg} {s : St} {ph : Nat → Nat → Ph} (inv : Inv cfg s ph) (hd : AllDone cfg s) :
    s.result = [val cfg cfg.d 0] := by
  rw [inv.res, if_pos (done_arrived inv hd cfg.d (Nat.le_refl _) 0 (Nat.zero_le _))]

theorem done_even {cfg : Cfg} {s : St} {ph : Nat → Nat → Ph} (inv : Inv cfg s ph) (hd : AllDone cfg s) :
    ∀ c j, s.state c j % 2 = 0 := by
  intro c j
  by_cases h : 1 ≤ c ∧ c ≤ cfg.d ∧ j ≤ path cfg.pos c
  · obtain ⟨h1, h2, h3⟩ := h
    obtain ⟨c, rfl⟩ : ∃ c', c = c' + 1 := ⟨c - 1, by omega⟩
    have hN := inv.node c j (by omega) h3
    unfold NodeAt NodeOK at hN
    have hp : path cfg.pos (c + 1) = path cfg.pos c / 2 := rfl
    have a1 : arr cfg s ph c (2 * j) = true := by
      unfold arr; rw [if_pos (by omega), done_arrived inv hd c (by omega) _ (by omega)]; simp
    have a2 : arr cfg s ph c (2 * j + 1) = true := by
      unfold arr
      split
      · next h => rw [done_arrived inv hd c (by omega) _ h]; simp
      · rw [hd _ (Nat.le_refl _)]; simp only [fl]; exact decide_eq_true (by omega)
    rw [a1, a2] at hN
    exact hN.1
  · exact inv.out c j h

theorem val_root {cfg : Cfg} (hv : cfg.vals ≠ []) (hpos : cfg.pos < 2 ^ cfg.d) :
    val cfg cfg.d 0 = (iterUp cfg.H cfg.seg cfg.d 1 cfg.vals).headD [] := by
  have h1 := iterUp_lvl cfg cfg.d 0
  simp only [Nat.zero_add] at h1
  have h0 : lvl cfg 0 = cfg.vals := rfl
  rw [h0] at h1
  rw [h1]
  have hl := lvl_length cfg hv cfg.d
  rw [path_d _ _ hpos] at hl
  unfold val
  match hm : lvl cfg cfg.d, hl with
  | [a], _ => rfl

/-! ## progress -/

theorem progress {cfg : Cfg} {s : St} {ph : Nat → Nat → Ph} (hpos : cfg.pos < 2 ^ cfg.d)
    (inv : Inv cfg s ph) {t : Nat} (ht : t ≤ cfg.pos)
    (hnd : s.pc t ≠ .done) : ∃ s', step cfg s t = some s' := by
  have hT := inv.thr t ht
  have hres : ∀ c k v, s.pc t = .top c k (some v) → cfg.d ≤ c → s.result = [] := by
    intro c k v hpc hc
    rw [hpc] at hT
    obtain ⟨h1, h2, h3, _, _⟩ := hT
    have : c = cfg.d := by omega
    subst this
    have : k = 0 := by have := path_d _ _ hpos; omega
    subst this
    rw [inv.res, h3]; simp
  unfold step
  rw [if_neg (by omega)]
  cases hpc : s.pc t with
  | done => exact absurd hpc hnd
  | init => exact ⟨_, rfl⟩
  | top c k sv =>
    simp only
    by_cases hc : cfg.d ≤ c
    · rw [if_pos hc]
      by_cases htp : t < cfg.pos
      · rw [if_pos htp]
        cases sv with
        | none => rw [hpc] at hT; have := hT.1; omega
        | some v =>
          unfold sendStep
          rw [if_pos (hres c k v hpc hc)]
          exact ⟨_, rfl⟩
      · rw [if_neg htp]
        cases sv with
        | none => exact ⟨_, rfl⟩
        | some v =>
          simp only
          unfold sendStep
          rw [if_pos (hres c k v hpc hc)]
          exact ⟨_, rfl⟩
    · rw [if_neg hc]
      by_cases htp : t < cfg.pos
      · rw [if_pos htp]; split <;> exact ⟨_, rfl⟩
      · rw [if_neg htp]
        split
        · exact ⟨_, rfl⟩
        · cases sv <;> exact ⟨_, rfl⟩
  | zr c k sv =>
    simp only
    rw [hpc] at hT
    rw [if_neg (by have := hT.1; omega)]
    cases sv <;> exact ⟨_, rfl⟩
  | wrote c k => exact ⟨_, rfl⟩
  | hash c j => exact ⟨_, rfl⟩

theorem terminal_allDone {cfg : Cfg} {s : St} {ph : Nat → Nat → Ph} (hpos : cfg.pos < 2 ^ cfg.d)
    (inv : Inv cfg s ph) (hterm : Terminal cfg s) : AllDone cfg s := by
  intro t ht
  apply Classical.byContradiction
  intro hnd
  obtain ⟨s', hs'⟩ := progress hpos inv ht hnd
  rw [hterm t] at hs'
  cases hs'

end Aurora.BmtConc
