/-!
# Model of `pkg/chunkinfo/chunkpyramid.go` (properties C12, C16, C17)

The pyramid table of chunkinfo: `chunk : cid ↦ reference count` over all *registered* files and
`hashData : root ↦ (chunkMax, hashMax)`.  A file is given by its structure as the real traversal
reports it: the data-chunk list of every manifest entry (in `GetChunkHashes` order, with
repetitions) and the pyramid key set ("mate": manifest nodes, intermediate chunks, the root, and
the roots of single-chunk entries — those are data chunks as well).

Transcribed case by case: `updateChunkPyramid`, `putChunk`, `delChunk`, `delRootCid`,
`getPyramid` (position = first occurrence, number = occurrences), `getPyramidHash`,
`getUnRepeatChunk`, `getCidSort` (0 for a cid that is not a data chunk) and `getCidSortOK` (the
membership test added by the C17 `fix:` commit); `getUnRepeatChunk` / `delRootCid` include the
registration test added by the C16 `fix:` commit.  Go map iteration order is irrelevant for every
function here (sets / commutative updates); lists are kept in first-occurrence order.
Core Lean only.
-/
namespace Aurora.ChunkPyramid

abbrev Addr := Nat

/-- structure of one file (manifest reference) -/
structure FileS where
  root : Addr
  /-- per manifest entry: its data chunks in file order (with repetitions) -/
  subs : List (List Addr) := []
  /-- pyramid keys (`GetPyramid`): root, manifest nodes, entry roots, intermediate chunks -/
  hash : List Addr := []
deriving DecidableEq, Repr

/-- first-occurrence de-duplication -/
def dedup : List Addr → List Addr
  | [] => []
  | a :: l => a :: (dedup l).filter (· != a)

/-- all data chunks in `GetChunkHashes` order -/
def FileS.data (f : FileS) : List Addr := f.subs.flatten

/-- `getPyramid(root).cids` keys in `sort` order: the bit positions of the availability vector -/
def FileS.cids (f : FileS) : List Addr := dedup f.data

/-- `getPyramidHash`: pyramid keys that are not data chunks -/
def FileS.hashOnly (f : FileS) : List Addr := (dedup f.hash).filter (fun h => !f.cids.contains h)

/-- occurrences of `c` in the file (`pyramidCid.number`) -/
def FileS.number (f : FileS) (c : Addr) : Nat := f.data.count c

/-- position of the first occurrence -/
def idxOf (c : Addr) : List Addr → Option Nat
  | [] => none
  | a :: l => if a = c then some 0 else (idxOf c l).map (· + 1)

/-- `getCidSortOK` -/
def FileS.cidPos (f : FileS) (c : Addr) : Option Nat := idxOf c f.cids

/-- `getCidSort`: the Go map lookup yields the zero value for a missing key -/
def FileS.cidSort (f : FileS) (c : Addr) : Nat := (f.cidPos c).getD 0

/-- every chunk of the file -/
def FileS.all (f : FileS) : List Addr := dedup (f.data ++ f.hash)

structure State where
  chunk : List (Addr × Nat) := []
  hashData : List (Addr × (Nat × Nat)) := []
deriving DecidableEq, Repr

def refc (m : List (Addr × Nat)) (a : Addr) : Nat := (m.lookup a).getD 0

/-- `putChunk` -/
def putChunk (m : List (Addr × Nat)) (a : Addr) : List (Addr × Nat) :=
  match m.lookup a with
  | some v => m.map (fun e => if e.1 = a then (a, v + 1) else e)
  | none => m ++ [(a, 1)]

/-- `delChunk` -/
def delChunk (m : List (Addr × Nat)) (a : Addr) : List (Addr × Nat) :=
  if refc m a > 1 then m.map (fun e => if e.1 = a then (a, e.2 - 1) else e)
  else m.filter (fun e => e.1 != a)

def State.registered (s : State) (root : Addr) : Bool := (s.hashData.lookup root).isSome

/-- `updateChunkPyramid(root, data, trie)` -/
def updateChunkPyramid (s : State) (f : FileS) : State :=
  let m1 := f.cids.foldl putChunk s.chunk
  let m2 := f.hashOnly.foldl putChunk m1
  { chunk := m2,
    hashData := (s.hashData.filter (fun e => e.1 != f.root)) ++ [(f.root, (f.cids.length, f.hashOnly.length))] }

/-- `getChunkSize`: registers the pyramid on first use -/
def ensure (s : State) (f : FileS) : State :=
  if s.registered f.root then s else updateChunkPyramid s f

/-- `delRootCid(root, pyr, hashs)`; after the C16 `fix:` a root that is not registered releases
    nothing (its chunks' counts belong to other files) -/
def delRootCid (s : State) (f : FileS) : State :=
  if !s.registered f.root then s
  else
    let m1 := f.hashOnly.foldl delChunk s.chunk
    let m2 := f.cids.foldl delChunk m1
    { chunk := m2, hashData := s.hashData.filter (fun e => e.1 != f.root) }

/-- references the file itself holds on each of its chunks: 1 if registered, else 0 (C16 `fix:`) -/
def own (s : State) (f : FileS) : Nat := if s.registered f.root then 1 else 0

/-- `getUnRepeatChunk` = `GetChunkPyramid`: chunks no other registered file is known to use -/
def getUnRepeatChunk (s : State) (f : FileS) : List (Addr × Nat) :=
  ((f.cids.filter (fun c => refc s.chunk c ≤ own s f)).map (fun c => (c, f.number c))) ++
  ((f.hashOnly.filter (fun h => refc s.chunk h ≤ own s f)).map (fun h => (h, 1)))

end Aurora.ChunkPyramid
