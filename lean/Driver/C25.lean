import Driver.Util
import Aurora.Model.Blocklist
/-! Driver for C25: runs the blocklist model on the op lines of the harness. -/
namespace Driver.C25
open Aurora.Blocklist

def durStr (d : Int) : String := if d ≥ 9200000000000000000 then "max" else toString d

def peersStr (l : List (Addr × Entry)) : String :=
  let l := l.mergeSort (fun x y => decide (x.1 ≤ y.1))
  if l.isEmpty then "-" else
  ",".intercalate (l.map (fun p => s!"{p.1}:{p.2.ts / 1000000000}:{durStr p.2.dur}"))

def validAddr (a : String) : Bool :=
  a.length > 0 && a.length % 2 == 0 && a.toList.all (fun c => ('0' ≤ c && c ≤ '9') || ('a' ≤ c && c ≤ 'f'))

def step (σ : Sys) (op : List String) : Sys × String :=
  match op with
  | ["add", a, d] =>
    match Driver.parseInt d with
    | some d => if validAddr a then ({ σ with st := add σ.st σ.now a d }, "ok") else (σ, "bad-op")
    | none => (σ, "bad-op")
  | ["remove", a] => if validAddr a then ({ σ with st := remove σ.st a }, "ok") else (σ, "bad-op")
  | ["exists", a] =>
    if validAddr a then
      let r := existsOp σ.st σ.now a
      ({ σ with st := r.1 }, Driver.boolStr r.2)
    else (σ, "bad-op")
  | ["peers"] => (σ, peersStr (peers σ.st σ.now))
  | ["tick", n] =>
    match Driver.parseNat n with
    | some n => ({ σ with now := σ.now + n }, "ok")
    | none => (σ, "bad-op")
  | _ => (σ, "bad-op")

def handler : Driver.Handler := { σ := Sys, init := { now := 0, st := [] }, step := step }

end Driver.C25
