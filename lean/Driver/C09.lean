import Driver.Util
import Aurora.Model.Traversal
/-! Driver for C09: the traversal model runs over the chunk store and manifest node records the
    harness passes as annotations (ground truth read from the Put log on the Go side):
    `ref:<hex>`  `c:<addr>:<span>:<len>[:<payload>]`  `n:<ref>:<type>:<entry>:<prefix~type~ref;…|->`.
    `trie <id> <enc> <nfull> <tail> <seed>` is a manifest with one entry whose file is a large tree built
    by the real hashtrie writer from repeated leaf references (carried-up lone chunk shapes at the real
    constants); it enters the model exactly like a `dir`.
    The model recomputes every traversal from these stored chunks (span arithmetic of
    `subtrieSection`, recursion through intermediate chunks, manifest walk order). -/
namespace Driver.C09
open Aurora.Traversal

def C : Nat := 262144
def hs : Nat := 32

structure NodeRec where
  ref : Bytes
  typ : Nat
  entry : Bytes
  forks : List (Bytes × Nat × Bytes)   -- prefix, type, child reference

structure Obj where
  ref : Bytes
  man : Option MNode

structure St where
  store : Store := []
  objs : List (String × Obj) := []
  zeros : List (Nat × Bytes) := []   -- shared zero payloads for leaves (only the length matters)

def splitAnnot (op : List String) : List String × Option (List String) :=
  match op.span (· ≠ "|") with
  | (a, []) => (a, none)
  | (a, _ :: b) => (a, some b)

/-- syntactic check of a data-source token (the content itself is never needed by the model) -/
def validSrc (s : String) : Bool :=
  match s.splitOn ":" with
  | ["h", hx] => (Driver.hexToBytes hx).isSome
  | ["g", a, b] => a.toNat?.isSome && b.toNat?.isSome
  | ["p", a, b, c] => a.toNat?.isSome && b.toNat?.isSome && (match c.toNat? with | some p => p > 0 && p ≤ 67108864 | none => false)
  | _ => false

def zerosOf (st : St) (n : Nat) : St × Bytes :=
  match st.zeros.lookup n with
  | some z => (st, z)
  | none => let z := List.replicate n (0 : UInt8); ({ st with zeros := (n, z) :: st.zeros }, z)

def parseFork (s : String) : Option (Bytes × Nat × Bytes) :=
  match s.splitOn "~" with
  | [p, t, r] => do
    let p ← Driver.hexToBytes p
    let t ← t.toNat?
    let r ← Driver.hexToBytes r
    pure (p, t, r)
  | _ => none

/-- fold the annotation tokens into the state; returns the reference and the node records -/
def absorb (st : St) (toks : List String) : Option (St × Bytes × List NodeRec) :=
  toks.foldl (fun acc tok =>
    match acc with
    | none => none
    | some (st, ref, recs) =>
      match tok.splitOn ":" with
      | ["ref", h] => (Driver.hexToBytes h).map (fun r => (st, r, recs))
      | ["c", a, sp, ln] =>
        match Driver.hexToBytes a, sp.toNat?, ln.toNat? with
        | some a, some sp, some ln =>
          let (st, z) := zerosOf st ln
          some ({ st with store := (a, { span := sp, data := z }) :: st.store }, ref, recs)
        | _, _, _ => none
      | ["c", a, sp, ln, pl] =>
        match Driver.hexToBytes a, sp.toNat?, ln.toNat?, Driver.hexToBytes pl with
        | some a, some sp, some ln, some pl =>
          if pl.length = ln then some ({ st with store := (a, { span := sp, data := pl }) :: st.store }, ref, recs) else none
        | _, _, _, _ => none
      | ["n", r, t, e, fs] =>
        match Driver.hexToBytes r, t.toNat?, Driver.hexToBytes e with
        | some r, some t, some e =>
          let forks := if fs = "-" then some [] else (fs.splitOn ";").mapM parseFork
          forks.map (fun f => (st, ref, recs ++ [{ ref := r, typ := t, entry := e, forks := f }]))
        | _, _, _ => none
      | _ => none) (some (st, [], []))

/-- build the abstract manifest tree from the node records (child looked up by reference) -/
def buildM (recs : List NodeRec) : Nat → Bytes → Nat → Option MNode
  | 0, _, _ => none
  | fuel + 1, ref, typ =>
    match recs.find? (fun r => r.ref == ref) with
    | none => none
    | some r =>
      let kids := r.forks.mapM (fun (p, t, cr) => (buildM recs fuel cr t).map (fun m => (p, m)))
      kids.map (fun ks => MNode.mk ref (typ / 2 % 2 == 1) r.entry ks)

def bytesLe : Bytes → Bytes → Bool
  | [], _ => true
  | _ :: _, [] => false
  | a :: as, b :: bs => if a < b then true else if b < a then false else bytesLe as bs

def fnvAdd (h : UInt64) (b : Bytes) : UInt64 := b.foldl (fun h x => (h ^^^ x.toUInt64) * 1099511628211) h
def fnvItem (h : UInt64) (b : Bytes) : UInt64 := fnvAdd (fnvAdd h [UInt8.ofNat b.length]) b
def fnv0 : UInt64 := 14695981039346656037

def hex16 (h : UInt64) : String :=
  String.ofList ((List.range 16).map (fun i => Driver.nibble ((h.toNat / 16 ^ (15 - i)) % 16)))

def digestSeq (l : List Bytes) : String := hex16 (l.foldl fnvItem fnv0)
def digestSorted (l : List Bytes) : String := digestSeq (l.mergeSort (fun a b => bytesLe a b))

def dedup (l : List Bytes) : List Bytes :=
  let s := l.mergeSort (fun a b => bytesLe a b)
  let rec go : List Bytes → List Bytes
    | a :: b :: rest => if a == b then go (b :: rest) else a :: go (b :: rest)
    | l => l
  go s

def errStr : Err → String
  | _ => "err"

def create (st : St) (id : String) (annot : Option (List String)) (isDir : Bool) : St × String :=
  match annot with
  | none => (st, "err")
  | some toks =>
    match absorb st toks with
    | none => (st, "bad-annot")
    | some (st, ref, recs) =>
      let man := if isDir then buildM recs 400 ref 0 else none
      if isDir && man.isNone then (st, "bad-annot") else
      ({ st with objs := (id, { ref := ref, man := man }) :: st.objs.filter (·.1 ≠ id) }, s!"ok {ref.length}")

def validDirSpec (s : String) : Bool :=
  (s.splitOn ",").all (fun e =>
    match e.splitOn "=" with
    | [p, src] => (match Driver.hexToBytes p with | some b => !b.isEmpty | none => false) && validSrc src
    | _ => false)

def step (st : St) (line : List String) : St × String :=
  let (op, annot) := splitAnnot line
  match op with
  | ["file", id, enc, src] =>
    if (enc ≠ "0" && enc ≠ "1") || !validSrc src then (st, "bad-op") else create st id annot false
  | ["dir", id, enc, root, spec] =>
    if (enc ≠ "0" && enc ≠ "1") || (root ≠ "0" && root ≠ "1") || !validDirSpec spec then (st, "bad-op")
    else create st id annot true
  | ["trie", id, enc, nfull, tail, seed] =>
    -- synthetic large tree (real hashtrie writer fed with repeated leaf references) published as the only
    -- entry of a manifest: the model sees it, like a `dir`, only through the stored chunks / node records
    let digits (t : String) : Bool := !t.isEmpty && t.toList.all Char.isDigit
    match nfull.toNat?, tail.toNat?, seed.toNat? with
    | some nf, some tl, some sd =>
      if (enc ≠ "0" && enc ≠ "1") || !digits nfull || !digits tail || !digits seed
          || nf > 40000 || tl > C || (nf = 0 && tl = 0) || sd ≥ 4294967296 then (st, "bad-op")
      else create st id annot true
    | _, _, _ => (st, "bad-op")
  | ["travref", h] =>
    match Driver.hexToBytes h with
    | none => (st, "bad-op")
    | some r =>
      match iterate C hs false st.store r with
      | .error _ => (st, "err")
      | .ok x => (st, s!"ok n={x.reported.length}")
  | [kind, id] =>
    if kind ≠ "traverse" && kind ≠ "pyramid" && kind ≠ "hashes" && kind ≠ "pin" then (st, "bad-op") else
    match st.objs.lookup id with
    | none => (st, "noobj")
    | some o =>
      let trav : Except Err (List Bytes) := match o.man with
        | some m => traverseManifest C hs st.store m
        | none => (iterate C hs false st.store o.ref).map (·.reported)
      match kind with
      | "traverse" =>
        match trav with
        | .error e => (st, errStr e)
        | .ok rep =>
          let first := match rep with | a :: _ => Driver.bytesToHex a | [] => "-"
          let seq := if o.man.isSome then "-" else digestSeq rep
          (st, s!"ok n={rep.length} first={first} set={digestSorted rep} seq={seq}")
      | "pyramid" =>
        let keys := match o.man with
          | some m => pyramidManifest C hs st.store m
          | none => pyramidKeys C hs st.store o.ref
        match keys with
        | .error e => (st, errStr e)
        | .ok ks => let ks := dedup ks; (st, s!"ok n={ks.length} set={digestSeq ks}")
      | "hashes" =>
        let hsx : Except Err (List (List Bytes)) := match o.man with
          | some m => hashesManifest C hs st.store m
          | none => (iterate C hs false st.store o.ref).map (fun x => [x.data])
        match hsx with
        | .error e => (st, errStr e)
        | .ok ls =>
          let h := ls.foldl (fun h l => l.foldl fnvItem (fnvAdd h [0xfe])) fnv0
          (st, s!"ok files={ls.length} n={(ls.map List.length).sum} seq={hex16 h}")
      | _ => -- pin: CreatePin(traverse) pins every reported address that is stored; others are ErrNotFound (ignored)
        match trav with
        | .error e => (st, errStr e)
        | .ok rep =>
          let found := rep.filter (fun a => (st.store.get a).isSome)
          let miss := rep.filter (fun a => (st.store.get a).isNone)
          (st, s!"ok pinned={(dedup found).length} missing={miss.length}")
  | _ => (st, "bad-op")

def handler : Driver.Handler := { σ := St, init := {}, step := step }

end Driver.C09
