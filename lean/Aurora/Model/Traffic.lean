/-
Model of the paying side of /repo/pkg/settlement/traffic/traffic.go (property C31):
  PutRetrieveTraffic, Pay / issue / putSendCheque, AvailableBalance, TrafficInfo, LastSentCheque,
  trafficInit / trafficPeerChainUpdate / trafficPeerChequeUpdate (24 h refresh and start-up),
  CashCheque + the receipt goroutine, and a process restart (fresh service on the same store).
Hand translation (after the repair of `issue`: the cumulative payout is a *fresh* big.Int, so no
big.Int of a Traffic record is ever mutated in place and value semantics is exact).  The code
before the repair is modelled with an explicit heap in `issueOld…` at the end of this file.
Chain addresses / peers are small ids; amounts are `Int` (Go: *big.Int).  The chain stub
(balance, cashed amounts, known addresses, failure switch) is part of the state.
Core Lean only.
-/
namespace Aurora.Traffic

def upd {β : Type} (f : Nat → β) (a : Nat) (v : β) : Nat → β := fun x => if x = a then v else f x

/-- Σ_{a<n} f a -/
def sumTo : Nat → (Nat → Int) → Int
  | 0, _ => 0
  | n + 1, f => sumTo n f + f n

/-- `maxBigint` -/
def imax (a b : Int) : Int := if a < b then b else a

structure St where
  -- in-memory service state
  fwd : Nat → Option Nat        -- address book peer ↦ chain address
  rev : Nat → Option Nat
  chain : Nat → Int             -- Traffic.retrieveChainTraffic  (what the peer cashed on chain)
  chq : Nat → Int               -- Traffic.retrieveChequeTraffic (cumulative payout of our last cheque)
  tot : Nat → Int               -- Traffic.retrieveTraffic       (total traffic owed)
  bal : Int                     -- trafficPeers.balance
  -- state store (survives restarts)
  sFwd : Nat → Option Nat
  sRev : Nat → Option Nat
  sLast : Nat → Option Int      -- traffic_last_send_cheque_
  sRetr : Nat → Option Int      -- retrieved_traffic_
  sChain : Nat → Option Int     -- chain_retrieved_traffic_
  -- chain stub
  cBal : Int                    -- BalanceOf(self)
  cAmt : Nat → Int              -- TransAmount(self, a)
  cKnown : Nat → Bool           -- a ∈ RetrievedAddress/TransferredAddress(self)
  cFail : Bool                  -- TransAmount fails

def init : St :=
  { fwd := fun _ => none, rev := fun _ => none, chain := fun _ => 0, chq := fun _ => 0, tot := fun _ => 0, bal := 0,
    sFwd := fun _ => none, sRev := fun _ => none, sLast := fun _ => none, sRetr := fun _ => none, sChain := fun _ => none,
    cBal := 0, cAmt := fun _ => 0, cKnown := fun _ => false, cFail := false }

/-- `AvailableBalance()` over the address ids `< n` -/
def avail (n : Nat) (st : St) : Int := st.bal + (sumTo n st.chain - sumTo n st.tot)

/-- `TrafficInfo().AvailableBalance` (uses the cheque totals) and `.TotalSendTraffic` -/
def infoAvail (n : Nat) (st : St) : Int := st.bal + (sumTo n st.chain - sumTo n st.chq)
def infoSent (n : Nat) (st : St) : Int := sumTo n st.chq

def register (st : St) (p a : Nat) : St :=
  { st with fwd := upd st.fwd p (some a), rev := upd st.rev a (some p),
            sFwd := upd st.sFwd p (some a), sRev := upd st.sRev a (some p) }

/-- `PutRetrieveTraffic(peer, amt)`; `none` = ErrNoCheque (unknown peer) -/
def credit (st : St) (p : Nat) (amt : Int) : Option St :=
  match st.fwd p with
  | none => none
  | some a =>
    let t := st.tot a + amt
    some { st with tot := upd st.tot a t, sRetr := upd st.sRetr a (some t) }

inductive PayStatus where
  | unknown        -- ErrUnknownBeneficary (peer disconnected)
  | below          -- outstanding < threshold: nothing happens
  | insufficient   -- ErrInsufficientFunds
  | deliverFail    -- EmitCheque failed
  | ok
deriving DecidableEq, Repr

structure PayOut where
  status : PayStatus
  emit : Option Int      -- cumulative payout of the cheque handed to EmitCheque
  notify : Option Int    -- amount passed to notifyPaymentFunc (deferred in `issue`)
deriving DecidableEq, Repr

/-- `Pay(ctx, peer, threshold)` with the protocol fake scripted to fail (`fail`) or deliver -/
def pay (n : Nat) (st : St) (p : Nat) (thr : Int) (fail : Bool) : St × PayOut :=
  match st.fwd p with
  | none => (st, ⟨.unknown, none, none⟩)
  | some a =>
    let balance := st.tot a - st.chq a
    if balance < thr then (st, ⟨.below, none, none⟩)
    else if avail n st < balance then (st, ⟨.insufficient, none, some balance⟩)
    else
      let cum := st.chq a + balance
      if fail then (st, ⟨.deliverFail, some cum, some balance⟩)
      else
        ({ st with chq := upd st.chq a cum, tot := upd st.tot a (imax (st.tot a) cum),
                   sLast := upd st.sLast a (some cum) }, ⟨.ok, some cum, some balance⟩)

/-- value `trafficPeerChainUpdate` loads for address `a` -/
def chainLoad (st : St) (a : Nat) : Int :=
  if st.cFail then (st.sChain a).getD 0 else st.cAmt a

/-- is `a` among the addresses `trafficInit` refreshes -/
def inSet (st : St) (a : Nat) : Bool := (st.sRetr a).isSome || st.cKnown a

/-- `trafficInit` + `InitAddressBook` (start-up and the 24 h refresh) -/
def refresh (st : St) : St :=
  { st with
    chain := fun a => if inSet st a then chainLoad st a else st.chain a,
    sChain := fun a => if inSet st a && !st.cFail then some (st.cAmt a) else st.sChain a,
    chq := fun a => if inSet st a then
        (match st.sLast a with | some l => imax (chainLoad st a) l | none => chainLoad st a) else st.chq a,
    tot := fun a => if inSet st a then
        imax (match st.sLast a with | some l => imax (chainLoad st a) l | none => chainLoad st a) ((st.sRetr a).getD 0)
        else st.tot a,
    bal := st.cBal,
    fwd := fun p => match st.sFwd p with | some a => some a | none => st.fwd p,
    rev := fun a => match st.sRev a with | some p => some p | none => st.rev a }

/-- process restart: a new service over the same store and chain, then `Init()` -/
def restart (st : St) : St :=
  refresh { st with fwd := fun _ => none, rev := fun _ => none, chain := fun _ => 0, chq := fun _ => 0,
                    tot := fun _ => 0, bal := 0 }

/-- `CashCheque(peer)` followed by the receipt goroutine; `status`: `none` = WaitForReceipt error,
    `some 1` = success, other = failed transaction.  `none` result = ErrNoCheque. -/
def cashout (st : St) (p : Nat) (status : Option Nat) : Option St :=
  match st.fwd p with
  | none => none
  | some a =>
    if status = some 1 then
      -- PutChainRetrieveTraffic(a, retrieveChequeTraffic); balance := BalanceOf(self); trafficPeerChainUpdate(a)
      let st1 := { st with sChain := upd st.sChain a (some (st.chq a)), bal := st.cBal }
      some { st1 with chain := upd st1.chain a (chainLoad st1 a),
                      sChain := if st1.cFail then st1.sChain else upd st1.sChain a (some (st1.cAmt a)) }
    else some st

inductive Op where
  | reg (p a : Nat)
  | credit (p : Nat) (amt : Nat)
  | pay (p : Nat) (thr : Int) (fail : Bool)
  | chainBal (v : Nat)
  | chainCashed (a : Nat) (v : Nat)
  | chainFail (b : Bool)
  | refresh
  | restart
  | cashout (p : Nat) (status : Option Nat)
deriving Repr

def step (n : Nat) (st : St) : Op → St
  | .reg p a => register st p a
  | .credit p amt => (credit st p amt).getD st
  | .pay p thr fail => (pay n st p thr fail).1
  | .chainBal v => { st with cBal := v }
  | .chainCashed a v => { st with cAmt := upd st.cAmt a v, cKnown := upd st.cKnown a true }
  | .chainFail b => { st with cFail := b }
  | .refresh => refresh st
  | .restart => restart st
  | .cashout p s => (cashout st p s).getD st

def run (n : Nat) (st : St) (ops : List Op) : St := ops.foldl (step n) st

/-! ### The code before the repair, with an explicit heap of big.Int cells

`trafficPeerChequeUpdate` assigns the *same pointer* to `retrieveChequeTraffic`, `retrieveTraffic`
and `retrieveChainTraffic`; `PutRetrieveTraffic` allocates a fresh cell for `retrieveTraffic`;
the old `issue` did `cumulativePayout.Add(cumulativePayout, balance)` on the cheque cell. -/

structure HeapRec where
  cells : List Int     -- heap
  pChain : Nat         -- cell index held by retrieveChainTraffic
  pChq : Nat
  pTot : Nat
  bal : Int

def HeapRec.get (h : HeapRec) (p : Nat) : Int := h.cells.getD p 0

/-- state of one peer right after a refresh that loaded `cashed` from the chain (no cheque, no
    stored total): one cell, three aliases -/
def heapAfterRefresh (bal cashed : Int) : HeapRec := ⟨[cashed], 0, 0, 0, bal⟩

/-- `PutRetrieveTraffic`: `retrieveTraffic = new(big.Int).Add(retrieveTraffic, amt)` -/
def heapCredit (h : HeapRec) (amt : Int) : HeapRec :=
  { h with cells := h.cells ++ [h.get h.pTot + amt], pTot := h.cells.length }

/-- old `issue` (delivery succeeds): in-place `Add` on the cheque cell -/
def heapIssueOld (h : HeapRec) : HeapRec :=
  let balance := h.get h.pTot - h.get h.pChq
  { h with cells := h.cells.set h.pChq (h.get h.pChq + balance) }

def heapAvail (h : HeapRec) : Int := h.bal + (h.get h.pChain - h.get h.pTot)

end Aurora.Traffic
