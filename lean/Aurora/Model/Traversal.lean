/-!
# Chunk traversal: model of `joiner.IterateChunkAddresses / processChunkAddresses`
(`/repo/pkg/file/joiner/joiner.go`), of `traversal.Traverse / GetPyramid / GetChunkHashes`
(`/repo/pkg/traversal/traversal.go`) and of `manifest.IterateAddresses`
(`/repo/pkg/manifest/mantaray.go`) — after the `fix:` commit that reports `ref[:HashSize]`.

The store is the *decrypted view* of the chunk store (what `encryption/store.decryptingStore.Get`
returns): address (32 bytes) ↦ span and payload.  A reference is `hs` bytes (plain) or `2*hs`
bytes (address ‖ key, encrypted); the address of the chunk is its first `hs` bytes.

`Tree` is the specification side: the tree of chunks an upload writes (local copy of the shared
file-format tree; leaves and intermediate chunks with span and child references).
-/
namespace Aurora.Traversal

abbrev Bytes := List UInt8

structure Chunk where
  span : Nat
  data : Bytes          -- payload without the 8 span bytes
deriving Repr

abbrev Store := List (Bytes × Chunk)

def Store.get (s : Store) (a : Bytes) : Option Chunk :=
  match s.find? (fun p => p.1 == a) with
  | some p => some p.2
  | none => none

inductive Err | notFound | refLength | malformed | fuel
deriving Repr, DecidableEq

/-- what one `IterateChunkAddresses` run produces: the `fn` calls in order, the `dataChunks`
    list, and the insertions into the `edgeChunks` map -/
structure Res where
  reported : List Bytes
  data : List Bytes
  edges : List (Bytes × Chunk)
deriving Repr

/-- the `for { … branchSize *= branching }` loop of `subtrieSection` (Go has no fuel; 64 doublings
    exceed any int64 span).  `Nat` subtraction truncates where Go's int64 goes negative; both then
    satisfy `≤ branchSize`. -/
def branchLoop (branching subtrieSize refs : Nat) : Nat → Nat → Nat
  | 0, bs => bs
  | f + 1, bs =>
    if subtrieSize - bs * (refs - 1) ≤ bs then bs
    else branchLoop branching subtrieSize refs f (bs * branching)

/-- `subtrieSection(data, startIdx, refLen, subtrieSize)` with `len(data) = dataLen` -/
def subtrieSection (C : Nat) (dataLen startIdx refLen subtrieSize : Nat) : Nat :=
  let refs := dataLen / refLen
  let bs := branchLoop (C / refLen) subtrieSize refs 64 C
  if startIdx = (refs - 1) * refLen then subtrieSize - (refs - 1) * bs else bs

/-- `n` consecutive pieces of `w` bytes -/
def pieces (w : Nat) : Nat → Bytes → List Bytes
  | 0, _ => []
  | n + 1, l => l.take w :: pieces w n (l.drop w)

/-- the references of an intermediate chunk payload (`cursor += refLength`) -/
def refsOf (R : Nat) (data : Bytes) : List Bytes := pieces R ((data.length + R - 1) / R) data

/-- the `for cursor` loop of `processChunkAddresses` over the remaining references; `rec` is the
    recursive call on a fetched intermediate chunk -/
def loopRefs (C hs R : Nat) (saveEdge : Bool) (store : Store) (rec : Bytes → Nat → Except Err Res)
    (dataLen span : Nat) : List Bytes → Nat → Except Err Res
  | [], _ => .ok ⟨[], [], []⟩
  | ref :: rest, cursor =>
    if ref.length ≠ R then .error .malformed else
    let addr := ref.take hs
    let sec := subtrieSection C dataLen cursor R span
    if sec ≤ C then
      match loopRefs C hs R saveEdge store rec dataLen span rest (cursor + R) with
      | .error e => .error e
      | .ok r => .ok ⟨addr :: r.reported, addr :: r.data, r.edges⟩
    else
      match store.get addr with
      | none => .error .notFound
      | some ch =>
        match rec ch.data ch.span with
        | .error e => .error e
        | .ok sub =>
          match loopRefs C hs R saveEdge store rec dataLen span rest (cursor + R) with
          | .error e => .error e
          | .ok r =>
            let e := if saveEdge && decide (ch.span > ch.data.length) then [(addr, ch)] else []
            .ok ⟨addr :: (sub.reported ++ r.reported), sub.data ++ r.data, e ++ (sub.edges ++ r.edges)⟩

/-- `processChunkAddresses(ctx, fn, data, subTrieSize)`; `jaddr` is `j.addr` (the root address) -/
def process (C hs R : Nat) (saveEdge : Bool) (store : Store) (jaddr : Bytes) : Nat → Bytes → Nat → Except Err Res
  | 0, _, _ => .error .fuel
  | fuel + 1, data, span =>
    if span ≤ data.length then .ok ⟨[], [jaddr], []⟩
    else loopRefs C hs R saveEdge store (process C hs R saveEdge store jaddr fuel) data.length span (refsOf R data) 0

/-- `joiner.New(ref)` followed by `IterateChunkAddresses` -/
def iterate (C hs : Nat) (saveEdge : Bool) (store : Store) (ref : Bytes) : Except Err Res :=
  if ref.length ≠ hs ∧ ref.length ≠ 2 * hs then .error .refLength else
  match store.get (ref.take hs) with
  | none => .error .notFound
  | some root =>
    match process C hs ref.length saveEdge store (ref.take hs) 64 root.data root.span with
    | .error e => .error e
    | .ok r => .ok ⟨ref.take hs :: r.reported, r.data, r.edges⟩

/-- the keys `GetPyramid`'s `storePyramidHashes(ref)` adds: the root, and (only when the span
    exceeds one chunk) the intermediate chunks below it -/
def pyramidKeys (C hs : Nat) (store : Store) (ref : Bytes) : Except Err (List Bytes) :=
  if ref.length ≠ hs ∧ ref.length ≠ 2 * hs then .error .refLength else
  match store.get (ref.take hs) with
  | none => .error .notFound
  | some root =>
    if root.span > C then
      match iterate C hs true store ref with
      | .error e => .error e
      | .ok r => .ok (ref.take hs :: r.edges.map (·.1))
    else .ok [ref.take hs]

/-! ## Manifests (abstract: node blobs are files; serialisation trusted to the mantaray library) -/

inductive MNode where
  | mk (ref : Bytes) (isValue : Bool) (entry : Bytes) (forks : List (Bytes × MNode))

def zeroAddr (hs : Nat) : Bytes := List.replicate hs 0

/-- what the `IterateAddresses` walker hands to `fn` at one node -/
def nodeRefs (hs : Nat) (ref : Bytes) (isValue : Bool) (entry : Bytes) : List Bytes :=
  ref :: (if isValue && !entry.isEmpty && !(entry == zeroAddr hs) then [entry] else [])

mutual
/-- references handed to `fn` by `IterateAddresses` (`WalkNode`: node first, then its forks) -/
def MNode.refs (hs : Nat) : MNode → List Bytes
  | .mk ref v e forks => nodeRefs hs ref v e ++ MNode.refsForks hs forks
def MNode.refsForks (hs : Nat) : List (Bytes × MNode) → List Bytes
  | [] => []
  | (_, n) :: rest => MNode.refs hs n ++ MNode.refsForks hs rest
end

mutual
/-- entries for which `WalkLevel` (`walkDeepFirst`) calls back with type `File`: value nodes whose
    path is non-empty and does not end in `/`; forks in ascending byte order (the list order) -/
def MNode.files (path pfx : Bytes) : MNode → List Bytes
  | .mk _ v e forks =>
    let p := path ++ pfx
    (if v && !p.isEmpty && !(p.getLast? == some 47) then [e] else []) ++ MNode.filesForks p forks
def MNode.filesForks (p : Bytes) : List (Bytes × MNode) → List Bytes
  | [] => []
  | (pfx, n) :: rest => MNode.files p pfx n ++ MNode.filesForks p rest
end

/-- run `f` on every reference, concatenating (first error wins) -/
def mapRefs {α} (f : Bytes → Except Err (List α)) : List Bytes → Except Err (List α)
  | [] => .ok []
  | r :: rest =>
    match f r with
    | .error e => .error e
    | .ok a =>
      match mapRefs f rest with
      | .error e => .error e
      | .ok b => .ok (a ++ b)

/-- `Traverse` of a manifest reference -/
def traverseManifest (C hs : Nat) (store : Store) (m : MNode) : Except Err (List Bytes) :=
  mapRefs (fun r => (iterate C hs false store r).map (·.reported)) (m.refs hs)

/-- `GetPyramid` of a manifest reference (key set) -/
def pyramidManifest (C hs : Nat) (store : Store) (m : MNode) : Except Err (List Bytes) :=
  mapRefs (pyramidKeys C hs store) (m.refs hs)

/-- `GetChunkHashes(ctx, ref, nil)` of a manifest reference: one data-chunk list per file -/
def hashesManifest (C hs : Nat) (store : Store) (m : MNode) : Except Err (List (List Bytes)) :=
  mapRefs (fun r => (iterate C hs false store r).map (fun x => [x.data])) (m.files [] [])

/-! ## Specification side: the tree of chunks of one file -/

/-- a chunk tree: `ref` is the reference stored in the parent (address ‖ optional key) -/
inductive Tree where
  | leaf (ref : Bytes) (size : Nat)
  | node (ref : Bytes) (span : Nat) (kids : List Tree)

def Tree.ref : Tree → Bytes
  | .leaf r _ => r
  | .node r _ _ => r

def Tree.size : Tree → Nat
  | .leaf _ s => s
  | .node _ s _ => s

def Tree.isLeaf : Tree → Bool
  | .leaf _ _ => true
  | .node _ _ _ => false

def Tree.addr (hs : Nat) (t : Tree) : Bytes := t.ref.take hs

mutual
/-- addresses of all chunks below the root (not the root itself) in the order the code reports
    them: each child, followed by everything below it -/
def Tree.under (hs : Nat) : Tree → List Bytes
  | .leaf _ _ => []
  | .node _ _ kids => Tree.underKids hs kids
def Tree.underKids (hs : Nat) : List Tree → List Bytes
  | [] => []
  | k :: rest => (k.ref.take hs :: Tree.under hs k) ++ Tree.underKids hs rest
end

/-- every chunk of the tree, root first -/
def Tree.chunks (hs : Nat) (t : Tree) : List Bytes := t.addr hs :: t.under hs

mutual
/-- addresses of the data (leaf) chunks strictly below the root, left to right -/
def Tree.leavesBelow (hs : Nat) : Tree → List Bytes
  | .leaf _ _ => []
  | .node _ _ kids => Tree.leavesKids hs kids
def Tree.leavesKids (hs : Nat) : List Tree → List Bytes
  | [] => []
  | .leaf r _ :: rest => r.take hs :: Tree.leavesKids hs rest
  | .node _ _ kids :: rest => Tree.leavesKids hs kids ++ Tree.leavesKids hs rest
end

mutual
/-- addresses of the intermediate chunks strictly below the root -/
def Tree.innerBelow (hs : Nat) : Tree → List Bytes
  | .leaf _ _ => []
  | .node _ _ kids => Tree.innerKids hs kids
def Tree.innerKids (hs : Nat) : List Tree → List Bytes
  | [] => []
  | .leaf _ _ :: rest => Tree.innerKids hs rest
  | .node r _ kids :: rest => (r.take hs :: Tree.innerKids hs kids) ++ Tree.innerKids hs rest
end

/-- data chunks of a file: its leaves (the root itself when the file is a single chunk) -/
def Tree.dataChunks (hs : Nat) : Tree → List Bytes
  | .leaf r _ => [r.take hs]
  | t => t.leavesBelow hs

/-- payload of an intermediate chunk: its children's references -/
def kidsPayload (kids : List Tree) : Bytes := (kids.map Tree.ref).flatten

end Aurora.Traversal
