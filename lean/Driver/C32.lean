import Driver.Util
import Aurora.Model.Accounting
/-! Driver for C32: runs the accounting model; the settlement stub's answers are fields of the op line. -/
namespace Driver.C32
open Aurora.Accounting

/-- the harness constructs Accounting with these -/
def cfg : Cfg := { tolerance := 1000, threshold := 100 }

/-- `e` = error, otherwise an integer -/
def parseOI (s : String) : Option (Option Int) :=
  if s = "e" then some none else (Driver.parseInt s).map some

def nPeer : Nat := 8
def u64 : Nat := 18446744073709551616

/-- the `(kind amount)` pairs of a `first` line -/
def pairs : List String → Option (List (String × Nat))
  | [] => some []
  | k :: a :: rest =>
    match Driver.parseNat a, pairs rest with
    | some a, some t => if k = "c" ∨ k = "r" ∨ k = "n" then some ((k, a) :: t) else none
    | _, _ => none
  | _ => none

/-- `first`: k goroutines touch a peer without a record at the same time.  `getAccountingPeer` holds
    the peer-map mutex across lookup, `RetrieveTraffic` and insertion, so exactly one record is built
    and the operations then run one after the other under its lock; with opening balance ≥ Σ payments
    (checked here) no payment truncates and the outcome does not depend on the order, so the listed
    order is used.  `paid` (was a payment requested?) is only reported when there is no payment in
    the group — otherwise it depends on the order. -/
def first (st : St) (p : Nat) (rt : Option Int) (ops : List (String × Nat)) : St × String :=
  let sumN : Nat := (ops.filter (·.1 = "n")).foldl (fun a x => a + x.2) 0
  match rt with
  | some r => if r < 0 ∨ r < sumN then (st, "bad-op") else
    match st.unpaid p with
    | some _ => (st, "known")
    | none =>
      let (st', pays) := ops.foldl (fun (acc : St × Nat) x =>
        if x.1 = "c" then let (s', o) := credit cfg acc.1 p x.2 rt false; (s', acc.2 + o.pays)
        else if x.1 = "n" then ((notify acc.1 p x.2 rt).1, acc.2)
        else ((reserve acc.1 p x.2 rt (some (2 ^ 66))).1, acc.2)) (st, 0)
      match st'.unpaid p with
      | some u => (st', s!"ok unpaid={u} paid={if sumN > 0 then "-" else if pays > 0 then "1" else "0"}")
      | none => (st', "err")
  | none =>
    match st.unpaid p with
    | some _ => (st, "known")
    | none => (st, "err")

def step (st : St) (op : List String) : St × String :=
  match op with
  | "first" :: p :: rt :: k :: rest =>
    match Driver.parseNat p, parseOI rt, Driver.parseNat k, pairs rest with
    | some p, some rt, some k, some ops =>
      if p < nPeer ∧ 1 ≤ k ∧ k ≤ 4 ∧ ops.length = k ∧ ops.all (·.2 < u64) then first st p rt ops else (st, "bad-op")
    | _, _, _, _ => (st, "bad-op")
  | ["reserve", p, amt, rt, av] =>
    match Driver.parseNat p, Driver.parseNat amt, parseOI rt, parseOI av with
    | some p, some amt, some rt, some av =>
      if p < nPeer ∧ amt < u64 then
        let (st', o) := reserve st p amt rt av
        (st', match o with | .err => "err" | .low => "low" | .ok => "ok")
      else (st, "bad-op")
    | _, _, _, _ => (st, "bad-op")
  | ["credit", p, amt, rt, pe] =>
    match Driver.parseNat p, Driver.parseNat amt, parseOI rt, Driver.parseNat pe with
    | some p, some amt, some rt, some pe =>
      if p < nPeer ∧ amt < u64 ∧ pe ≤ 1 then
        let (st', o) := credit cfg st p amt rt (pe == 1)
        (st', if o.ok then s!"ok pay={o.pays}" else s!"err pay={o.pays}")
      else (st, "bad-op")
    | _, _, _, _ => (st, "bad-op")
  | ["burst", p, n, amt, rt] =>
    match Driver.parseNat p, Driver.parseNat n, Driver.parseNat amt, parseOI rt with
    | some p, some n, some amt, some rt =>
      if p < nPeer ∧ amt < u64 ∧ 0 < n ∧ n ≤ 3000 then
        -- n sequential credits (a slow `Pay` only delays the requests): successes and payment requests add up
        let r := (List.range n).foldl (fun (acc : _ × Nat × Nat) _ =>
          let (st', o) := credit cfg acc.1 p amt rt false
          (st', acc.2.1 + (if o.ok then 1 else 0), acc.2.2 + o.pays)) (st, 0, 0)
        (r.1, s!"ok n={r.2.1} pay={r.2.2}")
      else (st, "bad-op")
    | _, _, _, _ => (st, "bad-op")
  | ["debit", p, amt, rt, tt, pe] =>
    match Driver.parseNat p, Driver.parseNat amt, parseOI rt, parseOI tt, Driver.parseNat pe with
    | some p, some amt, some rt, some tt, some pe =>
      if p < nPeer ∧ amt < u64 ∧ pe ≤ 1 then
        let (st', o) := debit cfg st p amt rt tt (pe == 1)
        let r := match o.res with | .err => "err" | .blocked => "blocked" | .ok => "ok"
        let put := match o.put with | none => "-" | some a => toString a
        (st', s!"{r} put={put}")
      else (st, "bad-op")
    | _, _, _, _, _ => (st, "bad-op")
  | ["notify", p, amt, rt] =>
    match Driver.parseNat p, Driver.parseInt amt, parseOI rt with
    | some p, some amt, some rt =>
      if p < nPeer then
        let (st', ok) := notify st p amt rt
        (st', if ok then "ok" else "err")
      else (st, "bad-op")
    | _, _, _ => (st, "bad-op")
  | ["unpaid", p, rt] =>
    match Driver.parseNat p, parseOI rt with
    | some p, some rt =>
      if p < nPeer then
        let (st', o) := peek st p rt
        (st', match o with | none => "err" | some u => toString u)
      else (st, "bad-op")
    | _, _ => (st, "bad-op")
  | ["stress", p, k, amt, rt] =>
    match Driver.parseNat p, Driver.parseNat k, Driver.parseNat amt, parseOI rt with
    | some p, some k, some amt, some rt =>
      if p < nPeer ∧ k ≤ 64 ∧ amt < u64 then
        match peek st p rt with
        | (_, none) => (st, "err")
        | (st1, some _) =>
          let (st2, pays) := (List.range k).foldl
            (fun (acc : St × Nat) _ => let (s', o) := credit cfg acc.1 p amt none false; (s', acc.2 + o.pays)) (st1, 0)
          (st2, s!"ok pay={pays}")
      else (st, "bad-op")
    | _, _, _, _ => (st, "bad-op")
  | _ => (st, "bad-op")

def handler : Driver.Handler := { σ := St, init := init, step := step }

end Driver.C32
