// Package c10: correspondence + oracle for directory manifests (property C10):
// manifest.NewDefaultManifest / NewDefaultManifestReference (pkg/manifest/mantaray.go over the
// dependency gauss-project/manifest/mantaray) persisted through pkg/file/loadsave into a real
// in-memory chunk store.  The oracle is a plain Go map.
package c10

import (
	"bytes"
	"context"
	"errors"
	"fmt"
	"sort"
	"strconv"
	"strings"

	"github.com/gauss-project/aurorafs/pkg/boson"
	"github.com/gauss-project/aurorafs/pkg/file"
	"github.com/gauss-project/aurorafs/pkg/file/loadsave"
	"github.com/gauss-project/aurorafs/pkg/file/pipeline"
	"github.com/gauss-project/aurorafs/pkg/file/pipeline/builder"
	"github.com/gauss-project/aurorafs/pkg/manifest"
	"github.com/gauss-project/aurorafs/pkg/storage"
	smock "github.com/gauss-project/aurorafs/pkg/storage/mock"

	"verifharness/core"
)

type prop struct{}

func init() { core.Register(prop{}) }

func (prop) ID() string { return "C10" }
func (prop) Rule() string {
	return "cases: 6-40 ops on one manifest (`new 0|1` optionally restarts it plain/encrypted): add <path> <ref> <meta> / remove <path> / store / reload / lookup <path> / hasprefix <prefix>. " +
		"Paths over {a,b,/,.} of length 1-40 (some 31-70 bytes for the 30-byte fork-prefix split), drawn so that shared prefixes, nesting, overwrites and path/extension pairs are frequent; " +
		"three streams: clean (adds with metadata, removes only of keys without extensions and only before the first store — the guard of the partial theorem), mixed (anything), and directed histories for every recorded finding. " +
		"Every case ends by observing all keys ever used plus prefixes. Non-trivial: >=3 adds, >=1 store+reload and >=3 observations; distinct by op-list hash."
}

type val struct {
	ref  byte
	meta string
}

type runner struct {
	ctx  context.Context
	st   storage.Storer
	ls   file.LoadSaver
	enc  bool
	m    manifest.Interface
	last *boson.Address
	dead bool

	// ---- oracle (model-free): the mapping, and which paths a recorded finding may affect
	mp        map[string]val
	snap      map[string]val // the mapping as of the last successful Store (what a reload must show)
	refsEver  map[string]map[byte]bool
	metasEver map[string]map[string]bool
	dropped   map[string]bool // keys that extended a removed path
	removeNP  map[string]bool // removed after a store/reload of this history
	addNP     map[string]bool // added after (store|reload ; read) on the same object
	metaKeep  map[string]bool // overwritten with empty metadata after having had metadata
	removed   []string        // paths whose removal answered ok
	persisted bool            // a store or reload happened in this history
	stuck     bool            // persisted object has been read since (its nodes keep their ref)
	overwrote bool            // since the last reload an add ended at an existing node (store may fail)
	orphaned  map[string]bool // keys below a node that an add overwrote while it was not loaded
	orphanTop map[string]bool // the paths of those adds
	emptyAdd  bool
}

func (prop) New() core.Runner {
	rn := &runner{ctx: context.Background()}
	rn.reset(false)
	return rn
}
func (*runner) Close() {}

func (rn *runner) reset(enc bool) {
	rn.st = smock.NewStorer()
	rn.enc = enc
	ls := loadsave.New(rn.st, func() pipeline.Interface {
		return builder.NewPipelineBuilder(rn.ctx, rn.st, storage.ModePutUpload, enc)
	})
	rn.ls = ls
	rn.m, _ = manifest.NewDefaultManifest(ls, enc)
	rn.last, rn.dead = nil, false
	rn.mp, rn.snap = map[string]val{}, nil
	rn.refsEver, rn.metasEver = map[string]map[byte]bool{}, map[string]map[string]bool{}
	rn.dropped, rn.removeNP, rn.addNP, rn.metaKeep = map[string]bool{}, map[string]bool{}, map[string]bool{}, map[string]bool{}
	rn.removed = nil
	rn.orphaned, rn.orphanTop = map[string]bool{}, map[string]bool{}
	rn.persisted, rn.stuck, rn.overwrote, rn.emptyAdd = false, false, false, false
}

func (rn *runner) entry(b byte) boson.Address {
	n := 32
	if rn.enc {
		n = 64
	}
	return boson.NewAddress(bytes.Repeat([]byte{b}, n))
}

func parseMeta(s string) (map[string]string, bool) {
	if s == "-" {
		return nil, true
	}
	m := map[string]string{}
	prev := ""
	for _, kv := range strings.Split(s, ";") {
		f := strings.SplitN(kv, "=", 2)
		if len(f) != 2 || f[0] == "" || f[0] <= prev {
			return nil, false
		}
		for _, c := range f[0] + f[1] {
			if !(c >= 'a' && c <= 'z' || c >= '0' && c <= '9') {
				return nil, false
			}
		}
		prev = f[0]
		m[f[0]] = f[1]
	}
	return m, true
}

func fmtMeta(m map[string]string) string {
	if len(m) == 0 {
		return "-"
	}
	var ks []string
	for k := range m {
		ks = append(ks, k)
	}
	sort.Strings(ks)
	var out []string
	for _, k := range ks {
		out = append(out, k+"="+m[k])
	}
	return strings.Join(out, ";")
}

func (rn *runner) staleOK(p string, ref byte, meta string) bool {
	return rn.refsEver[p][ref] && (meta == "-" || rn.metasEver[p][meta])
}

func (rn *runner) anyWithPrefix(set map[string]bool, q string) bool {
	for k := range set {
		if strings.HasPrefix(k, q) {
			return true
		}
	}
	return false
}

func (rn *runner) Step(ctx *core.Ctx, op []string) string {
	if len(op) == 2 && op[0] == "new" {
		if op[1] != "0" && op[1] != "1" {
			return "bad-op"
		}
		rn.reset(op[1] == "1")
		return "ok"
	}
	var path string
	switch {
	case len(op) == 1 && (op[0] == "store" || op[0] == "reload"):
	case len(op) == 2 && (op[0] == "remove" || op[0] == "lookup" || op[0] == "hasprefix"),
		len(op) == 4 && op[0] == "add":
		b, err := core.UnHex(op[1])
		if err != nil {
			return "bad-op"
		}
		path = string(b)
	default:
		return "bad-op"
	}
	var ref byte
	var metaS string
	var meta map[string]string
	if op[0] == "add" {
		k, err := strconv.Atoi(op[2])
		m, ok := parseMeta(op[3])
		if err != nil || k < 1 || k > 255 || !ok {
			return "bad-op"
		}
		ref, meta, metaS = byte(k), m, op[3]
	}
	if rn.dead && op[0] != "reload" {
		return "broken"
	}
	switch op[0] {
	case "add":
		var err error
		panicked := false
		func() {
			defer func() {
				if e := recover(); e != nil {
					panicked = true
				}
			}()
			err = rn.m.Add(rn.ctx, path, manifest.NewEntry(rn.entry(ref), meta))
		}()
		// oracle bookkeeping
		if path == "" {
			rn.emptyAdd = true
		}
		below := false
		for t := range rn.orphanTop {
			below = below || (t != path && strings.HasPrefix(path, t))
		}
		if rn.persisted {
			ends := func(k string) {
				if strings.HasPrefix(k, path) { // the path ends at an existing node (a key or a branching point)
					rn.overwrote = true
					rn.orphanTop[path] = true
					if k != path {
						rn.orphaned[k] = true
					}
				}
			}
			for k := range rn.mp {
				ends(k)
			}
			for k := range rn.removeNP { // a removal that was not persisted: the node is back after a reload
				ends(k)
			}
		}
		if old, ok := rn.mp[path]; ok {
			if metaS == "-" && (old.meta != "-" || rn.metaKeep[path]) {
				rn.metaKeep[path] = true
			}
		}
		if rn.stuck {
			rn.addNP[path] = true
		}
		rn.mp[path] = val{ref, metaS}
		if rn.refsEver[path] == nil {
			rn.refsEver[path], rn.metasEver[path] = map[byte]bool{}, map[string]bool{}
		}
		rn.refsEver[path][ref] = true
		rn.metasEver[path][metaS] = true
		if panicked {
			clause := "add-panic"
			if below {
				clause = "overwrite-unloaded-node"
			}
			ctx.Fail(clause, "Add(%q) panicked", path)
			rn.dead, rn.m = true, nil
			return "panic"
		}
		if err != nil {
			ctx.Fail("add-error", "Add(%q) failed: %v", path, err)
			return "err"
		}
		return "ok"
	case "remove":
		err := rn.m.Remove(rn.ctx, path)
		if rn.persisted {
			rn.stuck = true
		}
		_, had := rn.mp[path]
		got := "ok"
		switch {
		case errors.Is(err, manifest.ErrNotFound):
			got = "notfound"
		case err != nil:
			got = "err"
		}
		if path == "" {
			if got != "err" {
				ctx.Fail("remove-empty-path", "Remove(\"\") answered %s", got)
			}
			return got
		}
		exts := false
		for k := range rn.mp {
			if k != path && strings.HasPrefix(k, path) {
				exts = true
				if got == "ok" {
					rn.dropped[k] = true
				}
				if rn.persisted {
					rn.removeNP[k] = true
				}
			}
		}
		if rn.persisted {
			rn.removeNP[path] = true
		}
		delete(rn.mp, path)
		want := "notfound"
		if had {
			want = "ok"
		}
		if got != want {
			clause := "remove-result"
			switch {
			case got == "err":
				clause = "remove-error"
			case want == "notfound" && exts:
				clause = "remove-drops-extensions" // removing a non-key prefix deletes the keys below it
			case want == "notfound" && rn.anyWithPrefixStrict(path):
				clause = "remove-leaves-prefix"
			case want == "notfound" && rn.removeNP[path]:
				clause = "remove-not-persisted"
			case want == "ok" && rn.orphaned[path]:
				clause = "overwrite-unloaded-node"
			case want == "ok" && rn.dropped[path]:
				clause = "remove-drops-extensions"
			case want == "ok" && rn.addNP[path]:
				clause = "add-not-persisted-after-read"
			}
			ctx.Fail(clause, "Remove(%q) answered %s, the mapping says %s", path, got, want)
		}
		if got == "ok" {
			rn.removed = append(rn.removed, path)
		}
		return got
	case "store":
		a, err := rn.m.Store(rn.ctx)
		if err != nil {
			clause := "store-error"
			if rn.overwrote && rn.persisted {
				clause = "overwrite-unloaded-node"
			}
			ctx.Fail(clause, "Store failed: %v", err)
			rn.dead = true
			rn.m = nil
			return "err"
		}
		rn.last = &a
		rn.persisted = true
		rn.snap = map[string]val{}
		for k, v := range rn.mp {
			rn.snap[k] = v
		}
		return "ok"
	case "reload":
		if rn.last == nil {
			return "nostore"
		}
		m, err := manifest.NewDefaultManifestReference(*rn.last, rn.ls)
		if err != nil {
			ctx.Fail("reload-error", "NewDefaultManifestReference failed: %v", err)
			return "err"
		}
		rn.m, rn.dead = m, false
		rn.persisted, rn.stuck, rn.overwrote = true, false, false
		rn.mp = map[string]val{} // unsaved changes are discarded: back to the stored mapping
		for k, v := range rn.snap {
			rn.mp[k] = v
		}
		return "ok"
	case "lookup":
		e, err := rn.m.Lookup(rn.ctx, path)
		if rn.persisted {
			rn.stuck = true
		}
		want, has := rn.mp[path]
		switch {
		case errors.Is(err, manifest.ErrNotFound):
			if has {
				clause := "lookup-lost"
				switch {
				case rn.orphaned[path]:
					clause = "overwrite-unloaded-node"
				case rn.dropped[path]:
					clause = "remove-drops-extensions"
				case rn.addNP[path]:
					clause = "add-not-persisted-after-read"
				case path == "":
					clause = "empty-path-lost-on-reload"
				}
				ctx.Fail(clause, "Lookup(%q) = not found, the mapping has ref %d meta %s", path, want.ref, want.meta)
			}
			return "notfound"
		case err != nil:
			ctx.Fail("lookup-error", "Lookup(%q) failed: %v", path, err)
			return "err"
		}
		rb := e.Reference().Bytes()
		gm := fmtMeta(e.Metadata())
		uniform := len(rb) > 0
		for _, x := range rb {
			uniform = uniform && x == rb[0]
		}
		if !uniform || !rn.staleOK(path, rb[0], gm) {
			ctx.Fail("lookup-invented", "Lookup(%q) = %x %s: never written at this path", path, rb, gm)
		} else if !has {
			clause := "lookup-resurrected"
			if rn.removeNP[path] {
				clause = "remove-not-persisted"
			}
			ctx.Fail(clause, "Lookup(%q) = ref %d meta %s, the mapping has no such path", path, rb[0], gm)
		} else if want.ref != rb[0] || want.meta != gm {
			clause := "lookup-wrong-value"
			switch {
			case want.ref == rb[0] && want.meta == "-" && rn.metaKeep[path]:
				clause = "overwrite-keeps-metadata"
			case rn.addNP[path]:
				clause = "add-not-persisted-after-read"
			case rn.metaKeep[path]:
				clause = "overwrite-keeps-metadata"
			}
			ctx.Fail(clause, "Lookup(%q) = ref %d meta %s, the mapping says ref %d meta %s", path, rb[0], gm, want.ref, want.meta)
		}
		return fmt.Sprintf("found %s %s", core.Hex(rb), gm)
	default: // hasprefix
		got, err := rn.m.HasPrefix(rn.ctx, path)
		if rn.persisted {
			rn.stuck = true
		}
		if err != nil {
			ctx.Fail("hasprefix-error", "HasPrefix(%q) failed: %v", path, err)
			return "err"
		}
		want := path == ""
		for k := range rn.mp {
			want = want || strings.HasPrefix(k, path)
		}
		if got != want {
			clause := "hasprefix-mismatch"
			if want { // every key below the prefix is gone
				switch {
				case rn.anyWithPrefix(rn.orphaned, path):
					clause = "overwrite-unloaded-node"
				case rn.anyWithPrefix(rn.dropped, path):
					clause = "remove-drops-extensions"
				case rn.anyWithPrefix(rn.addNP, path):
					clause = "add-not-persisted-after-read"
				}
			} else {
				np := rn.anyWithPrefix(rn.removeNP, path)
				dang := false
				for _, r := range rn.removed {
					dang = dang || strings.HasPrefix(r, path)
				}
				switch {
				case dang && !np:
					clause = "remove-leaves-prefix"
				case np:
					clause = "remove-not-persisted"
				}
			}
			ctx.Fail(clause, "HasPrefix(%q) = %v, the mapping says %v", path, got, want)
		}
		return core.B(got)
	}
}

// anyWithPrefixStrict: some removed path strictly extends q (an emptied intermediate node may remain)
func (rn *runner) anyWithPrefixStrict(q string) bool {
	for _, r := range rn.removed {
		if r != q && strings.HasPrefix(r, q) {
			return true
		}
	}
	return false
}

// ---------------------------------------------------------------- generator

func hexs(s string) string { return core.Hex([]byte(s)) }

func genPath(r *core.Rand, pool []string) string {
	al := "ab/."
	mk := func(n int) string {
		b := make([]byte, n)
		for i := range b {
			b[i] = al[r.Intn(len(al))]
		}
		return string(b)
	}
	switch {
	case len(pool) > 0 && r.Chance(30): // an existing path (overwrite / exact observation)
		return pool[r.Intn(len(pool))]
	case len(pool) > 0 && r.Chance(45): // prefix of / extension of an existing path
		q := pool[r.Intn(len(pool))]
		if r.Bool() && len(q) > 1 {
			return q[:r.Range(1, len(q)-1)]
		}
		return q + mk(r.Range(1, 5))
	case r.Chance(12):
		return mk(r.Range(31, 70))
	case r.Chance(30):
		return mk(r.Range(1, 3))
	default:
		return mk(r.Range(1, 40))
	}
}

func genMeta(r *core.Rand, allowEmpty bool) string {
	if allowEmpty && r.Chance(35) {
		return "-"
	}
	ms := []string{"k=v", "ct=text;fn=a", "fn=b", "ct=png;fn=img;x=1", "z=9"}
	return ms[r.Intn(len(ms))]
}

func (prop) Gen(r *core.Rand, tier string) []core.Case {
	n := 250
	if tier == "thorough" {
		n = 2000
	}
	a, ab, x, y, abc, ac := hexs("a"), hexs("ab"), hexs("x"), hexs("y"), hexs("abc"), hexs("ac")
	cs := []core.Case{
		{ID: "fix-remove-drops-extensions", NT: false, Ops: []string{"add " + a + " 1 k=v", "add " + ab + " 2 k=v", "remove " + a, "lookup " + a, "lookup " + ab}},
		{ID: "fix-remove-nonkey-prefix", NT: false, Ops: []string{"add " + ab + " 1 k=v", "add " + ac + " 2 k=v", "remove " + a, "lookup " + ab, "lookup " + ac, "hasprefix " + a}},
		{ID: "fix-remove-not-persisted", NT: false, Ops: []string{"add " + x + " 1 k=v", "add " + y + " 2 k=v", "store", "remove " + x, "lookup " + x, "store", "reload", "lookup " + x, "lookup " + y}},
		{ID: "fix-add-not-persisted-after-read", NT: false, Ops: []string{"add " + x + " 1 k=v", "store", "lookup " + x, "add " + y + " 2 k=v", "lookup " + y, "store", "reload", "lookup " + x, "lookup " + y}},
		{ID: "fix-overwrite-keeps-metadata", NT: false, Ops: []string{"add " + a + " 1 k=v", "add " + a + " 2 -", "lookup " + a}},
		{ID: "fix-remove-leaves-prefix", NT: false, Ops: []string{"add " + ab + " 1 k=v", "add " + ac + " 2 k=v", "remove " + ab, "remove " + ac, "hasprefix " + a, "lookup " + ab}},
		{ID: "fix-overwrite-unloaded-node", NT: false, Ops: []string{"add " + a + " 1 k=v", "add " + x + " 2 k=v", "store", "reload", "add " + a + " 3 k=v", "store", "lookup " + a, "reload", "lookup " + a}},
		{ID: "fix-overwrite-unloaded-node-2", NT: false, Ops: []string{"add " + a + " 1 k=v", "add " + ab + " 2 k=v", "store", "reload", "add " + a + " 3 k=v", "lookup " + ab, "hasprefix " + ab, "add " + abc + " 4 k=v", "lookup " + a, "reload", "lookup " + ab}},
		{ID: "fix-resurrected-then-overwritten", NT: false, Ops: []string{"add " + x + " 3 -", "store", "remove " + x, "store", "reload", "add " + x + " 3 k=v", "store"}},
		{ID: "fix-clean-roundtrip", NT: true, Ops: []string{"add " + a + " 1 k=v", "add " + abc + " 2 fn=b", "add " + ab + " 3 z=9", "add " + a + " 4 fn=b", "hasprefix " + ab, "store", "reload",
			"lookup " + a, "lookup " + ab, "lookup " + abc, "lookup " + ac, "hasprefix " + ac, "hasprefix -", "add " + ac + " 5 k=v", "store", "reload", "lookup " + ac, "lookup " + a}},
		{ID: "fix-errors", NT: false, Ops: []string{"reload", "remove -", "lookup -", "hasprefix -", "remove " + a, "add zz 1 -", "add " + a + " 0 -", "add " + a + " 1 K=v", "frob", "new 2", "new 1", "add " + a + " 7 k=v", "store", "reload", "lookup " + a}},
	}
	for i := 0; i < n; i++ {
		c := core.Case{ID: fmt.Sprintf("g%d", i)}
		stream := r.Intn(10) // 0-5 clean, 6-9 mixed
		clean := stream < 6
		if r.Chance(15) {
			c.Ops = append(c.Ops, fmt.Sprintf("new %d", r.Intn(2)))
		}
		var pool []string
		keys := map[string]bool{}
		snapKeys := map[string]bool{}
		cp := func(m map[string]bool) map[string]bool {
			o := map[string]bool{}
			for k := range m {
				o[k] = true
			}
			return o
		}
		stored := false
		readSince := false
		adds, obs, rt := 0, 0, 0
		nops := r.Range(6, 40)
		for k := 0; k < nops; k++ {
			switch x := r.Intn(20); {
			case x < 9:
				p := genPath(r, pool)
				if clean && stored && readSince {
					// the guard: no add on a persisted object that has been read — reload first
					c.Ops = append(c.Ops, "store", "reload")
					snapKeys = cp(keys)
					readSince = false
					rt++
				}
				if clean && stored {
					ends := false
					for q := range keys {
						ends = ends || strings.HasPrefix(q, p)
					}
					if ends {
						continue // (a path ending at an existing node of a reloaded manifest can make Store fail)
					}
				}
				c.Ops = append(c.Ops, fmt.Sprintf("add %s %d %s", hexs(p), r.Range(1, 9), genMeta(r, !clean)))
				pool = append(pool, p)
				keys[p] = true
				adds++
			case x < 11:
				p := genPath(r, pool)
				if clean {
					ext := false
					for q := range keys {
						ext = ext || (q != p && strings.HasPrefix(q, p))
					}
					if stored || ext || !keys[p] {
						// guard of the partial theorem: only keys without extensions, never after a store
						c.Ops = append(c.Ops, "lookup "+hexs(p))
						obs++
						readSince = readSince || stored
						continue
					}
				}
				c.Ops = append(c.Ops, "remove "+hexs(p))
				delete(keys, p)
				readSince = readSince || stored
			case x < 13:
				if clean && stored && readSince {
					continue // (a store on a read object may silently persist nothing)
				}
				c.Ops = append(c.Ops, "store")
				stored = true
				snapKeys = cp(keys)
				readSince = false
				if r.Chance(70) {
					c.Ops = append(c.Ops, "reload")
					rt++
				}
			case x < 14:
				c.Ops = append(c.Ops, "reload")
				if stored {
					readSince = false
					keys = cp(snapKeys)
				}
			case x < 18:
				c.Ops = append(c.Ops, "lookup "+hexs(genPath(r, pool)))
				obs++
				readSince = readSince || stored
			default:
				p := genPath(r, pool)
				c.Ops = append(c.Ops, "hasprefix "+hexs(p[:r.Range(0, len(p))]))
				obs++
				readSince = readSince || stored
			}
		}
		// epilogue: persist once more (half of the cases) and observe everything
		if r.Bool() {
			if !(clean && stored && readSince) {
				c.Ops = append(c.Ops, "store")
				stored = true
				snapKeys = cp(keys)
			}
			c.Ops = append(c.Ops, "reload")
			if stored {
				keys = cp(snapKeys)
			}
			rt++
		}
		seen := map[string]bool{}
		for _, p := range pool {
			if !seen[p] {
				seen[p] = true
				c.Ops = append(c.Ops, "lookup "+hexs(p))
				obs++
				if r.Chance(30) {
					c.Ops = append(c.Ops, "hasprefix "+hexs(p[:r.Range(0, len(p))]))
				}
			}
		}
		c.NT = adds >= 3 && rt >= 1 && obs >= 3
		cs = append(cs, c)
	}
	return cs
}
