// Package c14: correspondence + model-free oracle for property C14
// (local store stays consistent across crashes).
package c14

import (
	"bytes"
	"fmt"
	"sort"
	"strings"

	"verifharness/core"
	"verifharness/lsharness"
)

type prop struct{}

func init() { core.Register(prop{}) }

func (prop) ID() string { return "C14" }
func (prop) Rule() string {
	return "histories of 6-28 ops (puts in all modes, pins of files whose gc entry has GCounter>1 — the direct gcIndex.Put —, unpins, removals, request gets, " +
		"collection runs over scripted pyramids with pinned chunks — the direct pinIndex.Put —, racing ops, reopen) executed on the write-logging `verif-crash` shed driver " +
		"(registered through shed.Register, wrapping the repository's leveldb driver). For EVERY op and EVERY prefix length k of the op's driver writes (single Put/Delete and batch Commit) " +
		"a fresh leveldb is rebuilt from the log prefix, localstore.New is run on it and the dump is compared with the model's recover(crash s op k) — exhaustive over k per op. " +
		"Non-trivial: the case contains a pin under a root context or a completed collection run (the operations that can have more than one driver write, i.e. a crash point strictly inside them); distinct by op-list hash."
}

var fixed = []core.Case{
	// direct gcIndex.Put in setPin (GCounter 3 -> 2 written before the batch)
	{ID: "fix-setpin-direct", NT: true, Ops: []string{"put req 80 80:aa", "put req 80 81:bb", "put req 80 c0:cc", "set pin 80 81", "set pin 80 c0", "set unpin 80 81"}},
	// direct pinIndex.Put in collectGarbage (PinCounter 3 > Number 1)
	{ID: "fix-gc-pin-direct", NT: true, Ops: []string{"put req 80 80:aa", "put req 80 81:bb", "set pin - 81", "set pin - 81", "set pin - 81", "put req 40 40:01", "pyr 80 81:1", "pyr 40 -", "cap 2", "gcsel", "gcevict", "has pin 81"}},
	// two direct writes in one call
	{ID: "fix-two-direct", NT: true, Ops: []string{"put req 80 80:aa", "put req 80 81:bb", "put req 80 c0:cc", "put req 80 40:dd", "set pin 80 81,c0", "reopen"}},
	// failed call after a direct write
	{ID: "fix-direct-then-error", NT: true, Ops: []string{"put req 80 80:aa", "put req 80 81:bb", "put req 80 c0:cc", "set pin 80 81,41", "reopen"}},
	{ID: "fix-known-gc-direct-pin-write", NT: true, Ops: strings.Split("put req 80 80:b8; put req 80 c0:ca; put req 80 40:ad2d; set pin 80 40; set pin - 40; put req 40 20:6018,40:93c7,80:e0,20:967a; cap 2; pyr 80 81:2,c0:1,40:1,41:2; pyr 40 20:1,80:1; gcsel; gcevict", "; ")},
	{ID: "fix-known-gc-repeated-cid", NT: true, Ops: strings.Split("put req 20 20:83; put req 20 81:1c78; put req 20 40:fe; put req 20 10:537c; set remove 81 10,40,20,81; set pin 80 80; has chunk 81; put req 20 20:65; put uppin 80 81:0a; put req 81 20:8939; put uppin - 20:71,81:2d3e,10:7c; cap 1; pyr 20 81:1,40:1,41:1,10:1; gcsel; get req 80 10; gcevict", "; ")},
	{ID: "fix-fresh", NT: false, Ops: []string{"has chunk 80", "reopen", "put up - 80:aa"}},
}

func (prop) Gen(r *core.Rand, tier string) []core.Case {
	n := 160
	if tier == "thorough" {
		n = 4000
	}
	cs := append([]core.Case(nil), fixed...)
	// one call whose batch is LARGE (34 chunks of 256 KiB = 8.5 MiB, pinned): the model's `writes` says one Commit,
	// so a store that splits a big batch into several commits (size- or count-triggered flushing in shed.Batch or
	// in a driver) shows up as a crash prefix strictly inside the call
	{
		var parts []string
		for i := 0; i < 34; i++ {
			parts = append(parts, fmt.Sprintf("%02x:@%d.262144", 0x40+i, 7+i))
		}
		cs = append(cs, core.Case{ID: "fix-big-batch", NT: true, Ops: []string{"put uppin - " + strings.Join(parts, ","), "has pin 61", "get req - 60", "reopen"}})
	}
	for i := 0; i < n; i++ {
		cfg := lsharness.GenConfig{MinOps: 6, MaxOps: 28, GC: true, Reopen: true, ClockStep: i%3 == 0, Batches: 30,
			Sync: i%8 == 0, BadModes: i%12 == 0, SetDups: i%9 == 0, DirectWrites: 70}
		ops := lsharness.GenHistory(r.Fork(), cfg)
		cs = append(cs, core.Case{ID: fmt.Sprintf("g%d", i), NT: nontrivial(ops), Ops: ops})
	}
	return cs
}

func nontrivial(ops []string) bool {
	for _, o := range ops {
		var a, b, c string
		fmt.Sscanf(o, "%s %s %s", &a, &b, &c)
		if a == "gcevict" || (a == "set" && b == "pin" && c != "-") || (a == "put" && (b == "reqpin" || b == "uppin") && c != "-") {
			return true
		}
	}
	return false
}

// ---- model-free oracle ---------------------------------------------------------------------

type oracle struct{ multi int }

func (prop) New() core.Runner {
	return lsharness.NewRunner(lsharness.Options{CrashDumps: true, Oracles: []lsharness.Oracle{&oracle{}}})
}

// violations lists the bookkeeping inconsistencies of a persisted state.
func violations(d *lsharness.Dump) map[string]bool {
	v := map[string]bool{}
	for _, p := range d.Pin {
		if _, ok := d.DataOf(p.Address); !ok {
			v["pin-without-data:"+lsharness.ShowAddr(p.Address)] = true
		}
	}
	for _, a := range d.Access {
		if _, ok := d.DataOf(a.Address); !ok {
			v["access-without-data:"+lsharness.ShowAddr(a.Address)] = true
		}
	}
	for _, g := range d.GC {
		key := fmt.Sprintf("%d:%d:%s", g.AccessTimestamp, g.BinID, lsharness.ShowAddr(g.Address))
		if ts, ok := d.AccessOf(g.Address); !ok || ts != g.AccessTimestamp {
			v["gc-without-access:"+key] = true
		}
		if de, ok := d.DataOf(g.Address); !ok || de.BinID != g.BinID {
			v["gc-without-data:"+key] = true
		}
	}
	bins := map[int]uint64{}
	for _, b := range d.BinIDs {
		bins[int(b.PO)] = b.ID
	}
	seen := map[string]bool{}
	for _, e := range d.Data {
		po := lsharness.PO(e.Address)
		if e.BinID > bins[po] {
			v["binid-beyond-vector:"+lsharness.ShowAddr(e.Address)] = true
		}
		k := fmt.Sprintf("%d:%d", po, e.BinID)
		if seen[k] {
			v["binid-duplicate:"+k] = true
		}
		seen[k] = true
	}
	if d.GCSize < d.GCSum() {
		v["gcsize-below-sum"] = true
	}
	return v
}

// chunkView: what the store says about one address.
func chunkView(d *lsharness.Dump, a []byte) string {
	de, ok := d.DataOf(a)
	ts, hasAcc := d.AccessOf(a)
	return fmt.Sprintf("stored=%v bin=%d sts=%d data=%x pin=%d acc=%v/%d", ok, de.BinID, de.StoreTimestamp, de.Data, d.PinOf(a), hasAcc, ts)
}

func (o *oracle) Check(ctx *core.Ctx, ev *lsharness.Event) {
	if len(ev.Crash) == 0 {
		return
	}
	n := len(ev.Crash) - 1
	vb, va := violations(ev.Before), violations(ev.After)
	for k, d := range ev.Crash {
		if d == nil {
			ctx.Fail("reopen-fails", "localstore.New failed on the image after %d of %d writes of `%s %s`", k, n, ev.Kind, ev.Mode)
			continue
		}
		// the cached-chunk counter is at least the recomputed total
		if d.GCSize < d.GCSum() {
			ctx.Fail("gcsize-at-least-sum", "crash after write %d/%d of `%s %s`: reopened gcSize %d < ΣGCounter %d", k, n, ev.Kind, ev.Mode, d.GCSize, d.GCSum())
		}
		// pin counts equal their value before or after the interrupted operation
		for _, h := range lsharness.Universe {
			a, _ := lsharness.ParseAddr(h)
			p := d.PinOf(a)
			if p != ev.Before.PinOf(a) && p != ev.After.PinOf(a) {
				if ev.Kind == "gcevict" {
					ctx.Fail("pin-before-or-after-gc-repeated-cid", "crash after write %d/%d of a collection run: pin count of %s is %d, before %d, after %d", k, n, h, p, ev.Before.PinOf(a), ev.After.PinOf(a))
				} else {
					ctx.Fail("pin-before-or-after", "crash after write %d/%d of `%s %s`: pin count of %s is %d, before %d, after %d", k, n, ev.Kind, ev.Mode, h, p, ev.Before.PinOf(a), ev.After.PinOf(a))
				}
			}
			// every chunk is fully present with its bookkeeping (as before or as after) or fully absent
			cv := chunkView(d, a)
			if cv != chunkView(ev.Before, a) && cv != chunkView(ev.After, a) {
				if !(ev.Kind == "gcevict" && p != ev.Before.PinOf(a) && p != ev.After.PinOf(a)) {
					clause := "chunk-before-or-after"
					if ev.Kind == "gcevict" {
						// the collection run lowers a pin counter by a direct pinIndex.Put before its batch commits
						clause = "chunk-before-or-after-gc-direct-pin-write"
					}
					ctx.Fail(clause, "crash after write %d/%d of `%s %s`: chunk %s is {%s}, before {%s}, after {%s}", k, n, ev.Kind, ev.Mode, h, cv, chunkView(ev.Before, a), chunkView(ev.After, a))
				}
			}
		}
		// no inconsistency that neither the state before nor the state after the operation has
		var fresh []string
		for x := range violations(d) {
			if !vb[x] && !va[x] {
				fresh = append(fresh, x)
			}
		}
		if len(fresh) > 0 {
			sort.Strings(fresh)
			ctx.Fail("crash-new-inconsistency", "crash after write %d/%d of `%s %s` leaves %v", k, n, ev.Kind, ev.Mode, fresh)
		}
	}
	// end points: no write = the state before (after startup repair), all writes = the state after
	if d := ev.Crash[0]; d != nil && !sameModuloRepair(d, ev.Before) {
		ctx.Fail("crash-endpoint", "image without any write of the op differs from the state before it")
	}
	if d := ev.Crash[n]; d != nil && ev.Kind != "gcsel" && !sameModuloRepair(d, ev.After) {
		ctx.Fail("crash-endpoint", "image with all writes of the op differs from the state after it")
	}
}

func sameModuloRepair(rec, live *lsharness.Dump) bool {
	want := live.GCSize
	if s := live.GCSum(); s > want {
		want = s
	}
	if rec.GCSize != want {
		return false
	}
	x, y := *rec, *live
	x.GCSize, y.GCSize = 0, 0
	x.GCRunning, y.GCRunning, x.Dirty, y.Dirty = false, false, nil, nil
	return bytes.Equal([]byte(x.ShowDb()), []byte(y.ShowDb()))
}
