/-
Model of /repo/pkg/subscribe/subscribe.go (hand translation of the code *after* the two `fix:`
commits, tied by the C40 correspondence run).

Concurrency is modelled as interleavings of atomic actions on one shared state:

* `subscribe n k`   — `Subscribe`: the event is appended to `subInfoChan` (`subQ`) and a goroutine
                      starts waiting on `n.Err()` (`waiting`);
* `errFires n`      — `n`'s error channel is closed (`dead`);
* `errOne n`        — one error value is sent on `n`'s (open) error channel: exactly one waiting
                      goroutine of `n` — the one that blocked first — sends its event;
* `wake e`          — a waiting goroutine whose notifier is dead sends its event to
                      `unsubInfoChan` (`unsubQ`); goroutines wake in any order, at any time;
* `processSub` / `processUnsub` — one iteration of `process` taking the `subInfoChan` /
                      `unsubInfoChan` case of the `select` (either may be taken whenever its queue
                      is non-empty: the `select` is a nondeterministic choice);
                      the unsubscribe case first applies every pending subscription (`drainSubs`),
                      then removes *every* entry of the notifier from the key's list;
* `publish ns kind param m` — `Publish`: `Notify` is called synchronously for the namespace-wide key
                      `ns_kind`, then (if `param ≠ ""`) for `ns_kind_param`, in list order.

A disabled action (empty queue, nothing to wake) leaves the state unchanged, so *every* list of
actions is a schedule and "all schedules" = "all `List Act`".  Channel capacity (50) is not
modelled (a full channel only delays `Subscribe`).  `PublishArray` is not modelled.
-/
namespace Aurora.Subscribe

abbrev Notifier := String
abbrev Key := String
abbrev Msg := String

structure Ev where
  key : Key
  n   : Notifier
deriving DecidableEq, Repr

abbrev Table := List (Key × List Notifier)

/-- `keyToNotifier.Load(k)` (absent = empty list) -/
def tget : Table → Key → List Notifier
  | [], _ => []
  | (k', l) :: t, k => if k' = k then l else tget t k

def terase : Table → Key → Table
  | [], _ => []
  | (k', l) :: t, k => if k' = k then terase t k else (k', l) :: terase t k

/-- `Store(k, l)`, or `Delete(k)` when the list became empty -/
def tset (t : Table) (k : Key) (l : List Notifier) : Table :=
  if l = [] then terase t k else (k, l) :: terase t k

/-- `addSub`: append the notifier to its key's list -/
def addSub (t : Table) (e : Ev) : Table := tset t e.key (tget t e.key ++ [e.n])

/-- `drainSubs`: apply the pending subscriptions in FIFO order -/
def drain (t : Table) (q : List Ev) : Table := q.foldl addSub t

/-- the removal loop (with `j--`): every entry of the notifier leaves the key's list -/
def removeAll (t : Table) (e : Ev) : Table :=
  tset t e.key ((tget t e.key).filter (fun x => x ≠ e.n))

structure Delivery where
  n   : Notifier
  key : Key
  msg : Msg
deriving DecidableEq, Repr

structure State where
  subQ    : List Ev := []
  unsubQ  : List Ev := []
  waiting : List Ev := []
  dead    : List Notifier := []
  table   : Table := []
  log     : List Delivery := []
deriving Repr

def init : State := {}

/-- key used by `Subscribe` -/
def subKey (ns kind param : String) : Key :=
  if param ≠ "" then ns ++ "_" ++ kind ++ "_" ++ param else ns ++ "_" ++ kind

/-- keys notified by `Publish`, in order -/
def pubKeys (ns kind param : String) : List Key :=
  if param ≠ "" then [ns ++ "_" ++ kind, ns ++ "_" ++ kind ++ "_" ++ param] else [ns ++ "_" ++ kind]

/-- the `Notify` calls of one `Publish` -/
def deliveries (t : Table) (keys : List Key) (m : Msg) : List Delivery :=
  keys.flatMap (fun k => (tget t k).map (fun n => ⟨n, k, m⟩))

inductive Act where
  | subscribe (n : Notifier) (k : Key)
  | errFires (n : Notifier)
  | errOne (n : Notifier)
  | wake (e : Ev)
  | processSub
  | processUnsub
  | publish (keys : List Key) (m : Msg)
deriving Repr, DecidableEq

def step (s : State) : Act → State
  | .subscribe n k => { s with subQ := s.subQ ++ [⟨k, n⟩], waiting := s.waiting ++ [⟨k, n⟩] }
  | .errFires n => { s with dead := n :: s.dead }
  | .errOne n =>
    match s.waiting.find? (fun e => e.n = n) with
    | some e => { s with waiting := s.waiting.erase e, unsubQ := s.unsubQ ++ [e] }
    | none => s
  | .wake e =>
    if e ∈ s.waiting ∧ e.n ∈ s.dead then
      { s with waiting := s.waiting.erase e, unsubQ := s.unsubQ ++ [e] }
    else s
  | .processSub =>
    match s.subQ with
    | [] => s
    | e :: q => { s with subQ := q, table := addSub s.table e }
  | .processUnsub =>
    match s.unsubQ with
    | [] => s
    | e :: q => { s with unsubQ := q, subQ := [], table := removeAll (drain s.table s.subQ) e }
  | .publish keys m => { s with log := s.log ++ deliveries s.table keys m }

def run (s : State) (acts : List Act) : State := acts.foldl step s

/-- nothing is in flight: both channels empty and no goroutine of a dead notifier still has to send -/
def Quiescent (s : State) : Prop :=
  s.subQ = [] ∧ s.unsubQ = [] ∧ ∀ e ∈ s.waiting, e.n ∉ s.dead

/-! ### running to quiescence (used by the driver; `sched` resolves the `select`) -/

/-- wake every goroutine whose notifier is dead (in `waiting` order, or reversed) -/
def wakeAll (s : State) (rev : Bool) : State :=
  let w := s.waiting.filter (fun e => e.n ∈ s.dead)
  let w := if rev then w.reverse else w
  { s with waiting := s.waiting.filter (fun e => e.n ∉ s.dead), unsubQ := s.unsubQ ++ w }

/-- process until both queues are empty; when both are non-empty the next schedule bit picks the
    case (`true` = unsubscribe first); bits default to `false` -/
def processAll : Nat → State → List Bool → State
  | 0, s, _ => s
  | fuel + 1, s, sched =>
    match s.subQ, s.unsubQ with
    | [], [] => s
    | _ :: _, [] => processAll fuel (step s .processSub) sched
    | [], _ :: _ => processAll fuel (step s .processUnsub) sched
    | _ :: _, _ :: _ =>
      match sched with
      | true :: r => processAll fuel (step s .processUnsub) r
      | false :: r => processAll fuel (step s .processSub) r
      | [] => processAll fuel (step s .processSub) []

def settle (s : State) (sched : List Bool) : State :=
  let (rev, sched) := match sched with
    | b :: r => (b, r)
    | [] => (false, [])
  let s := wakeAll s rev
  processAll (s.subQ.length + s.unsubQ.length) s sched

end Aurora.Subscribe
