import Aurora.Model.Bmt
/-!
# Model of `/repo/pkg/file/buffer.go` (`ChunkPipe.Write` / `Close`)

`ChunkPipe` sits between an uploader that writes pieces of any size and `builder.FeedPipeline`,
which reads from it: `Write` copies the caller's bytes into `c.data` (capacity `2 * ChunkSize`) at
`c.cursor`, and whenever `c.cursor >= ChunkSize` hands `c.data[:ChunkSize]` to the `io.Pipe` writer
and shifts the rest down; `Close` hands on `c.data[:c.cursor]` if the cursor is positive.

State: `buf = c.data[:c.cursor]` (bytes of `c.data` beyond the cursor are never read before they are
overwritten, so they are not represented).  `size` is `boson.ChunkSize`.  A "piece" is the argument of
one `c.writer.Write` call, i.e. what one `Read` of `FeedPipeline` (buffer of `ChunkSize` bytes) receives
from the synchronous `io.Pipe`.  Errors of the pipe writer (reader closed early) are not modelled.

Literal points kept: ONE piece at most leaves per loop iteration, so a `Write` may return with a whole
chunk still buffered (`cursor = ChunkSize`, e.g. after a single write of `2 * ChunkSize` bytes into an
empty pipe) — it leaves with the next non-empty `Write` or with `Close`.
-/
namespace Aurora.ChunkPipe
open Aurora.Bmt (Bytes)

structure State where
  buf : Bytes := []      -- c.data[:c.cursor]
deriving Repr

/-- The `for { if nw >= len(b) { break } … }` loop of `Write`: `rest = b[nw:]`, `out` the pieces handed
    to the pipe so far.  Returns the buffer and the pieces. -/
def writeLoop (size : Nat) : Nat → Bytes → Bytes → List Bytes → Bytes × List Bytes
  | 0, buf, _, out => (buf, out)                        -- fuel exhausted (never: fuel = len(b)+1)
  | fuel + 1, buf, rest, out =>
    if rest = [] then (buf, out)                        -- `nw >= len(b)`: break
    else
      -- `copied := copy(c.data[c.cursor:], b[nw:]); c.cursor += copied; nw += copied`
      let n := min (2 * size - buf.length) rest.length
      let buf1 := buf ++ rest.take n
      if buf1.length ≥ size then
        -- `c.writer.Write(c.data[:ChunkSize]); c.cursor -= ChunkSize; copy(c.data, c.data[ChunkSize:])`
        writeLoop size fuel (buf1.drop size) (rest.drop n) (out ++ [buf1.take size])
      else writeLoop size fuel buf1 (rest.drop n) out

/-- `Write(b)`: new state, pieces handed to the pipe (in order), returned count `nw`. -/
def write (size : Nat) (c : State) (b : Bytes) : State × List Bytes × Nat :=
  let r := writeLoop size (b.length + 1) c.buf b []
  ({ buf := r.1 }, r.2, b.length)

/-- `Close()`: the piece handed on before the pipe writer is closed. -/
def close (c : State) : List Bytes := if c.buf.length > 0 then [c.buf] else []

/-- a sequence of `Write`s: final state and all pieces -/
def runWrites (size : Nat) : List Bytes → State → List Bytes → State × List Bytes
  | [], c, out => (c, out)
  | b :: rest, c, out =>
    let r := write size c b
    runWrites size rest r.1 (out ++ r.2.1)

/-- all pieces leaving the pipe for the writes `ws` followed by `Close` -/
def run (size : Nat) (ws : List Bytes) : List Bytes :=
  let r := runWrites size ws {} []
  r.2 ++ close r.1

end Aurora.ChunkPipe
