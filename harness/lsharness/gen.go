package lsharness

import (
	"fmt"
	"strings"

	"verifharness/core"
)

// Universe: 8 addresses; 80/81/c0 share bin 0, 40/41 share bin 1, 20 (bin 2), 10 (bin 3), 01 (bin 7).
var Universe = []string{"80", "81", "c0", "40", "41", "20", "10", "01"}

// Roots: the 4 addresses used as file roots (two in the same bin, two in other bins).
var Roots = []string{"80", "81", "40", "20"}

// GenConfig selects what a generated history may contain.
type GenConfig struct {
	MinOps, MaxOps int
	GC             bool // cap / pyr / gcsel … gcevict windows with racing ops
	Reopen         bool
	Sync           bool // ModeSetSync (no caller in the repository)
	BadModes       bool // invalid mode values and unparsable lines (malformed stream)
	ClockStep      bool // `now t step` with step > 0
	Batches        int  // percentage of puts/sets that carry more than one address
	SetDups        bool // duplicate addresses inside one Set call
	DirectWrites   int  // percentage of histories that start by caching a multi-chunk file (so that pins
	// under its root hit GCounter>1: direct gcIndex.Put) and pinning chunks several times (so that
	// eviction hits PinCounter>Number: direct pinIndex.Put)
}

// genState is the generator's rough idea of the store (only to bias towards valid ops).
type genState struct {
	present map[string]bool
	pinned  map[string]int
	files   map[string][]string // root -> chunks put under it
	clock   int
	gcOpen  bool
}

func pickStr(r *core.Rand, xs []string) string { return xs[r.Intn(len(xs))] }

func (g *genState) presentList() []string {
	var l []string
	for _, a := range Universe {
		if g.present[a] {
			l = append(l, a)
		}
	}
	return l
}

func (g *genState) absentList() []string {
	var l []string
	for _, a := range Universe {
		if !g.present[a] {
			l = append(l, a)
		}
	}
	return l
}

// pickAddr: 60 % present, 25 % absent, rest anywhere.
func (g *genState) pickAddr(r *core.Rand) string {
	p, a := g.presentList(), g.absentList()
	x := r.Intn(100)
	switch {
	case x < 60 && len(p) > 0:
		return pickStr(r, p)
	case x < 85 && len(a) > 0:
		return pickStr(r, a)
	}
	return pickStr(r, Universe)
}

func (g *genState) pickRoot(r *core.Rand, pct int) string {
	if !r.Chance(pct) {
		return "-"
	}
	var pr []string
	for _, x := range Roots {
		if g.present[x] {
			pr = append(pr, x)
		}
	}
	if len(pr) > 0 && r.Chance(75) {
		return pickStr(r, pr)
	}
	return pickStr(r, Roots)
}

func distinct(r *core.Rand, n int, pick func() string) []string {
	seen := map[string]bool{}
	var out []string
	for tries := 0; len(out) < n && tries < 40; tries++ {
		a := pick()
		if !seen[a] {
			seen[a] = true
			out = append(out, a)
		}
	}
	return out
}

func dataTag(r *core.Rand) string {
	if r.Chance(5) {
		return "-"
	}
	return core.Hex(r.Bytes(1 + r.Intn(2)))
}

func (g *genState) genPut(r *core.Rand, cfg GenConfig) string {
	mode := "req"
	switch x := r.Intn(100); {
	case x < 45:
		mode = "req"
	case x < 65:
		mode = "up"
	case x < 80:
		mode = "uppin"
	case x < 95:
		mode = "reqpin"
	default:
		if cfg.BadModes {
			mode = "bad"
		}
	}
	rootPct := 70
	if mode == "up" {
		rootPct = 20
	}
	root := g.pickRoot(r, rootPct)
	n := 1
	if r.Chance(cfg.Batches) {
		n = r.Range(2, 4)
	}
	var addrs []string
	if root != "-" && !g.present[root] && r.Chance(70) {
		// the usual caller stores the root chunk under its own context first
		addrs = append(addrs, root)
	}
	for len(addrs) < n {
		addrs = append(addrs, g.pickAddr(r))
	}
	if n > 1 && r.Chance(25) {
		addrs[r.Intn(len(addrs))] = addrs[r.Intn(len(addrs))] // duplicate inside the call
	}
	if r.Chance(3) {
		addrs = nil
	}
	var parts []string
	for _, a := range addrs {
		parts = append(parts, a+":"+dataTag(r))
		if mode != "bad" {
			g.present[a] = true
			if root != "-" {
				g.files[root] = append(g.files[root], a)
			}
			if mode == "uppin" || mode == "reqpin" {
				g.pinned[a]++
			}
		}
	}
	cs := "-"
	if len(parts) > 0 {
		cs = strings.Join(parts, ",")
	}
	return fmt.Sprintf("put %s %s %s", mode, root, cs)
}

func (g *genState) genSet(r *core.Rand, cfg GenConfig) string {
	mode := "remove"
	switch x := r.Intn(100); {
	case x < 30:
		mode = "remove"
	case x < 62:
		mode = "pin"
	case x < 92:
		mode = "unpin"
	case x < 97:
		if cfg.Sync {
			mode = "sync"
		}
	default:
		if cfg.BadModes {
			mode = "bad"
		}
	}
	root := g.pickRoot(r, 65)
	n := 1
	if r.Chance(cfg.Batches) {
		n = r.Range(2, 4)
	}
	var addrs []string
	pick := func() string {
		if mode == "unpin" && r.Chance(70) {
			var pl []string
			for _, a := range Universe {
				if g.pinned[a] > 0 {
					pl = append(pl, a)
				}
			}
			if len(pl) > 0 {
				return pickStr(r, pl)
			}
		}
		if (mode == "pin" || mode == "remove") && root != "-" && len(g.files[root]) > 0 && r.Chance(60) {
			return pickStr(r, g.files[root])
		}
		return g.pickAddr(r)
	}
	addrs = distinct(r, n, pick)
	if cfg.SetDups && len(addrs) > 1 && r.Chance(20) {
		addrs[len(addrs)-1] = addrs[0]
	}
	if r.Chance(2) {
		addrs = nil
	}
	for _, a := range addrs {
		switch mode {
		case "remove":
			if g.pinned[a] > 1 {
				g.pinned[a]--
			} else {
				g.pinned[a] = 0
				g.present[a] = false
			}
		case "pin":
			if g.present[a] {
				g.pinned[a]++
			}
		case "unpin":
			if g.pinned[a] > 0 {
				g.pinned[a]--
			}
		}
	}
	as := "-"
	if len(addrs) > 0 {
		as = strings.Join(addrs, ",")
	}
	return fmt.Sprintf("set %s %s %s", mode, root, as)
}

func (g *genState) genRead(r *core.Rand, cfg GenConfig) string {
	switch r.Intn(10) {
	case 0, 1, 2, 3:
		mode := pickStr(r, []string{"req", "req", "req", "sync", "lookup", "pin"})
		if cfg.BadModes && r.Chance(4) {
			mode = "bad"
		}
		root := "-"
		if mode == "req" {
			root = g.pickRoot(r, 60)
		}
		return fmt.Sprintf("get %s %s %s", mode, root, g.pickAddr(r))
	case 4, 5:
		mode := pickStr(r, []string{"req", "sync", "lookup", "pin"})
		l := distinct(r, r.Range(1, 3), func() string { return g.pickAddr(r) })
		return fmt.Sprintf("getm %s %s", mode, strings.Join(l, ","))
	case 6, 7:
		mode := pickStr(r, []string{"chunk", "chunk", "pin"})
		if cfg.BadModes && r.Chance(4) {
			mode = "bad"
		}
		return fmt.Sprintf("has %s %s", mode, g.pickAddr(r))
	default:
		mode := pickStr(r, []string{"chunk", "pin"})
		if cfg.BadModes && r.Chance(4) {
			mode = "bad"
		}
		l := distinct(r, r.Range(1, 4), func() string { return pickStr(r, Universe) })
		return fmt.Sprintf("hasm %s %s", mode, strings.Join(l, ","))
	}
}

func (g *genState) genNow(r *core.Rand, cfg GenConfig) string {
	g.clock += r.Range(1, 5)
	step := 0
	if cfg.ClockStep && r.Chance(50) {
		step = r.Range(1, 2)
	}
	return fmt.Sprintf("now %d %d", g.clock*10, step)
}

// genPyr scripts the pyramid of a root: mostly the true layout (every chunk put under the root,
// the root itself excluded, Number = occurrences), sometimes a subset (chunks shared with another
// file are left out by chunkinfo), foreign chunks, Number 2, or an unknown file.
func (g *genState) genPyr(r *core.Rand, root string) string {
	if r.Chance(6) {
		return fmt.Sprintf("pyr %s none", root)
	}
	count := map[string]int{}
	var order []string
	for _, a := range g.files[root] {
		if a == root {
			continue
		}
		if count[a] == 0 {
			order = append(order, a)
		}
		count[a]++
	}
	var parts []string
	for _, a := range order {
		if r.Chance(12) {
			continue // shared with another file: not reported
		}
		n := 1
		if r.Chance(12) {
			n = 2
		}
		parts = append(parts, fmt.Sprintf("%s:%d", a, n))
	}
	if r.Chance(12) {
		// a foreign chunk (never the same cid twice: getUnRepeatChunk builds the list from a map)
		f := pickStr(r, Universe)
		dup := false
		for _, p := range parts {
			if strings.HasPrefix(p, f+":") {
				dup = true
			}
		}
		if !dup {
			parts = append(parts, fmt.Sprintf("%s:1", f))
		}
	}
	if len(parts) == 0 {
		return fmt.Sprintf("pyr %s -", root)
	}
	return fmt.Sprintf("pyr %s %s", root, strings.Join(parts, ","))
}

func (g *genState) genMutOrRead(r *core.Rand, cfg GenConfig) string {
	switch x := r.Intn(100); {
	case x < 40:
		return g.genPut(r, cfg)
	case x < 68:
		return g.genSet(r, cfg)
	case x < 93:
		return g.genRead(r, cfg)
	default:
		return g.genNow(r, cfg)
	}
}

// GenHistory produces one operation history.
func GenHistory(r *core.Rand, cfg GenConfig) []string {
	g := &genState{present: map[string]bool{}, pinned: map[string]int{}, files: map[string][]string{}}
	n := r.Range(cfg.MinOps, cfg.MaxOps)
	var ops []string
	if r.Chance(60) {
		ops = append(ops, g.genNow(r, cfg))
	}
	if r.Chance(cfg.DirectWrites) {
		root := pickStr(r, Roots)
		file := []string{root}
		for _, a := range Universe {
			if a != root && len(file) < 5 && r.Chance(60) {
				file = append(file, a)
			}
		}
		for _, a := range file {
			ops = append(ops, fmt.Sprintf("put req %s %s:%s", root, a, dataTag(r)))
			g.present[a] = true
			g.files[root] = append(g.files[root], a)
		}
		for k := r.Intn(4); k > 0; k-- {
			a := pickStr(r, file)
			pr := "-"
			if r.Chance(50) {
				pr = root
			}
			ops = append(ops, fmt.Sprintf("set pin %s %s", pr, a))
			g.pinned[a]++
		}
	}
	for len(ops) < n {
		x := r.Intn(100)
		switch {
		case cfg.GC && x < 12:
			// a collection run: small capacity, scripted pyramids, racing ops between selection and eviction
			ops = append(ops, fmt.Sprintf("cap %d", r.Range(1, 6)))
			for _, root := range Roots {
				if len(g.files[root]) > 0 || r.Chance(15) {
					ops = append(ops, g.genPyr(r, root))
				}
			}
			ops = append(ops, "gcsel")
			for k := r.Intn(10); k > 6; k-- { // 0-3 racing ops, mostly none
				ops = append(ops, g.genMutOrRead(r, cfg))
			}
			if r.Chance(15) && len(g.presentList()) > 0 {
				// an access to a cached file while it is being evicted
				ops = append(ops, fmt.Sprintf("get req %s %s", pickStr(r, Roots), pickStr(r, g.presentList())))
			}
			ops = append(ops, "gcevict")
			if r.Chance(40) {
				ops = append(ops, "gcsel", "gcevict") // a follow-up run (the worker re-triggers while !done)
			}
			if r.Chance(70) {
				ops = append(ops, fmt.Sprintf("cap %d", DefaultCapacity))
			}
			// eviction empties files; the generator forgets them
			g.files = map[string][]string{}
		case cfg.GC && x < 15:
			ops = append(ops, pickStr(r, []string{"gcsel", "gcevict", "cap 3", "cap 0"}))
		case cfg.Reopen && x < 19:
			ops = append(ops, "reopen")
		case cfg.BadModes && x < 21:
			ops = append(ops, pickStr(r, []string{"put req", "get req - zz", "set pin 80", "frob", "now 0 0", "put req - 80", "pyr 80 81", "has chunk 8"}))
		default:
			ops = append(ops, g.genMutOrRead(r, cfg))
		}
	}
	return ops
}
