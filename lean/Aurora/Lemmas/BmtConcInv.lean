import Aurora.Lemmas.BmtConc
/-!
The inductive invariant of `Model/BmtConc.lean` and its preservation by every step.

Ghost: every position `(c, k)` left of / on the final path has a phase
`pending` (value not yet computed) → `held t` (thread `t` is responsible for bringing the value of
`(c,k)` into the parent node) → `arrived` (it did: toggled at the parent, or delivered at the root).
The *virtual* arrival of the absent right sibling at a path node entered from the left is performed
by the final thread and is derived from the final thread's level (`fl`).
-/
namespace Aurora.BmtConc
open Aurora.Bmt

inductive Ph where
  | pending
  | held (t : Nat)
  | arrived
deriving DecidableEq

/-- level of a program counter (`done` is above the root) -/
def fl (cfg : Cfg) : PC → Nat
  | .init => 0
  | .top c _ _ => c
  | .zr c _ _ => c
  | .wrote c _ => c
  | .hash c _ => c
  | .done => cfg.d + 1

/-- "the value of position `(c,k)` has arrived in the parent node" -/
def arr (cfg : Cfg) (s : St) (ph : Nat → Nat → Ph) (c k : Nat) : Bool :=
  if k ≤ path cfg.pos c then decide (ph c k = .arrived) else decide (c < fl cfg (s.pc cfg.pos))

/-- per-thread part of the invariant -/
def TOK (cfg : Cfg) (s : St) (ph : Nat → Nat → Ph) (t : Nat) : PC → Prop
  | .init => ph 0 t = .held t
  | .top c k (some v) => c ≤ cfg.d ∧ k ≤ path cfg.pos c ∧ ph c k = .held t ∧ v = val cfg c k ∧ (t = cfg.pos → k = path cfg.pos c)
  | .top c k none => t = cfg.pos ∧ c ≤ cfg.d ∧ k = path cfg.pos c
  | .zr c k sv => t = cfg.pos ∧ c < cfg.d ∧ k = path cfg.pos c ∧ k % 2 = 0 ∧
      s.right (c + 1) (k / 2) = some (zerohash cfg.H cfg.seg (c + 1)) ∧
      ∀ v, sv = some v → ph c k = .held t ∧ v = val cfg c k
  | .wrote c k => c < cfg.d ∧ k ≤ path cfg.pos c ∧ ph c k = .held t ∧
      (if k % 2 = 0 then s.left (c + 1) (k / 2) else s.right (c + 1) (k / 2)) = some (val cfg c k) ∧
      (t = cfg.pos → k = path cfg.pos c ∧ k % 2 = 1)
  | .hash c j => 1 ≤ c ∧ c ≤ cfg.d ∧ j ≤ path cfg.pos c ∧ ph c j = .held t ∧ (t = cfg.pos → j = path cfg.pos c)
  | .done => True

/-- thread `t` at this pc is responsible for position `(c,k)` -/
def holdsAt (t : Nat) : PC → Nat → Nat → Prop
  | .init, c, k => c = 0 ∧ k = t
  | .top c' k' (some _), c, k => c = c' ∧ k = k'
  | .zr c' k' (some _), c, k => c = c' ∧ k = k'
  | .wrote c' k', c, k => c = c' ∧ k = k'
  | .hash c' k', c, k => c = c' ∧ k = k'
  | _, _, _ => False

/-- node `(c+1, j)` with arrival flags `aL aR` of its children -/
def NodeOK (cfg : Cfg) (c j : Nat) (aL aR : Bool) (st : Nat) (l r : Option Bytes) (pp : Ph) : Prop :=
  st % 2 = (aL.toNat + aR.toNat) % 2 ∧
  (aL = true → l = some (val cfg c (2 * j))) ∧
  (aR = true → r = some (val cfg c (2 * j + 1))) ∧
  (pp = .pending ↔ ¬(aL = true ∧ aR = true))

def NodeAt (cfg : Cfg) (s : St) (ph : Nat → Nat → Ph) (c j : Nat) : Prop :=
  NodeOK cfg c j (arr cfg s ph c (2 * j)) (arr cfg s ph c (2 * j + 1))
    (s.state (c + 1) j) (s.left (c + 1) j) (s.right (c + 1) j) (ph (c + 1) j)

structure Inv (cfg : Cfg) (s : St) (ph : Nat → Nat → Ph) : Prop where
  thr  : ∀ t, t ≤ cfg.pos → TOK cfg s ph t (s.pc t)
  own  : ∀ c k t, ph c k = .held t → t ≤ cfg.pos ∧ holdsAt t (s.pc t) c k
  node : ∀ c j, c < cfg.d → j ≤ path cfg.pos (c + 1) → NodeAt cfg s ph c j
  out  : ∀ c j, ¬(1 ≤ c ∧ c ≤ cfg.d ∧ j ≤ path cfg.pos c) → s.state c j % 2 = 0
  leaf : ∀ i, i ≤ cfg.pos → ph 0 i ≠ .pending
  res  : s.result = if ph cfg.d 0 = .arrived then [val cfg cfg.d 0] else []

/-! ## The step function as a relation -/

inductive StepRel (cfg : Cfg) (s : St) (t : Nat) : St → Prop where
  | init : s.pc t = .init → StepRel cfg s t (setPc s t (.top 0 t (some (cfg.vals.getD t []))))
  | send (c k : Nat) (sv : Option Bytes) (v : Bytes) : s.pc t = .top c k sv → cfg.d ≤ c → s.result = [] →
      ((t < cfg.pos ∧ v = sv.getD []) ∨ (¬ t < cfg.pos ∧ sv = some v)) →
      StepRel cfg s t { setPc s t .done with result := [v] }
  | finNil (c k : Nat) : s.pc t = .top c k none → cfg.d ≤ c → ¬ t < cfg.pos → StepRel cfg s t (setPc s t .done)
  | wrL (c k : Nat) (sv : Option Bytes) : s.pc t = .top c k sv → c < cfg.d → t < cfg.pos → k % 2 = 0 →
      StepRel cfg s t (setPc { s with left := upd2 s.left (c + 1) (k / 2) sv } t (.wrote c k))
  | wrR (c k : Nat) (sv : Option Bytes) : s.pc t = .top c k sv → c < cfg.d → t < cfg.pos → k % 2 ≠ 0 →
      StepRel cfg s t (setPc { s with right := upd2 s.right (c + 1) (k / 2) sv } t (.wrote c k))
  | fzr (c k : Nat) (sv : Option Bytes) : s.pc t = .top c k sv → c < cfg.d → ¬ t < cfg.pos → k % 2 = 0 →
      StepRel cfg s t (setPc { s with right := upd2 s.right (c + 1) (k / 2) (some (zerohash cfg.H cfg.seg (c + 1))) } t (.zr c k sv))
  | fwr (c k : Nat) (v : Bytes) : s.pc t = .top c k (some v) → c < cfg.d → ¬ t < cfg.pos → k % 2 ≠ 0 →
      StepRel cfg s t (setPc { s with right := upd2 s.right (c + 1) (k / 2) (some v) } t (.wrote c k))
  | fnil (c k : Nat) : s.pc t = .top c k none → c < cfg.d → ¬ t < cfg.pos → k % 2 ≠ 0 →
      StepRel cfg s t (setPc s t (.top (c + 1) (k / 2) none))
  | zrSome (c k : Nat) (v : Bytes) : s.pc t = .zr c k (some v) → ¬ t < cfg.pos →
      StepRel cfg s t (setPc { s with left := upd2 s.left (c + 1) (k / 2) (some v) } t (.hash (c + 1) (k / 2)))
  | zrNone (c k : Nat) : s.pc t = .zr c k none → ¬ t < cfg.pos → StepRel cfg s t (toggleStep cfg s t c k)
  | tog (c k : Nat) : s.pc t = .wrote c k → StepRel cfg s t (toggleStep cfg s t c k)
  | hash (c j : Nat) : s.pc t = .hash c j →
      StepRel cfg s t (setPc s t (.top c j (some (cfg.H ((s.left c j).getD [] ++ (s.right c j).getD [])))))

theorem step_rel {cfg : Cfg} {s s' : St} {t : Nat} (h : step cfg s t = some s') :
    t ≤ cfg.pos ∧ StepRel cfg s t s' := by
  unfold step at h
  split at h
  · simp at h
  · refine ⟨by omega, ?_⟩
    split at h
    · simp at h
    · next hpc => simp only [Option.some.injEq] at h; subst h; exact .init hpc
    · next c k sv hpc =>
      split at h
      · next hc =>
        split at h
        · next ht =>
          unfold sendStep at h
          split at h
          · next hr => simp only [Option.some.injEq] at h; subst h; exact .send c k sv _ hpc hc hr (.inl ⟨ht, rfl⟩)
          · simp at h
        · next ht =>
          split at h
          · next v =>
            unfold sendStep at h
            split at h
            · next hr => simp only [Option.some.injEq] at h; subst h; exact .send c k _ v hpc hc hr (.inr ⟨ht, rfl⟩)
            · simp at h
          · simp only [Option.some.injEq] at h; subst h; exact .finNil c k hpc hc ht
      · next hc =>
        split at h
        · next ht =>
          split at h
          · next hk => simp only [Option.some.injEq] at h; subst h; exact .wrL c k sv hpc (by omega) ht hk
          · next hk => simp only [Option.some.injEq] at h; subst h; exact .wrR c k sv hpc (by omega) ht hk
        · next ht =>
          split at h
          · next hk => simp only [Option.some.injEq] at h; subst h; exact .fzr c k sv hpc (by omega) ht hk
          · next hk =>
            split at h
            · next v => simp only [Option.some.injEq] at h; subst h; exact .fwr c k v hpc (by omega) ht hk
            · simp only [Option.some.injEq] at h; subst h; exact .fnil c k hpc (by omega) ht hk
    · next c k sv hpc =>
      split at h
      · simp at h
      · next ht =>
        split at h
        · next v => simp only [Option.some.injEq] at h; subst h; exact .zrSome c k v hpc ht
        · simp only [Option.some.injEq] at h; subst h; exact .zrNone c k hpc ht
    · next c k hpc => simp only [Option.some.injEq] at h; subst h; exact .tog c k hpc
    · next c j hpc => simp only [Option.some.injEq] at h; subst h; exact .hash c j hpc

end Aurora.BmtConc
