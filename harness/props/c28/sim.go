package c28

// Real routetab.Service instances over real Kademlia tables, a capturing streamer and a scripted
// crypto/rand stream.  Used both for the handler-level correspondence (one node) and for the
// network-level simulation (N nodes wired by the in-harness scheduler).

import (
	"bytes"
	"context"
	crand "crypto/rand"
	"crypto/sha256"
	"errors"
	"fmt"
	"io"
	"strings"
	"sync"
	"time"

	"github.com/ethereum/go-ethereum/common"
	"github.com/gauss-project/aurorafs/pkg/addressbook"
	"github.com/gauss-project/aurorafs/pkg/aurora"
	"github.com/gauss-project/aurorafs/pkg/boson"
	"github.com/gauss-project/aurorafs/pkg/crypto"
	discmock "github.com/gauss-project/aurorafs/pkg/discovery/mock"
	"github.com/gauss-project/aurorafs/pkg/logging"
	"github.com/gauss-project/aurorafs/pkg/p2p"
	p2pmock "github.com/gauss-project/aurorafs/pkg/p2p/mock"
	"github.com/gauss-project/aurorafs/pkg/p2p/protobuf"
	"github.com/gauss-project/aurorafs/pkg/routetab"
	"github.com/gauss-project/aurorafs/pkg/routetab/pb"
	"github.com/gauss-project/aurorafs/pkg/shed"
	sldb "github.com/gauss-project/aurorafs/pkg/shed/leveldb"
	mockstate "github.com/gauss-project/aurorafs/pkg/statestore/mock"
	"github.com/gauss-project/aurorafs/pkg/subscribe"
	"github.com/gauss-project/aurorafs/pkg/topology/kademlia"
	"github.com/gauss-project/aurorafs/pkg/topology/lightnode"
	ma "github.com/multiformats/go-multiaddr"
)

const (
	universe  = 6
	networkID = uint64(0)
)

type ident struct {
	overlay boson.Address
	addr    *aurora.Address
}

var (
	ids    [universe]ident
	byHex  = map[string]int{}
	byHash = map[common.Hash]int{}
	logger = logging.New(io.Discard, 0)
	full   = aurora.NewModel().SetMode(aurora.FullNode)
	setup  sync.Once
	// one in-memory metrics DB for every Kademlia instance of the process: opening one costs ~0.2 s
	// (goleveldb clears its write buffer) and nothing is ever flushed to it (no manage loop runs).
	metricsDB *shed.DB
)

func initUniverse() {
	setup.Do(func() {
		reg := false
		for _, d := range shed.Drivers() {
			if d == "leveldb" {
				reg = true
			}
		}
		if !reg {
			shed.Register("leveldb", sldb.Driver{})
		}
		var err error
		if metricsDB, err = shed.NewDB("", nil); err != nil {
			panic(err)
		}
		routetab.PendingTimeout = time.Hour // the background pending-GC must never fire inside a case
		routetab.VerifSetFindTimeout(shortFindTimeout)
		for i := 0; i < universe; i++ {
			seed := sha256.Sum256([]byte(fmt.Sprintf("verif-c28-node-%d", i)))
			pk := crypto.Secp256k1PrivateKeyFromBytes(seed[:])
			signer := crypto.NewDefaultSigner(pk)
			ov, err := crypto.NewOverlayAddress(pk.PublicKey, networkID)
			if err != nil {
				panic(err)
			}
			mu, err := ma.NewMultiaddr("/ip4/127.0.0.1/tcp/1634/dns/" + ov.String())
			if err != nil {
				panic(err)
			}
			a, err := aurora.NewAddress(signer, mu, ov, networkID)
			if err != nil {
				panic(err)
			}
			ids[i] = ident{overlay: ov, addr: a}
			byHex[ov.String()] = i
			byHash[common.BytesToHash(ov.Bytes())] = i
		}
	})
}

func idx(a boson.Address) int {
	if v, ok := byHex[a.String()]; ok {
		return v
	}
	return 99
}

// ---- scripted crypto/rand ----------------------------------------------------------------

type scriptReader struct{ b []byte }

func (s *scriptReader) Read(p []byte) (int, error) {
	for i := range p {
		if len(s.b) > 0 {
			p[i] = s.b[0]
			s.b = s.b[1:]
		} else {
			p[i] = 0
		}
	}
	return len(p), nil
}

// withRand runs f with crypto/rand.Reader replaced by the scripted byte stream (then zeros).
func withRand(script []byte, f func()) {
	old := crand.Reader
	crand.Reader = &scriptReader{b: append([]byte(nil), script...)}
	defer func() { crand.Reader = old }()
	f()
}

// ---- capturing streams ---------------------------------------------------------------------

type capStream struct {
	to   boson.Address
	name string
	mu   sync.Mutex
	out  bytes.Buffer
	in   *bytes.Reader
}

func (s *capStream) Read(p []byte) (int, error) {
	if s.in == nil {
		return 0, io.EOF
	}
	return s.in.Read(p)
}
func (s *capStream) Write(p []byte) (int, error) {
	s.mu.Lock()
	defer s.mu.Unlock()
	return s.out.Write(p)
}
func (s *capStream) Close() error                 { return nil }
func (s *capStream) FullClose() error             { return nil }
func (s *capStream) Reset() error                 { return nil }
func (s *capStream) Headers() p2p.Headers         { return p2p.Headers{} }
func (s *capStream) ResponseHeaders() p2p.Headers { return p2p.Headers{} }

type capStreamer struct {
	mu      sync.Mutex
	streams []*capStream
}

func (c *capStreamer) NewStream(_ context.Context, a boson.Address, _ p2p.Headers, _, _, stream string) (p2p.Stream, error) {
	c.mu.Lock()
	defer c.mu.Unlock()
	s := &capStream{to: a, name: stream}
	c.streams = append(c.streams, s)
	return s, nil
}
func (c *capStreamer) NewRelayStream(context.Context, boson.Address, p2p.Headers, string, string, string, bool) (p2p.Stream, error) {
	return nil, errors.New("no relay stream in the harness")
}
func (c *capStreamer) NewConnChainRelayStream(context.Context, boson.Address, p2p.Headers, string, string, string) (p2p.Stream, error) {
	return nil, errors.New("no relay stream in the harness")
}

func (c *capStreamer) count() int {
	c.mu.Lock()
	defer c.mu.Unlock()
	return len(c.streams)
}

// take returns and clears what was written since the last call.  protobuf.WriteMsgWithContext
// writes from a goroutine and returns early when its context has expired (FindRoute's timeout), so
// a stream may have been opened but not written yet: wait until every opened stream holds its
// message (one delimited message = one Write).
func (c *capStreamer) take() []*capStream {
	deadline := time.Now().Add(2 * time.Second)
	for {
		c.mu.Lock()
		pending := false
		for _, s := range c.streams {
			s.mu.Lock()
			if s.out.Len() == 0 {
				pending = true
			}
			s.mu.Unlock()
		}
		if !pending || time.Now().After(deadline) {
			out := c.streams
			c.streams = nil
			c.mu.Unlock()
			return out
		}
		c.mu.Unlock()
		time.Sleep(20 * time.Microsecond)
	}
}

func inStream(msg protobuf.Message) *capStream {
	var b bytes.Buffer
	if err := protobuf.NewWriter(&b).WriteMsgWithContext(context.Background(), msg); err != nil {
		panic(err)
	}
	return &capStream{in: bytes.NewReader(b.Bytes())}
}

// ---- p2p.Service stub: the two relay entry points routetab calls back -----------------------

type p2pStub struct {
	*p2pmock.Service
	self boson.Address
}

func (s *p2pStub) CallHandlerWithConnChain(context.Context, p2p.Peer, p2p.Peer, p2p.Stream, string, string, string) error {
	return nil // the relayed stream reached its target: hand-over to the local protocol handler
}

// CallHandler mimics libp2p's framing of a relayed stream: read the first RouteRelayReq and tell
// onRelay to forward unless this node is the destination.
func (s *p2pStub) CallHandler(_ context.Context, _ p2p.Peer, stream p2p.Stream) (*pb.RouteRelayReq, *p2p.WriterChan, *p2p.ReaderChan, bool, error) {
	req := &pb.RouteRelayReq{}
	if err := protobuf.NewReader(stream).ReadMsgWithContext(context.Background(), req); err != nil {
		return nil, nil, nil, false, err
	}
	w := &p2p.WriterChan{W: make(chan []byte, 1), Err: make(chan error, 1)}
	r := &p2p.ReaderChan{R: make(chan []byte, 1), Err: make(chan error, 1)}
	return req, w, r, !bytes.Equal(req.Dest, s.self.Bytes()), nil
}

// ---- one node -------------------------------------------------------------------------------

type simNode struct {
	self   int
	svc    *routetab.Service
	kad    *kademlia.Kad
	book   addressbook.Interface // routetab's address book (kademlia has its own)
	kbook  addressbook.Interface // kademlia's address book
	str    *capStreamer
	cancel context.CancelFunc
	nbrs   []int
}

// newSimNode builds a real Service for universe node `self` connected to nbrs (in this order);
// class[i]: 0 = reachability public, 1 = private.
func newSimNode(self int, nbrs []int, class []int, book []int) *simNode {
	initUniverse()
	db := metricsDB
	kadBook := addressbook.New(mockstate.NewStateStore())
	rtBook := addressbook.New(mockstate.NewStateStore())
	p2ps := &p2pStub{Service: p2pmock.New(p2pmock.WithDisconnectFunc(func(boson.Address, string) error { return nil })), self: ids[self].overlay}
	kad, err := kademlia.New(ids[self].overlay, kadBook, discmock.NewDiscovery(), p2ps, nil, nil, nil, db, logger,
		subscribe.NewSubPub(), kademlia.Options{BinMaxPeers: 10, NodeMode: full})
	if err != nil {
		panic(err)
	}
	p2ps.SetPickyNotifier(kad)
	for k, nb := range nbrs {
		if err := kadBook.Put(ids[nb].overlay, *ids[nb].addr); err != nil {
			panic(err)
		}
		if err := kad.Connected(context.Background(), p2p.Peer{Address: ids[nb].overlay, Mode: full}, true); err != nil {
			panic(err)
		}
		st := p2p.ReachabilityStatusPrivate
		if class[k] == 0 {
			st = p2p.ReachabilityStatusPublic
		}
		kad.Reachable(ids[nb].overlay, st)
	}
	for _, b := range book {
		if err := rtBook.Put(ids[b].overlay, *ids[b].addr); err != nil {
			panic(err)
		}
	}
	str := &capStreamer{}
	ctx, cancel := context.WithCancel(context.Background())
	svc := routetab.New(ids[self].overlay, ctx, p2ps, str, rtBook, networkID, lightnode.NewContainer(ids[self].overlay), kad,
		mockstate.NewStateStore(), logger, routetab.Options{})
	return &simNode{self: self, svc: svc, kad: kad, book: rtBook, kbook: kadBook, str: str, cancel: cancel, nbrs: append([]int(nil), nbrs...)}
}

// link / unlink: the topology changes while the node runs (network-level ops nlink / nunlink).
func (n *simNode) link(nb int, public bool) {
	if contains(n.nbrs, nb) {
		return
	}
	if err := n.kbook.Put(ids[nb].overlay, *ids[nb].addr); err != nil {
		panic(err)
	}
	if err := n.kad.Connected(context.Background(), p2p.Peer{Address: ids[nb].overlay, Mode: full}, true); err != nil {
		panic(err)
	}
	st := p2p.ReachabilityStatusPrivate
	if public {
		st = p2p.ReachabilityStatusPublic
	}
	n.kad.Reachable(ids[nb].overlay, st)
	_ = n.book.Put(ids[nb].overlay, *ids[nb].addr)
	n.nbrs = append(n.nbrs, nb)
}

func (n *simNode) unlink(nb int) {
	if !contains(n.nbrs, nb) {
		return
	}
	if err := n.kad.DisconnectForce(ids[nb].overlay, "link down"); err != nil {
		panic(err)
	}
	var keep []int
	for _, v := range n.nbrs {
		if v != nb {
			keep = append(keep, v)
		}
	}
	n.nbrs = keep
}

// expectForward: how many neighbours FindRoute(target) will ask (getNeighbor with NeighborAlpha,
// skipping the target), computed from Kademlia's candidate list.
func (n *simNode) expectForward(target, alpha int) int {
	c, cl := n.candidates(ids[target].overlay)
	direct, nd := 0, 0
	for i, v := range c {
		if v == target {
			continue
		}
		switch cl[i] {
		case 0:
			direct++
		case 1:
			nd++
		}
	}
	if direct >= alpha {
		return alpha
	}
	if nd > alpha-direct {
		nd = alpha - direct
	}
	return direct + nd
}

// selfPending: pending-table entries for target that belong to a FindRoute of this node (source =
// self, with a result channel).  They appear while FindRoute registers its requests and disappear
// when a response for the target is handled (which signals the channel) or FindRoute gives up.
func (n *simNode) selfPending(target int) int {
	c := 0
	for _, it := range n.svc.VerifPendingCalls().VerifResp()[common.BytesToHash(ids[target].overlay.Bytes())] {
		if it.ResCh != nil && it.Src.Equal(ids[n.self].overlay) {
			c++
		}
	}
	return c
}

// reqLogged: entries of the request log (target, next) for this target.
func (n *simNode) reqLogged(target int) int {
	c, pre := 0, ids[target].overlay.String()
	for _, k := range n.svc.VerifPendingCalls().VerifReqKeys() {
		if strings.HasPrefix(k, pre) {
			c++
		}
	}
	return c
}

const (
	longFindTimeout  = 30 * time.Second
	shortFindTimeout = 2 * time.Millisecond
)

// relayRun delivers a relay request to the node's handler `name` on its own goroutine.  If the
// handler runs a route discovery (GetNextHopRandomOrFind -> FindRoute) and blocks waiting for a
// response, `during` is called while it is parked: the caller delivers messages (to this or other
// nodes).  If no response for the target has signalled the waiting FindRoute when `during`
// returns, the handler's context is cancelled (FindRoute gives up exactly as on its timeout).
// Returns whether the handler was parked.  nForward = expectForward(target).  The caller has emptied the
// node's capturing streamer or knows what is in it (streams opened from now on are the discovery's requests).
func (n *simNode) relayRun(name string, from int, msg protobuf.Message, target, nForward int, during func()) (parked bool) {
	routetab.VerifSetFindTimeout(longFindTimeout)
	defer routetab.VerifSetFindTimeout(shortFindTimeout)
	ctx, cancel := context.WithCancel(context.Background())
	defer cancel()
	done := make(chan struct{})
	base, logged := n.str.count(), n.reqLogged(target)
	h := n.handler(name)
	in := inStream(msg)
	go func() {
		defer close(done)
		_ = h(ctx, p2p.Peer{Address: ids[from].overlay, Mode: full}, in)
	}()
	deadline := time.Now().Add(5 * time.Second)
	seen := 0
wait:
	for {
		select {
		case <-done:
			return false
		default:
		}
		// every request is registered (one pending entry per neighbour asked) and every request that had
		// to be sent (no request for (target, next) was logged before) has its stream: FindRoute is waiting
		// (seen on two consecutive polls: Add registers the entry just before it logs the request)
		if nForward > 0 && n.selfPending(target) >= nForward && n.str.count() >= base+n.reqLogged(target)-logged {
			if seen++; seen >= 2 {
				parked = true
				break wait
			}
		} else {
			seen = 0
		}
		if time.Now().After(deadline) {
			break wait
		}
		time.Sleep(25 * time.Microsecond)
	}
	if parked {
		during()
		if n.selfPending(target) > 0 {
			cancel()
		}
	} else {
		cancel()
	}
	select {
	case <-done:
	case <-time.After(10 * time.Second):
		panic("relay handler does not return")
	}
	return parked
}

func (n *simNode) close() {
	n.cancel() // (Kad.Close waits for a manage loop that was never started; the Kad is simply dropped)
}

func (n *simNode) handler(name string) p2p.HandlerFunc {
	for _, s := range n.svc.Protocol().StreamSpecs {
		if s.Name == name {
			return s.Handler
		}
	}
	panic("no handler " + name)
}

// candidates replicates the enumeration getNeighbor asks Kademlia for (bin peers below the
// depth, neighbourhood peers otherwise) through Kademlia's exported API, with each peer's
// reachability class; it is handed to the model as the observed environment.
func (n *simNode) candidates(target boson.Address) (out []int, class []int) {
	depth := n.kad.NeighborhoodDepth()
	po := boson.Proximity(ids[n.self].overlay.Bytes(), target.Bytes())
	var list []boson.Address
	if po < depth {
		list = n.kad.ConnectedPeers().BinPeers(po)
	} else {
		_ = n.kad.EachNeighbor(func(a boson.Address, _ uint8) (bool, bool, error) {
			list = append(list, a)
			return false, false, nil
		})
	}
	for _, a := range list {
		c := 2
		if ss := n.kad.SnapshotAddr(a); ss != nil {
			c = 1
			if ss.Reachability == p2p.ReachabilityStatusPublic {
				c = 0
			}
		}
		out = append(out, idx(a))
		class = append(class, c)
	}
	return
}

// packet is a decoded outgoing message.
type packet struct {
	from, to int
	kind     string // "Q" request, "R" response, "C"/"P" relay
	req      *pb.RouteReq
	resp     *pb.RouteResp
	relay    *pb.RouteRelayReq
}

func decode(from int, ss []*capStream) []packet {
	var out []packet
	for _, s := range ss {
		s.mu.Lock()
		raw := append([]byte(nil), s.out.Bytes()...)
		s.mu.Unlock()
		p := packet{from: from, to: idx(s.to)}
		rd := protobuf.NewReader(bytes.NewReader(raw))
		var err error
		switch s.name {
		case "onRouteReq":
			p.kind, p.req = "Q", &pb.RouteReq{}
			err = rd.ReadMsgWithContext(context.Background(), p.req)
		case "onRouteResp":
			p.kind, p.resp = "R", &pb.RouteResp{}
			err = rd.ReadMsgWithContext(context.Background(), p.resp)
		case routetab.StreamOnRelayConnChain:
			p.kind, p.relay = "C", &pb.RouteRelayReq{}
			err = rd.ReadMsgWithContext(context.Background(), p.relay)
		case routetab.StreamOnRelay:
			p.kind, p.relay = "P", &pb.RouteRelayReq{}
			err = rd.ReadMsgWithContext(context.Background(), p.relay)
		default:
			p.kind = "?" + s.name
		}
		if err != nil {
			p.kind = "!" + p.kind
		}
		out = append(out, p)
	}
	return out
}

func (n *simNode) deliver(name string, from int, msg protobuf.Message) error {
	return n.handler(name)(context.Background(), p2p.Peer{Address: ids[from].overlay, Mode: full}, inStream(msg))
}
