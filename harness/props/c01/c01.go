// Package c01: correspondence + oracles for "uploaded content reads back byte-identical"
// (builder pipeline plain/encrypted, joiner New/Size/ReadAt/Read/Seek, file.JoinReadAll).
package c01

import (
	"fmt"

	"verifharness/core"
	fc "verifharness/props/filecommon"
)

type prop struct{}

func init() { core.Register(prop{}) }

func (prop) ID() string       { return "C01" }
func (prop) New() core.Runner { return fc.New("C01") }
func (prop) Rule() string {
	return "cases: upload through builder.NewPipelineBuilder (plain ~70%, encrypted ~30%; lengths 0,1,31..33,63..65,127..129,4095..4097,C-1,C,C+1,2C-1,2C,2C+1,3C,random; " +
		"segmentations: one write, fixed pieces, random cuts with zero-length writes, cuts next to chunk boundaries), `sum`, `open` (joiner.New over the Put-logging copying store), `size`, then a mix of " +
		"`readat off len len` (offsets 0, size-1, size, size+1, chunk boundaries +-1, random; lengths 0,1,100,C,size,size+5,random), `read n n`/`seek off whence` sequences and `readall` (file.JoinReadAll). " +
		"Go oracle (model-free): size = bytes written, every read returns exactly content[off:off+min(len,size-off)], sequential reads follow the oracle's own cursor, JoinReadAll returns the content. " +
		"Encrypted mode: the runner reads the random keys and padding bytes back from the 64-byte references / stored chunks (own keystream implementation) and annotates `sum` with them; the model (EncUpload.upload) " +
		"recomputes every address with real Keccak: compared are the full reference, the Put count and multiset digest, size and every read (through the decrypting getter model). Fixed encrypted cases: empty file, 1 byte, C, C+1, C+100; " +
		"`new encsmall c b` (real encryption/bmt/store/hashtrie writers with small chunk size and branching, writer side only) reaches trees with two and three intermediate levels; " +
		"`new synth seed size period` serves the canonical encrypted tree of a 1 GiB + 3C + 1000 byte periodic file chunk by chunk on demand (fake addresses, position-derived keys) to the real joiner / decrypting getter and to the reader model: reads across and beyond the 1 GiB boundary (two intermediate levels with the real constants). " +
		"Go oracle, encrypted: stored chunks have 8+C bytes and are cac.Valid, decrypted data chunks equal the written bytes (enc-leaf-content), plus all read-back clauses. " +
		"Non-trivial: opened and >= 1 read of a non-empty file; distinct by op-list hash. Multi-chunk cases limited in number (Lean-side hashing cost)."
}

func reads(r *core.Rand, size int, k int) []string {
	C := fc.C
	var ops []string
	offs := []int{0, 0, size - 1, size, size + 1, C - 1, C, C + 1, 2 * C, 2*C - 1, size / 2}
	for i := 0; i < k; i++ {
		switch r.Intn(10) {
		case 0, 1, 2, 3:
			off := r.Pick(offs)
			if off < 0 || r.Chance(40) {
				off = r.Intn(size + 2)
			}
			ln := r.Pick([]int{0, 1, 10, 100, 4096, size, size + 5})
			if size > 70000 && r.Chance(50) {
				ln = r.Pick([]int{C, C + 1, C - 1, 100, 2 * C})
			}
			if r.Chance(30) {
				ln = r.Intn(size + 10)
			}
			ops = append(ops, fmt.Sprintf("readat %d %d %d", off, ln, ln))
		case 4, 5, 6:
			ln := r.Pick([]int{1, 7, 100, 4096, size/3 + 1})
			if size > 70000 {
				ln = r.Pick([]int{C, C / 2, 100000})
			}
			ops = append(ops, fmt.Sprintf("read %d %d", ln, ln))
		case 7, 8:
			wh := r.Intn(3)
			off := r.Intn(size + 2)
			if wh == 1 {
				off = r.Range(-size/2, size/2)
			}
			ops = append(ops, fmt.Sprintf("seek %d %d", off, wh))
		default:
			if r.Chance(50) {
				ops = append(ops, "seek 0 0")
			}
			ops = append(ops, "readall")
		}
	}
	return ops
}

func (prop) Gen(r *core.Rand, tier string) []core.Case {
	nSmall, nMed, nBig := 130, 12, 6
	if tier == "thorough" {
		nSmall, nMed, nBig = 700, 60, 18
	}
	C := fc.C
	cs := []core.Case{
		{ID: "fix-empty", NT: true, Ops: []string{"new", "sum", "open", "size", "readat 0 10 10", "read 5 5", "seek 0 2", "readall", "new enc", "sum", "open", "size", "read 1 1"}},
		{ID: "fix-protocol", Ops: []string{"open", "size", "read 1 1", "new", "open", "write g:1:10", "open", "sum", "size", "open", "readat 3 4 4", "readat 3 4 2", "seek x 0", "frob"}},
		{ID: "fix-two-chunks", NT: true, Ops: []string{"new", fmt.Sprintf("write p:11:%d:65536", C+100), "sum", "open", "size",
			fmt.Sprintf("readat %d 200 200", C-100), fmt.Sprintf("readat %d 1 1", C), fmt.Sprintf("readat %d 100 100", C+99), "readat 0 10 10", fmt.Sprintf("seek 100 2"), "read 300 300", "seek 0 0", "readall"}},
		// a short write followed by ONE write that completes the buffered chunk and spans further full chunks
		// (the feeder's flush loop runs several times within a single Write call while a partial chunk was buffered)
		{ID: "fix-short-then-big-write", NT: true, Ops: []string{"new", "write p:13:100:100", fmt.Sprintf("write p:14:%d:4099", 2*C+1000), "write p:15:7:7", "sum", "open", "size",
			"readat 0 300 300", fmt.Sprintf("readat %d 300 300", C-150), fmt.Sprintf("readat %d 300 300", 2*C-150), "readall"}},
		{ID: "fix-enc-short-then-big-write", NT: true, Ops: []string{"new enc", "write p:13:100:100", fmt.Sprintf("write p:14:%d:4099", 2*C+1000), "sum", "open", "size",
			fmt.Sprintf("readat %d 300 300", C-150), "readall"}},
		{ID: "fix-enc-two-chunks", NT: true, Ops: []string{"new enc", fmt.Sprintf("write p:12:%d:65536", C+100), "sum", "open", "size",
			fmt.Sprintf("readat %d 200 200", C-100), "seek 50 2", "read 100 100", "seek 0 0", "readall"}},
	}
	// encrypted fixed sizes around the chunk boundary (the empty file is in fix-empty and here again on its own)
	cs = append(cs,
		core.Case{ID: "fix-enc-empty", NT: true, Ops: []string{"new enc", "sum", "open", "size", "readat 0 10 10", "read 5 5", "seek 0 2", "seek 1 0", "readall"}},
		core.Case{ID: "fix-enc-empty-write", NT: true, Ops: []string{"new enc", "write h:-", "sum", "open", "size", "read 1 1"}},
		core.Case{ID: "fix-enc-one-byte", NT: true, Ops: []string{"new enc", "write h:5a", "sum", "open", "size", "readat 0 1 1", "readat 1 1 1", "read 2 2", "read 1 1"}},
		core.Case{ID: "fix-enc-full-chunk", NT: true, Ops: []string{"new enc", fmt.Sprintf("writeseg p:13:%d:4096 100000", C), "sum", "open", "size", fmt.Sprintf("readat %d 5 5", C-3), "readall"}},
		core.Case{ID: "fix-enc-chunk-plus-one", NT: true, Ops: []string{"new enc", fmt.Sprintf("write p:14:%d:4096", C+1), "sum", "open", "size", fmt.Sprintf("readat %d 5 5", C-3), fmt.Sprintf("readat %d 1 1", C), "seek 1 2", "read 9 9"}},
		// two intermediate levels with branching 2 (3 data chunks → node(node(l1,l2),l3)) and three levels
		core.Case{ID: "fix-encsmall-two-levels", NT: true, Ops: []string{"new encsmall 64 2", "write g:21:150", "sum", "open"}},
		core.Case{ID: "fix-encsmall-three-levels", NT: true, Ops: []string{"new encsmall 32 2", "writeseg g:22:131 7", "sum"}},
	)
	// reader on an encrypted tree with two intermediate levels (> 4096 chunks, 1 GiB + 3 chunks + 1000 bytes),
	// served on demand by a synthetic store (real joiner and decrypting getter; no upload)
	{
		G := 4096 * C
		size := G + 3*C + 1000
		cs = append(cs, core.Case{ID: "fix-enc-synth-two-levels", NT: true, Ops: []string{
			fmt.Sprintf("new synth 7 %d 4096", size), "open", "size",
			fmt.Sprintf("readat %d 300 300", G-100), fmt.Sprintf("readat %d 1000 1000", G+C+5), "readat 12345 10 10",
			"seek 500 2", "read 300 300", "read 300 300", "read 1 1", fmt.Sprintf("seek %d 0", G), "read 7 7"}})
	}
	nEncSmall := 3
	if tier == "thorough" {
		nEncSmall = 20
	}
	for i := 0; i < nEncSmall; i++ {
		c := r.Pick([]int{32, 33, 64, 100, 4096})
		b := r.Pick([]int{2, 2, 3, 4})
		leaves := r.Range(1, b*b+2)
		if leaves > 9 {
			leaves = 9
		}
		total := (leaves-1)*c + r.Range(1, c)
		if r.Chance(20) {
			total = leaves * c
		}
		cse := core.Case{ID: fmt.Sprintf("es%d", i), NT: true, Ops: []string{fmt.Sprintf("new encsmall %d %d", c, b)}}
		if r.Chance(50) {
			cse.Ops = append(cse.Ops, fmt.Sprintf("writeseg %s %d", fc.Src(r, total, true), r.Range(1, 2*c+1)))
		} else {
			cse.Ops = append(cse.Ops, "write "+fc.Src(r, total, true))
		}
		cse.Ops = append(cse.Ops, "sum")
		cs = append(cs, cse)
	}
	add := func(id string, total int, nreads int) {
		head := "new"
		if r.Chance(30) {
			head = "new enc"
		}
		c := core.Case{ID: id, Ops: []string{head}}
		c.Ops = append(c.Ops, fc.Writes(r, total)...)
		c.Ops = append(c.Ops, "sum", "open")
		if r.Chance(50) {
			c.Ops = append(c.Ops, "size")
		}
		c.Ops = append(c.Ops, reads(r, total, nreads)...)
		c.NT = total > 0
		cs = append(cs, c)
	}
	for i := 0; i < nSmall; i++ {
		add(fmt.Sprintf("s%d", i), fc.Length(r, 0, 0), r.Range(3, 12))
	}
	for i := 0; i < nMed; i++ {
		add(fmt.Sprintf("m%d", i), fc.Length(r, 1, 0), r.Range(3, 8))
	}
	for i := 0; i < nBig; i++ {
		add(fmt.Sprintf("b%d", i), fc.Length(r, 2, 3*C), r.Range(3, 6))
	}
	return cs
}
