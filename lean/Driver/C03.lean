import Driver.Util
import Aurora.Model.Keccak
import Aurora.Model.Bmt
/-! Driver for C03: BMT hasher model (`Aurora.Bmt.Hasher`) with real Keccak-256, a FIFO pool of
    (dirty) tree buffers, and the recursive specification evaluated next to it for small trees. -/
namespace Driver.C03
open Aurora.Bmt

def keccak (b : Bytes) : Bytes := (Aurora.Keccak.keccak256 ⟨b.toArray⟩).toList

structure HSt where
  id : String
  h : Hasher
  data : Bytes      -- everything offered to Write since get/reset (for the spec)
  hashed : Bool := false   -- Hash called since get/reset (a second Hash / later Write is outside the contract)

structure St where
  d : Nat := 0
  ready : Bool := false
  pool : List Bytes := []
  hs : List HSt := []

def seg : Nat := 32

/-- `sizeToParams`: smallest power of two `c ≥ max 2 n`; returns `d` with `c = 2^(d+1)`. -/
def sizeToD (n : Nat) : Nat := Id.run do
  let mut c := 2
  let mut d := 0
  for _ in [0:64] do
    if c < n then
      c := c * 2
      d := d + 1
  return d

def find (st : St) (id : String) : Option HSt := st.hs.find? (·.id = id)
def upd (st : St) (x : HSt) : St := { st with hs := st.hs.map (fun y => if y.id = x.id then x else y) }

def specLimit : Nat := 8192

def hashOut (st : St) (x : HSt) : St × String :=
  let (dg, h') := x.h.hash keccak seg st.d
  let st' := upd st { x with h := h', hashed := true }
  if maxSize seg st.d ≤ specLimit then
    let spec := bmtHash keccak seg st.d x.h.span (x.data.take (maxSize seg st.d))
    if spec = dg then (st', Driver.bytesToHex dg) else (st', s!"MODEL-SPEC-MISMATCH model={Driver.bytesToHex dg} spec={Driver.bytesToHex spec}")
  else (st', Driver.bytesToHex dg)

def doWrite (st : St) (x : HSt) (b : Bytes) : St × String :=
  let (h', l) := x.h.write keccak seg b
  (upd st { x with h := h', data := x.data ++ b }, toString l)

def step (st : St) (op : List String) : St × String :=
  match op with
  | ["pool", n, cap] =>
    match n.toNat?, cap.toNat? with
    | some n, some cap =>
      let d := sizeToD n
      ({ d := d, ready := true, pool := List.replicate cap (zeros (maxSize seg d)), hs := [] }, s!"ok {maxSize seg d}")
    | _, _ => (st, "bad-op")
  | _ =>
  if !st.ready then (st, "nopool") else
  match op with
  | ["get", id] =>
    if (find st id).isSome then (st, "dup") else
    match st.pool with
    | [] => (st, "empty")
    | b :: rest => ({ st with pool := rest, hs := st.hs ++ [{ id := id, h := Hasher.get b, data := [] }] }, "ok")
  | ["put", id] =>
    match find st id with
    | none => (st, "noh")
    | some x => ({ st with pool := st.pool ++ [x.h.buffer], hs := st.hs.filter (·.id ≠ id) }, "ok")
  | ["reset", id] =>
    match find st id with
    | none => (st, "noh")
    | some x => (upd st { x with h := x.h.reset, data := [], hashed := false }, "ok")
  | ["setspan", id, hx] =>
    match find st id, Driver.hexToBytes hx with
    | none, _ => (st, "noh")
    | some x, some b => (upd st { x with h := x.h.setHeader b }, "ok")
    | _, none => (st, "bad-op")
  | ["write", id, hx] =>
    match find st id, Driver.hexToBytes hx with
    | none, _ => (st, "noh")
    | some x, some b => if x.hashed then (st, "hashed") else doWrite st x b
    | _, none => (st, "bad-op")
  | ["writegen", id, seed, n] =>
    match find st id, seed.toNat?, n.toNat? with
    | none, _, _ => (st, "noh")
    | some x, some seed, some n => if x.hashed then (st, "hashed") else doWrite st x (Driver.genBytes seed n)
    | _, _, _ => (st, "bad-op")
  | ["hash", id] =>
    match find st id with
    | none => (st, "noh")
    | some x => if x.hashed then (st, "hashed") else hashOut st x
  | ["par", k, seed, n] =>
    -- k concurrent get/write/hash/put rounds on the Go side; any order of pool use gives the same digests
    match k.toNat?, seed.toNat?, n.toNat? with
    | some k, some seed, some n =>
      if st.pool.isEmpty then (st, "empty") else
      let outs := (List.range k).map fun i =>
        let len := (n + 37 * i) % (maxSize seg st.d + 1)
        let h := Hasher.get (st.pool.headD [])
        let h := h.setHeader ((Driver.genBytes (seed + 1000 + i) 8))
        let (h, _) := h.write keccak seg (Driver.genBytes (seed + i) len)
        Driver.bytesToHex (h.hash keccak seg st.d).1
      (st, String.intercalate "," outs)
    | _, _, _ => (st, "bad-op")
  | ["keccak", hx] =>
    match Driver.hexToBytes hx with
    | some b => (st, Driver.bytesToHex (keccak b))
    | none => (st, "bad-op")
  | _ => (st, "bad-op")

def handler : Driver.Handler := { σ := St, init := {}, step := step }

end Driver.C03
