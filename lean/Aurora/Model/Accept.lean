import Aurora.Model.Soc
/-!
Model of the two places where chunks sent by a remote peer are accepted (property C06):

* `retrieval.(*Service).retrieveChunk` (`/repo/pkg/retrieval/retrieval.go`): the delivery is
  stored and returned iff `cac.Valid || soc.Valid`, accounting credit and the chunkinfo report
  succeed (`acceptDelivery`).
* `traversal.(*service).GetChunkHashes` with a supplied pyramid
  (`/repo/pkg/traversal/traversal.go`, map built by `chunkinfo.onChunkPyramidResp`,
  check done by `/repo/pkg/file/pipeline/bmt/bmt.go` `ChainWrite`): every entry is BMT-checked
  against its key, the tree is walked through an in-memory getter that records the keys it
  served (`seen`), then the root and every seen entry are `Put` (`acceptPyramid`).

The walk itself (`mantaray` attempt = `loadsave.Load` = `file.JoinReadAll` over
`joiner.ReadAt`, then the "old file" fallback) is a parameter `trav` of `acceptPyramid`; the
theorems of Props/C06 hold for every walk.  `loadKeys` is the concrete walk used by the driver.
-/
namespace Aurora.Accept
open Aurora.Bmt Aurora.Cac Aurora.Soc

abbrev Key := Bytes
abbrev Entry := Key × Bytes

/-! ## retrieval -/

/-- `retrieveChunk` after the delivery `data` for `addr` was read from the stream.  Returns the
    chunk handed to `storer.Put` (and returned to the requester), if any. -/
def acceptDelivery (S : SigScheme) (H : Bytes → Bytes) (seg d : Nat) (stale : Bytes)
    (creditOk reportOk : Bool) (addr data : Bytes) : Option Entry :=
  let c : Chunk := { addr := addr, data := data }
  if !(Cac.valid H seg d stale c) && !(Soc.valid S H seg d stale c) then none   -- ErrInvalidChunk
  else if !creditOk then none       -- accounting.Credit failed
  else if !reportOk then none       -- chunkinfo.OnChunkRetrieved failed
  else some (addr, data)

/-! ## pyramid -/

/-- `pyramid[NewAddress(resp.Hash).String()] = resp.Chunk` for every response, later ones win. -/
def mkMap : List Entry → List Entry
  | [] => []
  | (k, v) :: rest => if (mkMap rest).any (fun e => e.1 == k) then mkMap rest else (k, v) :: mkMap rest

/-- map lookup -/
def get (m : List Entry) (k : Key) : Option Bytes := m.lookup k

/-- `bmtWriter.ChainWrite`: the reference computed for `span ‖ payload`, or an error.  (The upper
    bound is the `fix:` of C06 — without it the hasher silently truncates the write.) -/
def bmtWriterRef (H : Bytes → Bytes) (seg d : Nat) (stale : Bytes) (data : Bytes) : Option Bytes :=
  if data.length < 8 then none
  else if data.length > maxSize seg d + 8 then none
  else some (hashWith H seg d stale (data.take 8) (data.drop 8))

/-- the per-entry check of `GetChunkHashes` -/
def checkEntry (H : Bytes → Bytes) (seg d : Nat) (stale : Bytes) (e : Entry) : Bool :=
  match bmtWriterRef H seg d stale e.2 with
  | none => false
  | some r => r == e.1

/-- remove duplicates, keeping first occurrences -/
def dedup : List Key → List Key
  | [] => []
  | k :: rest => k :: (dedup rest).filter (· != k)

/-- `GetChunkHashes(ctx, root, pyramid)` with `pyramid ≠ nil`: the chunks `Put` into the local
    store (root first; the rest in map order — compared as a set).  `trav get root` is the list of
    keys the tree walk asked the in-memory getter for, or an error. -/
def acceptPyramid (H : Bytes → Bytes) (seg d : Nat) (stale : Bytes)
    (trav : (Key → Option Bytes) → Key → Except Unit (List Key))
    (root : Key) (m : List Entry) : Except Unit (List Entry) :=
  match get m root with
  | none => .error ()                                   -- "invalid pyramid without reference"
  | some rootData =>
    if !(m.all (checkEntry H seg d stale)) then .error ()   -- errInvalidData / ErrInvalidPyramid
    else
      match trav (get m) root with
      | .error _ => .error ()
      | .ok asked =>
        -- `seen` = asked keys that exist in the map; the root is put first and removed from `seen`
        let seen := (dedup asked).filter (fun k => (get m k).isSome && k != root)
        .ok ((root, rootData) :: seen.filterMap (fun k => (get m k).map (fun v => (k, v))))

/-! ## the concrete walk: `loadsave.Load` over the pyramid getter -/

/-- `int64(binary.LittleEndian.Uint64(b))` -/
def spanOf (b : Bytes) : Int :=
  let v : Nat := (b.take 8).foldr (fun x acc => x.toNat + 256 * acc) 0
  if v < 2 ^ 63 then (v : Int) else (v : Int) - 2 ^ 64

/-- `joiner.subtrieSection` (the brute-force loop is bounded by `fuel`; int64 overflow of
    `branchSize` is not modelled — generators keep spans below 2^56) -/
def branchSizeLoop (branching : Int) (subtrieSize refs : Int) : Nat → Int → Int
  | 0, bs => bs
  | f + 1, bs => if subtrieSize - bs * (refs - 1) ≤ bs then bs else branchSizeLoop branching subtrieSize refs f (bs * branching)

def subtrieSection (C refLen : Nat) (dataLen startIdx : Nat) (subtrieSize : Int) : Int :=
  let refs : Int := (dataLen / refLen : Nat)
  let bs := branchSizeLoop ((C / refLen : Nat) : Int) subtrieSize refs 8 (C : Int)
  if (startIdx : Int) = (refs - 1) * refLen then subtrieSize - (refs - 1) * bs else bs

inductive WalkErr | notFound | malformed | short | fuel | unmodelled
deriving Repr, DecidableEq

structure LoopSt where
  cur : Int
  off : Int
  toRead : Int
  n : Int
  keys : List Key

/-- one iteration of the `for cursor` loop of `joiner.readAtOffset` (`rec` = the recursive call
    made inside the errgroup goroutine) -/
def rdStep (getc : Key → Option Bytes) (C refLen : Nat)
    (rec : Bytes → Int → Int → Int → Int → Except WalkErr (Int × List Key))
    (data : Bytes) (subTrieSize : Int) (acc : Except WalkErr LoopSt) (cursor : Nat) : Except WalkErr LoopSt :=
  match acc with
  | .error e => .error e
  | .ok st =>
    if st.toRead = 0 then .ok st
    else
      let sec := subtrieSection C refLen data.length cursor subTrieSize
      if st.cur + sec < st.off then .ok { st with cur := st.cur + sec }
      else if cursor + refLen > data.length then .error .unmodelled     -- slice beyond len (cap-dependent)
      else
        let address := (data.drop cursor).take refLen
        let crs0 := sec - (st.off - st.cur)
        let crs1 := if crs0 > st.toRead then st.toRead else crs0
        let crs := if crs1 > sec then sec else crs1
        match getc address with
        | none => .error .notFound
        | some ch =>
          if ch.length < 8 then .error .unmodelled
          else
            let span' := spanOf ch
            if span' > sec then .error .malformed
            else
              match rec (ch.drop 8) st.cur span' st.off crs with
              | .error e => .error e
              | .ok (n', ks) =>
                .ok { cur := st.cur + sec, off := st.cur + sec, toRead := st.toRead - crs,
                      n := st.n + n', keys := st.keys ++ address :: ks }

/-- `joiner.readAtOffset`: returns the number of bytes delivered and the keys fetched. -/
def readAtOffset (getc : Key → Option Bytes) (C refLen : Nat) :
    Nat → Bytes → Int → Int → Int → Int → Except WalkErr (Int × List Key)
  | 0, _, _, _, _, _ => .error .fuel
  | f + 1, data, cur, subTrieSize, off, bytesToRead =>
    if subTrieSize ≤ (data.length : Int) then
      let start := off - cur
      if start < 0 ∨ start > data.length ∨ bytesToRead < 0 then .error .unmodelled   -- Go: slice panic in a goroutine
      else
        let lenToCopy : Int := data.length - start
        .ok (if bytesToRead > lenToCopy then lenToCopy else bytesToRead, [])
    else
      let cursors := (List.range ((data.length + refLen - 1) / refLen)).map (· * refLen)
      match cursors.foldl (rdStep getc C refLen (readAtOffset getc C refLen f) data subTrieSize)
          (.ok { cur := cur, off := off, toRead := bytesToRead, n := 0, keys := [] }) with
      | .error e => .error e
      | .ok st => .ok (st.n, st.keys)

/-- `readLen` of `ReadAt`: `min(cap(buffer) = C, span - off)` -/
def readLenOf (C : Nat) (span off : Int) : Int := if (C : Int) > span - off then span - off else (C : Int)

/-- `file.JoinReadAll` over `joiner.Read`: one `ReadAt` per `C` bytes of the span. -/
def readAllLoop (getc : Key → Option Bytes) (C refLen : Nat) (rootData : Bytes) (span : Int) :
    Nat → Int → Int → Int → List Key → Except WalkErr (List Key)
  | 0, _, _, _, _ => .error .fuel
  | f + 1, i, off, total, keys =>
    if i < span then
      if off ≥ span then .error .short            -- ReadAt: io.EOF
      else
        match readAtOffset getc C refLen 16 rootData 0 span off (readLenOf C span off) with
        | .error e => .error e
        | .ok (n, ks) => readAllLoop getc C refLen rootData span f (i + C) (off + n) (total + n) (keys ++ ks)
    else if total ≠ span then .error .short       -- "received only %d of %d total bytes"
    else .ok keys

/-- Keys requested from the getter by `GetChunkHashes`' walk when the root is *not* a mantaray
    manifest: `joiner.New` (root), the full read of the manifest attempt, `joiner.New` again and
    `IterateChunkAddresses` of the fallback (which fetches nothing new for trees of height ≤ 1;
    deeper plain trees — more than 2 GiB — are outside the driver's reach and answer `unmodelled`). -/
def loadKeys (C refLen maxReads : Nat) (getc : Key → Option Bytes) (root : Key) : Except WalkErr (List Key) :=
  match getc root with
  | none => .error .notFound
  | some ch =>
    if ch.length < 8 then .error .unmodelled
    else
      let span := spanOf ch
      let rootData := ch.drop 8
      match readAllLoop getc C refLen rootData span maxReads 0 0 0 [] with
      | .error e => .error e
      | .ok ks =>
        -- fallback: processChunkAddresses at the root
        if span ≤ (rootData.length : Int) then .ok (root :: ks)
        else
          let cursors := (List.range ((rootData.length + refLen - 1) / refLen)).map (· * refLen)
          if cursors.all (fun cursor => subtrieSection C refLen rootData.length cursor span ≤ (C : Int))
          then .ok (root :: ks) else .error .unmodelled

/-- `loadKeys` with the error forgotten (what `acceptPyramid` needs) -/
def trav (C refLen maxReads : Nat) (getc : Key → Option Bytes) (root : Key) : Except Unit (List Key) :=
  match loadKeys C refLen maxReads getc root with
  | .ok ks => .ok ks
  | .error _ => .error ()

end Aurora.Accept
