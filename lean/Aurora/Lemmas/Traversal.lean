import Aurora.Model.Traversal
/-! Helper lemmas for Props/C09: the span arithmetic of `subtrieSection` on well-formed trees, the
    reference loop of `processChunkAddresses`, and the tree-shape invariant `WF`. -/
namespace Aurora.Traversal

/-! ## `branchLoop` finds the size of a full child -/

theorem pow_ge_two_mul {B : Nat} (hB : 2 ≤ B) {j h : Nat} (hjh : j < h) : 2 * B ^ j ≤ B ^ h := by
  have h1 : B ^ (j + 1) ≤ B ^ h := Nat.pow_le_pow_right (by omega) hjh
  have h2 : B ^ (j + 1) = B ^ j * B := Nat.pow_succ _ _
  have h3 : B ^ j * 2 ≤ B ^ j * B := Nat.mul_le_mul_left _ hB
  omega

/-- on a node with `m + 1` children, the first `m ≥ 1` of size `C * B^h` and the last of size
    `0 < l ≤ C * B^h`, the loop started at `C * B^j` (`j ≤ h`) stops at `C * B^h` -/
theorem branchLoop_spec (C B : Nat) (hB : 2 ≤ B) (m l h : Nat) (hm : 1 ≤ m)
    (hl0 : 0 < l) (hl : l ≤ C * B ^ h) :
    ∀ (d j fuel : Nat), j + d = h → d < fuel →
      branchLoop B (m * (C * B ^ h) + l) (m + 1) fuel (C * B ^ j) = C * B ^ h := by
  intro d
  induction d with
  | zero =>
    intro j fuel hj hf
    have : j = h := by omega
    subst this
    cases fuel with
    | zero => omega
    | succ f =>
      simp only [branchLoop, Nat.add_sub_cancel]
      have : m * (C * B ^ j) + l - C * B ^ j * m ≤ C * B ^ j := by
        rw [Nat.mul_comm m]; omega
      simp [this]
  | succ d ih =>
    intro j fuel hj hf
    cases fuel with
    | zero => omega
    | succ f =>
      simp only [branchLoop, Nat.add_sub_cancel]
      have hlt : j < h := by omega
      have hp := pow_ge_two_mul hB hlt
      have hX : 2 * (C * B ^ j) ≤ C * B ^ h := by
        have := Nat.mul_le_mul_left C hp
        rw [show C * (2 * B ^ j) = 2 * (C * B ^ j) by
          rw [← Nat.mul_assoc, Nat.mul_comm C 2, Nat.mul_assoc]] at this
        exact this
      -- m * Y ≥ m * 2X ≥ X*m + X
      have h1 : m * (2 * (C * B ^ j)) ≤ m * (C * B ^ h) := Nat.mul_le_mul_left m hX
      have h2 : m * (2 * (C * B ^ j)) = C * B ^ j * m + m * (C * B ^ j) := by
        rw [Nat.mul_comm (C * B ^ j) m, ← Nat.two_mul, Nat.mul_left_comm]
      have h3 : 1 * (C * B ^ j) ≤ m * (C * B ^ j) := Nat.mul_le_mul_right _ hm
      have hnot : ¬ (m * (C * B ^ h) + l - C * B ^ j * m ≤ C * B ^ j) := by omega
      simp only [hnot, if_false]
      have := ih (j + 1) f (by omega) (by omega)
      have e : C * B ^ (j + 1) = C * B ^ j * B := by rw [Nat.pow_succ, Nat.mul_assoc]
      rw [e] at this
      exact this


/-- `subtrieSection` returns the true size of every child: on a node whose first `m ≥ 1` children have
    size `C * B^h` and whose last child has size `0 < l ≤ C * B^h` -/
theorem subtrieSection_spec (C R B m l h i : Nat) (hR : 0 < R) (hBdef : C / R = B) (hB : 2 ≤ B)
    (hm : 1 ≤ m) (hl0 : 0 < l) (hl : l ≤ C * B ^ h) (hh : h < 64) (hi : i ≤ m) :
    subtrieSection C ((m + 1) * R) (i * R) R (m * (C * B ^ h) + l) = if i = m then l else C * B ^ h := by
  unfold subtrieSection
  simp only [Nat.mul_div_cancel _ hR, hBdef, Nat.add_sub_cancel]
  have hb := branchLoop_spec C B hB m l h hm hl0 hl h 0 64 (by omega) hh
  simp only [Nat.pow_zero, Nat.mul_one] at hb
  rw [hb]
  by_cases him : i = m
  · subst him; simp
  · have : ¬ i * R = m * R := fun e => him (Nat.eq_of_mul_eq_mul_right hR e)
    simp [this, him]

/-! ## Tree shape -/

def Tree.payload : Tree → Bytes
  | .leaf _ _ => []
  | .node _ _ kids => kidsPayload kids

mutual
/-- insertions into `edgeChunks` below a tree -/
def Tree.edgesUnder (hs : Nat) (se : Bool) : Tree → List (Bytes × Chunk)
  | .leaf _ _ => []
  | .node _ _ kids => Tree.edgesKids hs se kids
def Tree.edgesKids (hs : Nat) (se : Bool) : List Tree → List (Bytes × Chunk)
  | [] => []
  | .leaf _ _ :: rest => Tree.edgesKids hs se rest
  | .node r sp kids :: rest =>
    (if se then [(r.take hs, (⟨sp, kidsPayload kids⟩ : Chunk))] else []) ++
      (Tree.edgesKids hs se kids ++ Tree.edgesKids hs se rest)
end

/-- Well-formed chunk tree of height `h` (chunk size `C`, branching `B`, reference size `R`):
    what the upload pipeline writes.  Every child of a node but the last is a full tree of height
    `h` (size exactly `C * B^h`); the last one is non-empty, not larger, and may be lower (a lone
    reference carried up). -/
inductive WF (C B R : Nat) : Nat → Tree → Prop
  | leaf (ref : Bytes) (size : Nat) : ref.length = R → size ≤ C → WF C B R 0 (.leaf ref size)
  | node (ref : Bytes) (span : Nat) (init : List Tree) (last : Tree) (h h' : Nat) :
      ref.length = R → init ≠ [] → init.length + 1 ≤ B →
      (∀ k ∈ init, WF C B R h k) → (∀ k ∈ init, k.size = C * B ^ h) →
      h' ≤ h → WF C B R h' last → 0 < last.size → last.size ≤ C * B ^ h →
      span = init.length * (C * B ^ h) + last.size →
      WF C B R (h + 1) (.node ref span (init ++ [last]))

/-- the chunks of the tree below the root are in the store (decrypted view) under their addresses -/
inductive Stored (hs : Nat) (store : Store) : Tree → Prop
  | leaf (ref : Bytes) (size : Nat) : Stored hs store (.leaf ref size)
  | node (ref : Bytes) (span : Nat) (kids : List Tree) :
      (∀ k ∈ kids, Stored hs store k) →
      (∀ k ∈ kids, k.isLeaf = false → store.get (k.ref.take hs) = some ⟨k.size, k.payload⟩) →
      Stored hs store (.node ref span kids)

theorem WF.ref_length {C B R h t} (w : WF C B R h t) : t.ref.length = R := by
  cases w <;> assumption

theorem WF.leaf_iff {C B R h t} (hB : 1 ≤ B) (w : WF C B R h t) : (t.size ≤ C ↔ t.isLeaf = true) := by
  cases w with
  | leaf ref size _ hs => simp [Tree.size, Tree.isLeaf, hs]
  | node ref span init last h h' _ hne _ hinit hsz _ _ hl0 _ hspan =>
    simp only [Tree.size, Tree.isLeaf]
    have hlen : 1 ≤ init.length := by
      cases init with
      | nil => exact absurd rfl hne
      | cons a b => simp
    have hp : 1 ≤ B ^ h := Nat.pow_pos (by omega)
    have h1 : C * 1 ≤ C * B ^ h := Nat.mul_le_mul_left C hp
    have h2 : 1 * (C * B ^ h) ≤ init.length * (C * B ^ h) := Nat.mul_le_mul_right _ hlen
    constructor
    · intro hle; omega
    · intro hf; exact absurd hf (by simp)


/-! ## The reference loop -/

theorem pieces_flatten (R : Nat) (l : List Bytes) (hl : ∀ x ∈ l, x.length = R) :
    pieces R l.length l.flatten = l := by
  induction l with
  | nil => rfl
  | cons x rest ih =>
    have hx : x.length = R := hl x (by simp)
    simp only [List.length_cons, pieces, List.flatten_cons]
    rw [List.take_left' hx, List.drop_left' hx, ih (fun y hy => hl y (by simp [hy]))]

theorem flatten_length (R : Nat) (l : List Bytes) (hl : ∀ x ∈ l, x.length = R) :
    l.flatten.length = l.length * R := by
  induction l with
  | nil => simp
  | cons x rest ih =>
    simp only [List.flatten_cons, List.length_append, List.length_cons]
    rw [ih (fun y hy => hl y (by simp [hy])), hl x (by simp), Nat.add_mul]; omega

theorem refsOf_flatten (R : Nat) (hR : 0 < R) (l : List Bytes) (hl : ∀ x ∈ l, x.length = R) :
    refsOf R l.flatten = l := by
  unfold refsOf
  rw [flatten_length R l hl]
  have : (l.length * R + R - 1) / R = l.length := by
    have e : l.length * R + R - 1 = (R - 1) + l.length * R := by omega
    rw [e, Nat.add_mul_div_right _ _ hR, Nat.div_eq_of_lt (by omega)]; omega
  rw [this, pieces_flatten R l hl]

variable {C hs R : Nat} {se : Bool} {store : Store}

/-- the loop over the references of the children `suf` (preceded by `off` earlier children) reports
    each child followed by everything below it -/
theorem loop_kids (rec : Bytes → Nat → Except Err Res) (n span : Nat) :
    ∀ (suf : List Tree) (off : Nat),
    (∀ i (hi : i < suf.length), subtrieSection C (n * R) ((off + i) * R) R span = (suf[i]).size) →
    (∀ k ∈ suf, k.ref.length = R ∧ (k.size ≤ C ↔ k.isLeaf = true)) →
    (∀ k ∈ suf, k.isLeaf = false →
      store.get (k.ref.take hs) = some ⟨k.size, k.payload⟩ ∧ k.size > k.payload.length ∧
      rec k.payload k.size = .ok ⟨k.under hs, k.leavesBelow hs, k.edgesUnder hs se⟩) →
    loopRefs C hs R se store rec (n * R) span (suf.map Tree.ref) (off * R) =
      .ok ⟨Tree.underKids hs suf, Tree.leavesKids hs suf, Tree.edgesKids hs se suf⟩ := by
  intro suf
  induction suf with
  | nil => intro off _ _ _; simp [loopRefs, Tree.underKids, Tree.leavesKids, Tree.edgesKids]
  | cons k rest ih =>
    intro off hsec hcls hnode
    have hk := hcls k (by simp)
    have hs0 := hsec 0 (by simp)
    simp only [Nat.add_zero, List.getElem_cons_zero] at hs0
    have ih' := ih (off + 1)
      (fun i hi => by
        have := hsec (i + 1) (by simp; omega)
        simp only [List.getElem_cons_succ] at this
        rw [show off + 1 + i = off + (i + 1) by omega]; exact this)
      (fun x hx => hcls x (by simp [hx]))
      (fun x hx => hnode x (by simp [hx]))
    rw [show (off + 1) * R = off * R + R by rw [Nat.add_mul]; omega] at ih'
    simp only [List.map_cons, loopRefs, hk.1, ne_eq, not_true_eq_false, if_false, hs0]
    cases k with
    | leaf r sz =>
      have hle : sz ≤ C := by have := hk.2; simp [Tree.size, Tree.isLeaf] at this; exact this
      simp only [Tree.size, hle, if_true, Tree.ref] at ih' ⊢
      rw [ih']
      simp [Tree.underKids, Tree.leavesKids, Tree.edgesKids, Tree.under, Tree.ref]
    | node r sp kids =>
      have hnle : ¬ sp ≤ C := by
        have := hk.2; simp [Tree.size, Tree.isLeaf] at this; omega
      have hn := hnode (.node r sp kids) (by simp) rfl
      simp only [Tree.size, Tree.ref, Tree.payload] at hn
      simp only [Tree.size, hnle, if_false, Tree.ref, hn.1, hn.2.2] at ih' ⊢
      rw [ih']
      have hgt : decide (sp > (kidsPayload kids).length) = true := by simpa using hn.2.1
      simp [Tree.underKids, Tree.leavesKids, Tree.edgesKids, Tree.under, Tree.leavesBelow,
        Tree.edgesUnder, Tree.ref, hgt]


theorem getElem_append_single {α} (init : List α) (last : α) (i : Nat) (hi : i < (init ++ [last]).length) :
    (init ++ [last])[i] = if h : i < init.length then init[i] else last := by
  by_cases h : i < init.length
  · simp [h, List.getElem_append_left h]
  · have : i = init.length := by simp at hi; omega
    subst this; simp

/-- `processChunkAddresses` on the payload of an intermediate chunk of a well-formed, stored tree -/
theorem process_wf {B : Nat} (hR : 0 < R) (hBdef : C / R = B) (hB : 2 ≤ B) (jaddr : Bytes)
    {h : Nat} {t : Tree} (w : WF C B R h t) :
    Stored hs store t → ∀ fuel, h ≤ fuel → h ≤ 64 → t.isLeaf = false →
    process C hs R se store jaddr fuel t.payload t.size =
      .ok ⟨t.under hs, t.leavesBelow hs, t.edgesUnder hs se⟩ := by
  induction w with
  | leaf ref size _ _ => intro _ _ _ _ hl; simp [Tree.isLeaf] at hl
  | node ref span init last h h' href hne hlenB hinit hsz hh' hlast hl0 hl hspan ihinit ihlast =>
    intro hst fuel hfuel h64 _
    cases fuel with
    | zero => omega
    | succ f =>
    have hm : 1 ≤ init.length := by
      cases init with
      | nil => exact absurd rfl hne
      | cons a b => simp
    have hrefs : ∀ x ∈ (init ++ [last]).map Tree.ref, x.length = R := by
      intro x hx
      simp only [List.map_append, List.map_cons, List.map_nil, List.mem_append, List.mem_map,
        List.mem_singleton] at hx
      rcases hx with ⟨k, hk, rfl⟩ | rfl
      · exact (hinit k hk).ref_length
      · exact hlast.ref_length
    have hlenP : (kidsPayload (init ++ [last])).length = (init.length + 1) * R := by
      unfold kidsPayload
      rw [flatten_length R _ hrefs]; simp
    have hBR : B * R ≤ C := by rw [← hBdef]; exact Nat.div_mul_le_self C R
    have hp : 1 ≤ B ^ h := Nat.pow_pos (by omega)
    have hCle : C * 1 ≤ C * B ^ h := Nat.mul_le_mul_left C hp
    have h2 : 1 * (C * B ^ h) ≤ init.length * (C * B ^ h) := Nat.mul_le_mul_right _ hm
    have hdl : (init.length + 1) * R ≤ C := Nat.le_trans (Nat.mul_le_mul_right R hlenB) hBR
    have hnot : ¬ span ≤ (kidsPayload (init ++ [last])).length := by rw [hlenP]; omega
    simp only [Tree.payload, Tree.size, process, hnot, if_false]
    unfold kidsPayload at hlenP ⊢
    rw [refsOf_flatten R hR _ hrefs, hlenP]
    cases hst with
    | node _ _ _ hkst hkget =>
    have := loop_kids (C := C) (hs := hs) (R := R) (se := se) (store := store)
      (process C hs R se store jaddr f) (init.length + 1) span (init ++ [last]) 0
      (by
        intro i hi
        rw [hspan, Nat.zero_add]
        have hi' : i ≤ init.length := by simp at hi; omega
        rw [subtrieSection_spec C R B init.length last.size h i hR hBdef hB hm hl0 hl (by omega) hi',
          getElem_append_single]
        by_cases hlt : i < init.length
        · have : ¬ i = init.length := by omega
          simp only [this, if_false, hlt, dite_true]
          exact (hsz _ (List.getElem_mem hlt)).symm
        · have : i = init.length := by omega
          simp [this])
      (by
        intro k hk
        simp only [List.mem_append, List.mem_singleton] at hk
        rcases hk with hk | rfl
        · exact ⟨(hinit k hk).ref_length, (hinit k hk).leaf_iff (by omega)⟩
        · exact ⟨hlast.ref_length, hlast.leaf_iff (by omega)⟩)
      (by
        intro k hk hkl
        have hg := hkget k hk hkl
        have hks := hkst k hk
        have hwk : ∃ hk', hk' ≤ f ∧ hk' ≤ 64 ∧ WF C B R hk' k ∧
            (Stored hs store k → ∀ fuel, hk' ≤ fuel → hk' ≤ 64 → k.isLeaf = false →
              process C hs R se store jaddr fuel k.payload k.size =
                .ok ⟨k.under hs, k.leavesBelow hs, k.edgesUnder hs se⟩) := by
          simp only [List.mem_append, List.mem_singleton] at hk
          rcases hk with hk | rfl
          · exact ⟨h, by omega, by omega, hinit k hk, ihinit k hk⟩
          · exact ⟨h', by omega, by omega, hlast, ihlast⟩
        obtain ⟨hk', hk'f, hk'64, wk, ihk⟩ := hwk
        refine ⟨hg, ?_, ihk hks f hk'f hk'64 hkl⟩
        -- an intermediate chunk's span exceeds its payload length
        cases wk with
        | leaf _ _ _ _ => simp [Tree.isLeaf] at hkl
        | node ref2 span2 init2 last2 h2' h2'' href2 hne2 hlenB2 hinit2 hsz2 _ hlast2 hl02 _ hspan2 =>
          have hm2 : 1 ≤ init2.length := by
            cases init2 with
            | nil => exact absurd rfl hne2
            | cons a b => simp
          have hrefs2 : ∀ x ∈ (init2 ++ [last2]).map Tree.ref, x.length = R := by
            intro x hx
            simp only [List.map_append, List.map_cons, List.map_nil, List.mem_append, List.mem_map,
              List.mem_singleton] at hx
            rcases hx with ⟨k, hk, rfl⟩ | rfl
            · exact (hinit2 k hk).ref_length
            · exact hlast2.ref_length
          have hlen2 : ((init2 ++ [last2]).map Tree.ref).length = init2.length + 1 := by simp
          simp only [Tree.size, Tree.payload, kidsPayload]
          rw [flatten_length R _ hrefs2, hlen2]
          have hp2 : 1 ≤ B ^ h2' := Nat.pow_pos (by omega)
          have a1 : C * 1 ≤ C * B ^ h2' := Nat.mul_le_mul_left C hp2
          have a2 : 1 * (C * B ^ h2') ≤ init2.length * (C * B ^ h2') := Nat.mul_le_mul_right _ hm2
          have a3 : (init2.length + 1) * R ≤ C := Nat.le_trans (Nat.mul_le_mul_right R hlenB2) hBR
          omega)
    rw [Nat.zero_mul] at this
    rw [this]
    simp [Tree.under, Tree.leavesBelow, Tree.edgesUnder]


/-- the root chunk is in the store (what `joiner.New` fetches) -/
def RootStored (hs : Nat) (store : Store) : Tree → Prop
  | .leaf r sz => ∃ d, store.get (r.take hs) = some ⟨sz, d⟩ ∧ sz ≤ d.length
  | .node r sp kids => store.get (r.take hs) = some ⟨sp, kidsPayload kids⟩

/-- `joiner.New` + `IterateChunkAddresses` on a well-formed stored tree -/
theorem iterate_wf {B H : Nat} {t : Tree} (hR : R = hs ∨ R = 2 * hs) (hR0 : 0 < R) (hBdef : C / R = B)
    (hB : 2 ≤ B) (w : WF C B R H t) (hH : H ≤ 64) (hst : Stored hs store t)
    (hroot : RootStored hs store t) :
    iterate C hs se store t.ref = .ok ⟨t.chunks hs, t.dataChunks hs, t.edgesUnder hs se⟩ := by
  have hlen := w.ref_length
  have hc : ¬ (t.ref.length ≠ hs ∧ t.ref.length ≠ 2 * hs) := by rw [hlen]; omega
  unfold iterate
  simp only [hc, if_false]
  cases t with
  | leaf r sz =>
    obtain ⟨d, hg, hd⟩ := hroot
    simp only [Tree.ref] at hg ⊢
    rw [hg]
    have hp : process C hs r.length se store (r.take hs) 64 d sz = .ok ⟨[], [r.take hs], []⟩ := by
      show process C hs r.length se store (r.take hs) (63 + 1) d sz = _
      simp [process, hd]
    simp [hp, Tree.chunks, Tree.addr, Tree.ref, Tree.under, Tree.dataChunks, Tree.edgesUnder]
  | node r sp kids =>
    simp only [RootStored] at hroot
    simp only [Tree.ref] at hlen ⊢
    rw [hroot, hlen]
    have := process_wf (C := C) (hs := hs) (R := R) (se := se) (store := store) hR0 hBdef hB (r.take hs) w hst 64 hH hH rfl
    simp only [Tree.payload, Tree.size] at this
    simp [this, Tree.chunks, Tree.addr, Tree.ref, Tree.dataChunks]

mutual
theorem edges_fst_true (hs : Nat) : ∀ t : Tree, (t.edgesUnder hs true).map (·.1) = t.innerBelow hs
  | .leaf _ _ => by simp [Tree.edgesUnder, Tree.innerBelow]
  | .node _ _ kids => by simp [Tree.edgesUnder, Tree.innerBelow, edgesKids_fst_true hs kids]
theorem edgesKids_fst_true (hs : Nat) : ∀ ks : List Tree, (Tree.edgesKids hs true ks).map (·.1) = Tree.innerKids hs ks
  | [] => by simp [Tree.edgesKids, Tree.innerKids]
  | .leaf _ _ :: rest => by simp [Tree.edgesKids, Tree.innerKids, edgesKids_fst_true hs rest]
  | .node _ _ kids :: rest => by
    simp [Tree.edgesKids, Tree.innerKids, edgesKids_fst_true hs rest, edgesKids_fst_true hs kids]
end

mutual
theorem edges_false (hs : Nat) : ∀ t : Tree, t.edgesUnder hs false = []
  | .leaf _ _ => by simp [Tree.edgesUnder]
  | .node _ _ kids => by simp [Tree.edgesUnder, edgesKids_false hs kids]
theorem edgesKids_false (hs : Nat) : ∀ ks : List Tree, Tree.edgesKids hs false ks = []
  | [] => by simp [Tree.edgesKids]
  | .leaf _ _ :: rest => by simp [Tree.edgesKids, edgesKids_false hs rest]
  | .node _ _ kids :: rest => by
    simp [Tree.edgesKids, edgesKids_false hs rest, edgesKids_false hs kids]
end

mutual
/-- below the root, intermediate chunks and data chunks together are exactly the chunks -/
theorem perm_under (hs : Nat) : ∀ t : Tree, List.Perm (t.innerBelow hs ++ t.leavesBelow hs) (t.under hs)
  | .leaf _ _ => by simp [Tree.innerBelow, Tree.leavesBelow, Tree.under]
  | .node _ _ kids => by simpa [Tree.innerBelow, Tree.leavesBelow, Tree.under] using perm_underKids hs kids
theorem perm_underKids (hs : Nat) : ∀ ks : List Tree,
    List.Perm (Tree.innerKids hs ks ++ Tree.leavesKids hs ks) (Tree.underKids hs ks)
  | [] => by simp [Tree.innerKids, Tree.leavesKids, Tree.underKids]
  | .leaf r _ :: rest => by
    have ih := perm_underKids hs rest
    simp only [Tree.innerKids, Tree.leavesKids, Tree.underKids, Tree.under, Tree.ref, List.cons_append,
      List.nil_append]
    exact (List.perm_middle).trans (List.Perm.cons _ ih)
  | .node r _ kids :: rest => by
    have ih1 := perm_underKids hs kids
    have ih2 := perm_underKids hs rest
    simp only [Tree.innerKids, Tree.leavesKids, Tree.underKids, Tree.under, Tree.ref, List.cons_append,
      List.append_assoc]
    refine List.Perm.cons _ ?_
    -- (iK ++ iR) ++ (lK ++ lR)  ~  (iK ++ lK) ++ (iR ++ lR)
    have e : List.Perm (Tree.innerKids hs kids ++ (Tree.innerKids hs rest ++ (Tree.leavesKids hs kids ++ Tree.leavesKids hs rest)))
        ((Tree.innerKids hs kids ++ Tree.leavesKids hs kids) ++ (Tree.innerKids hs rest ++ Tree.leavesKids hs rest)) := by
      rw [List.append_assoc]
      refine List.Perm.append_left _ ?_
      rw [← List.append_assoc, ← List.append_assoc]
      exact List.Perm.append_right _ List.perm_append_comm
    exact e.trans (ih1.append ih2)
end

theorem mapRefs_ok {α} (f : Bytes → Except Err (List α)) (g : Bytes → List α) :
    ∀ l : List Bytes, (∀ r ∈ l, f r = .ok (g r)) → mapRefs f l = .ok (l.flatMap g)
  | [], _ => by simp [mapRefs]
  | r :: rest, h => by
    have h1 := h r (by simp)
    have h2 := mapRefs_ok f g rest (fun x hx => h x (by simp [hx]))
    simp [mapRefs, h1, h2]

end Aurora.Traversal
