// Package c08: correspondence + oracle for pkg/encryption, EncryptChunk and the decrypting store (C08).
package c08

import (
	"bytes"
	"context"
	"encoding/binary"
	"fmt"
	"io"
	"strconv"
	"strings"
	"sync"

	"github.com/gauss-project/aurorafs/pkg/boson"
	"github.com/gauss-project/aurorafs/pkg/encryption"
	encstore "github.com/gauss-project/aurorafs/pkg/encryption/store"
	"github.com/gauss-project/aurorafs/pkg/file/pipeline"
	"github.com/gauss-project/aurorafs/pkg/file/pipeline/bmt"
	"github.com/gauss-project/aurorafs/pkg/file/pipeline/builder"
	penc "github.com/gauss-project/aurorafs/pkg/file/pipeline/encryption"
	"github.com/gauss-project/aurorafs/pkg/file/pipeline/hashtrie"
	pstore "github.com/gauss-project/aurorafs/pkg/file/pipeline/store"
	"github.com/gauss-project/aurorafs/pkg/storage"
	"golang.org/x/crypto/sha3"

	"verifharness/core"
	"verifharness/refimpl"
)

type prop struct{}

func init() { core.Register(prop{}) }

func (prop) ID() string { return "C08" }
func (prop) Rule() string {
	return "cases: (a) an Encryption instance (key lengths 32, sometimes 1/16/31/33/40; padding 0 / 4096 / C / small; counters 0, C/64, 2^32-1, random) encrypts payloads of length 0,1,31,32,33,63..65, padding-1, padding, padding+1, random, " +
		"several times without Reset (running segment index), then Reset + Decrypt of the last ciphertext (round trip) and decrypts of arbitrary bytes; (b) EncryptChunk on span||data with |data| in 0,1,32,4096,C-1,C,C+1 followed by the decrypting store's Get on the result; " +
		"(c) synthetic encrypted chunks (real encryption package, |payload| = C) whose span is 0,1,C-1,C,C+1, k*C+-1, C*4096^h+-1, random < 2^62, and values near 2^63 and 2^64 (wrap-around of the uint64 loop), wrong reference lengths, short stored chunks; " +
		"(d) files written by the real encrypted pipeline (sizes around the chunk and level boundaries; thorough: around 4096 chunks = 1 GiB) whose every chunk is fetched through the decrypting store and compared with the expected tree shape and content, plus single-path gets; " +
		"(e) `trie seed n last`: the hash-trie writer of the encrypted pipeline (hashtrie.NewHashTrieWriter(ChunkSize, Branches/2, 64, encryption->bmt->store)) is fed the (span, address, key) triples of n full data chunks (+ one of `last` bytes) without any data, so subtrees of 2^32 bytes and more are reached: 16384 chunks = exactly 4 GiB (fix-trie-4gib), 16385 (fix-trie-4gib-plus-chunk), thorough: 16383 chunks + C-1 bytes and 8 random n up to 40961; root and intermediate chunks are read back through the decrypting store (span = sum of the leaf spans: trie-span-not-sum-of-leaves; payload = 64 bytes per child: strip-intermediate), `get <path>` on them goes through the model as for pipeline files (a path reaching a leaf answers err: leaves are not stored). " +
		"Random keys and padding drawn by the code are passed to the model as annotations. Non-trivial: the case contains a round trip, a store Get or a pipeline file; distinct by op-list hash."
}

const C = boson.ChunkSize
const B = C / 64

func keccakN(b []byte) string { return core.Hex(refimpl.Keccak(b)[:8]) }
func outBytes(b []byte) string {
	if len(b) <= 48 {
		return fmt.Sprintf("ok %d %s", len(b), core.Hex(b))
	}
	return fmt.Sprintf("ok %d %s", len(b), keccakN(b))
}

// ---------------------------------------------------------------- generator

func srcOf(r *core.Rand, l int) string {
	if l > 70000 {
		return fmt.Sprintf("p:%d:%d:%d", r.Intn(1000), l, r.Range(100, 3000))
	}
	if l <= 40 {
		return "h:" + core.Hex(r.Bytes(l))
	}
	return fmt.Sprintf("g:%d:%d", r.Intn(1000), l)
}

func pick64(r *core.Rand, xs []uint64) uint64 { return xs[r.Intn(len(xs))] }

func pow(b, e uint64) uint64 {
	x := uint64(1)
	for i := uint64(0); i < e; i++ {
		x *= b
	}
	return x
}

func (prop) Gen(r *core.Rand, tier string) []core.Case {
	nEnc, nBigPad, nChunk, nSyn, nPipe := 40, 2, 5, 16, 6
	if tier == "thorough" {
		nEnc, nBigPad, nChunk, nSyn, nPipe = 400, 30, 60, 400, 30
	}
	var cs []core.Case
	k1 := core.Hex(bytes.Repeat([]byte{0x42}, 32))
	cs = append(cs, core.Case{ID: "fix-basic", NT: true, Ops: []string{"e h:00", "dl", "cget", "get -",
		"mk " + k1 + " 0 0", "e h:-", "e h:68656c6c6f", "reset", "dl", "e g:1:100", "e g:1:100", "reset", "e g:1:100", "reset", "dl",
		"mk " + k1 + " 64 4096", "e g:2:64", "reset", "dl", "e g:2:65", "e g:2:10", "reset", "dl", "d g:3:63", "d g:3:64",
		"mk " + k1 + " 0 4294967295", "e g:4:70", "reset", "dl",
		"chunk h:0500000000000000" + "68656c6c6f", "cget", "chunk h:01", "cget",
		fmt.Sprintf("sget %s %d p:1:%d:777", k1, C+1, C), fmt.Sprintf("sget %s 5 p:1:%d:777", k1, C), "sget 00 5 h:-", fmt.Sprintf("sget %s 5 g:1:100", k1),
		"sgetshort " + k1 + " 7", "sgetshort " + k1 + " 100",
		"pipe 1 5 0", "get -", "get 0", fmt.Sprintf("pipe 2 %d 1000", C+1), "get -", "get 0", "get 1", "get 2", "get 0.0"}})
	bigPad := 0
	for i := 0; i < nEnc; i++ {
		c := core.Case{ID: fmt.Sprintf("e%d", i), NT: true}
		kl := 32
		if r.Chance(20) {
			kl = r.Pick([]int{1, 16, 31, 33, 40})
		}
		pad := r.Pick([]int{0, 0, 64, 100, 4096})
		if bigPad < nBigPad && r.Chance(15) {
			pad = C
			bigPad++
		}
		ctr := r.Pick([]int{0, C / 64, 4294967295, 4294967290, r.Intn(1 << 31)})
		c.Ops = append(c.Ops, fmt.Sprintf("mk %s %d %d", core.Hex(r.Bytes(kl)), pad, ctr))
		k := r.Range(1, 4)
		for j := 0; j < k; j++ {
			var l int
			switch r.Intn(6) {
			case 0:
				l = r.Pick([]int{0, 1, 31, 32, 33, 63, 64, 65})
			case 1:
				if pad > 0 {
					l = r.Pick([]int{pad - 1, pad, pad + 1})
				} else {
					l = r.Range(0, 300)
				}
			default:
				if pad > 0 {
					l = r.Range(0, pad)
					if pad == C {
						l = r.Pick([]int{0, 1, 4096, r.Range(0, 5000)})
					}
				} else {
					l = r.Range(0, 300)
				}
			}
			c.Ops = append(c.Ops, "e "+srcOf(r, l))
			switch r.Intn(4) {
			case 0: // no reset: the running index makes the next call use later segment keys
			case 1:
				c.Ops = append(c.Ops, "dl") // decrypt with the advanced index: not a round trip
			default:
				c.Ops = append(c.Ops, "reset", "dl", "reset")
			}
		}
		if r.Chance(40) {
			l := r.Range(0, 200)
			if pad > 0 && pad < C && r.Chance(60) {
				l = pad
			}
			c.Ops = append(c.Ops, "reset", "d "+srcOf(r, l))
		}
		cs = append(cs, c)
	}
	for i := 0; i < nChunk; i++ {
		c := core.Case{ID: fmt.Sprintf("c%d", i), NT: true}
		l := r.Pick([]int{0, 1, 32, 4096, r.Range(1, 3000), r.Range(1, 3000)})
		if i%3 == 0 {
			l = r.Pick([]int{C, C - 1, C + 1, C, C / 2})
		}
		span := uint64(l)
		if r.Chance(25) {
			span = r.U64() >> uint(r.Intn(64)) // EncryptChunk does not interpret the span
		}
		sp := make([]byte, 8)
		binary.LittleEndian.PutUint64(sp, span)
		src := srcOf(r, l)
		if strings.HasPrefix(src, "h:") {
			c.Ops = append(c.Ops, "chunk h:"+core.Hex(sp)+strings.TrimPrefix(strings.TrimPrefix(src, "h:"), "-"), "cget")
		} else {
			// span is the honest length: use a named source of l+8 bytes whose first 8 bytes are patched by the runner ("chunkl")
			c.Ops = append(c.Ops, fmt.Sprintf("chunkl %d %s", span, src), "cget")
		}
		cs = append(cs, c)
	}
	c := core.Case{ID: "syn", NT: true}
	for i := 0; i < nSyn; i++ {
		var span uint64
		switch r.Intn(10) {
		case 0:
			span = uint64(r.Pick([]int{0, 1, 63, 64, 65, C - 1, C, C + 1, 2 * C, 2*C + 1, 4096 * 64, 4095*C + 1, 4096*C - 1, 4096 * C, 4096*C + 1}))
		case 1:
			k := uint64(r.Range(2, 4096))
			h := uint64(r.Range(0, 3))
			span = k*C*pow(B, h) - uint64(r.Pick([]int{0, 1, C - 1}))
			if r.Bool() {
				span = (k-1)*C*pow(B, h) + 1 + uint64(r.Intn(C))
			}
		case 2:
			h := uint64(r.Range(1, 3))
			span = C*pow(B, h) + uint64(r.Pick([]int{-1, 0, 1, C, C + 1}))
		case 3:
			span = uint64(1)<<62 - uint64(r.Intn(3))
		case 4:
			span = pick64(r, []uint64{1<<63 - 1, 1 << 63, 1<<63 + 1, 1<<64 - 1, 1<<64 - C, 1<<64 - C + 1, 1<<64 - C - 1, 1<<64 - 2*C})
		case 5:
			span = r.U64()
		default:
			span = r.U64() >> uint(2+r.Intn(62))
		}
		c.Ops = append(c.Ops, fmt.Sprintf("sget %s %d p:%d:%d:%d", core.Hex(r.Bytes(32)), span, r.Intn(50), C, r.Range(100, 3000)))
		if len(c.Ops) >= 8 {
			c.ID = fmt.Sprintf("syn%d", i)
			cs = append(cs, c)
			c = core.Case{NT: true}
		}
	}
	if len(c.Ops) > 0 {
		c.ID = "synlast"
		c.Ops = append(c.Ops, "sget "+core.Hex(r.Bytes(31))+" 5 h:-", "sget "+core.Hex(r.Bytes(33))+" 5 h:-", fmt.Sprintf("sget %s 5 g:1:%d", k1, r.Range(0, 3000)),
			"sgetshort "+k1+" "+strconv.Itoa(r.Pick([]int{0, 7})), "sgetshort "+k1+" "+strconv.Itoa(r.Range(8, 3000)))
		cs = append(cs, c)
	}
	sizes := []int{0, 1, 4096, C - 1, C, C + 1, 2 * C, 2*C + 1, 3*C - 1, 5*C + 7}
	for i := 0; i < nPipe; i++ {
		c := core.Case{ID: fmt.Sprintf("f%d", i), NT: true}
		n := sizes[r.Intn(len(sizes))]
		if r.Chance(30) {
			n = r.Range(1, 40*C)
		}
		if tier == "thorough" && i < 2 {
			n = []int{4096 * C, 4096*C + 1}[i] // second-level boundary of the encrypted tree (1 GiB; ~3 min each)
		}
		c.Ops = append(c.Ops, fmt.Sprintf("pipe %d %d %d", r.Intn(1000), n, r.Range(100, 5000)), "get -")
		k := (n + C - 1) / C
		if k > 1 {
			if k <= B {
				c.Ops = append(c.Ops, "get 0", fmt.Sprintf("get %d", k-1), fmt.Sprintf("get %d", k), fmt.Sprintf("get %d", r.Intn(k)), "get 0.0")
			} else {
				k2 := (k + B - 1) / B
				c.Ops = append(c.Ops, "get 0", fmt.Sprintf("get %d", k2-1), fmt.Sprintf("get %d", k2), "get 0.0", "get 0.4095", "get 0.4096",
					fmt.Sprintf("get %d.0", k2-1), fmt.Sprintf("get %d.%d", k2-1, r.Intn(B)), "get 0.0.0")
			}
		} else {
			c.Ops = append(c.Ops, "get 0")
		}
		cs = append(cs, c)
	}
	// seeded change C08-3 (the hash-trie writer wrote the summed span of an intermediate chunk with 32 bits): subtrees of
	// 4 GiB and more, reached by `trie seed n last` = the (span, address, key) triples of n full data chunks (+ one of
	// `last` bytes) written to the real hash-trie writer of the encrypted pipeline; `get` then reads root and children
	// through the decrypting store.  16384 chunks = exactly 2^32.
	trie := func(id string, n, last int, full bool) {
		c := core.Case{ID: id, NT: true, Ops: []string{fmt.Sprintf("trie %d %d %d", r.Intn(1000), n, last), "get -"}}
		k := n
		if last > 0 {
			k++
		}
		switch {
		case !full: // quick tier: every decrypting Get costs ~16000 Keccak calls
			if k > B {
				c.Ops = append(c.Ops, "get 0")
			}
		case k > B:
			k2 := (k + B - 1) / B
			c.Ops = append(c.Ops, "get 0", fmt.Sprintf("get %d", k2-1), fmt.Sprintf("get %d", k2), "get 0.0", fmt.Sprintf("get %d.0", k2-1))
		default:
			c.Ops = append(c.Ops, "get 0", fmt.Sprintf("get %d", k))
		}
		cs = append(cs, c)
	}
	th := tier == "thorough"
	trie("fix-trie-4gib", 16384, 0, th)
	trie("fix-trie-4gib-plus-chunk", 16385, 0, th)
	cs = append(cs, core.Case{ID: "fix-trie-protocol", Ops: []string{"trie 1 1 0", "trie 1 0 5", "trie 1 3 262145", "trie 1 100001 0", "trie 1 2 0", "get 0", "get 0.0", "get 2"}})
	if th {
		trie("fix-trie-below-4gib", 16383, C-1, true)
		for i := 0; i < 8; i++ {
			n := r.Pick([]int{2, 4095, 4096, 4097, 8192, 16383, 16384, 16384, 16385, 20480, 32768, 40961, r.Range(2, 40000), r.Range(16384, 40000)})
			last := r.Pick([]int{0, 0, 1, C - 1, C, r.Range(1, C)})
			trie(fmt.Sprintf("tr%d", i), n, last, true)
		}
	}
	return cs
}

// ---------------------------------------------------------------- runner

type mapStore struct {
	mu sync.Mutex
	m  map[string][]byte
}

func (s *mapStore) Put(_ context.Context, _ storage.ModePut, chs ...boson.Chunk) ([]bool, error) {
	s.mu.Lock()
	defer s.mu.Unlock()
	for _, c := range chs {
		s.m[string(c.Address().Bytes())] = append([]byte(nil), c.Data()...)
	}
	return make([]bool, len(chs)), nil
}
func (s *mapStore) Get(_ context.Context, _ storage.ModeGet, a boson.Address) (boson.Chunk, error) {
	s.mu.Lock()
	defer s.mu.Unlock()
	d, ok := s.m[string(a.Bytes())]
	if !ok {
		return nil, storage.ErrNotFound
	}
	return boson.NewChunk(a, d), nil
}

type periodic struct {
	base []byte
	n    int
	pos  int
}

func (p *periodic) Read(b []byte) (int, error) {
	if p.pos >= p.n {
		return 0, io.EOF
	}
	k := 0
	for k < len(b) && p.pos < p.n {
		b[k] = p.base[p.pos%len(p.base)]
		k++
		p.pos++
	}
	return k, nil
}
func (p *periodic) at(off, l int) []byte {
	o := make([]byte, l)
	for i := range o {
		o[i] = p.base[(off+i)%len(p.base)]
	}
	return o
}

type file struct {
	n    int
	root []byte
	st   *mapStore
	src  *periodic
}

// trieFile: the hash-trie writer of builder.newEncryptionPipeline (ChunkSize, Branches/2, 64-byte references, short
// pipeline encryption -> bmt -> store) fed with the (span, address, key) triples of n full data chunks and, if
// last > 0, one of `last` bytes — the leaves' data never reaches that writer, so files of 4 GiB and more cost
// nothing.  Returns the root reference; the leaves themselves are not in the store.
func trieFile(st *mapStore, seed uint64, n, last int) ([]byte, error) {
	short := func() pipeline.ChainWriter {
		lsw := pstore.NewStoreWriter(bg, st, storage.ModePutUpload, nil)
		return penc.NewEncryptionWriter(encryption.NewChunkEncrypter(), bmt.NewBmtWriter(lsw))
	}
	tw := hashtrie.NewHashTrieWriter(boson.ChunkSize, boson.Branches/2, boson.HashSize+encryption.KeyLength, short)
	leaf := func(i int, span int) error {
		// synthetic address / key of leaf i: (seed, i) spelled out, no hashing (the writer never looks inside)
		var sp [8]byte
		binary.LittleEndian.PutUint64(sp[:], uint64(span))
		a, k := bytes.Repeat([]byte{'A'}, 32), bytes.Repeat([]byte{'K'}, 32)
		binary.LittleEndian.PutUint64(a[:8], seed)
		binary.LittleEndian.PutUint64(a[8:16], uint64(i))
		binary.LittleEndian.PutUint64(k[:8], seed)
		binary.LittleEndian.PutUint64(k[8:16], uint64(i))
		return tw.ChainWrite(&pipeline.PipeWriteArgs{Span: sp[:], Ref: a, Key: k})
	}
	for i := 0; i < n; i++ {
		if err := leaf(i, C); err != nil {
			return nil, err
		}
	}
	if last > 0 {
		if err := leaf(n, last); err != nil {
			return nil, err
		}
	}
	return tw.Sum()
}

// walkTrie: model-free clauses on the intermediate chunks of a trieFile, read through the decrypting store:
// the span is the subtree's length (all leaves full but the last) and the payload is restored to 64 bytes per child.
func (rn *runner) walkTrie(ctx *core.Ctx, st *mapStore, ref, d []byte, s int, bad *bool) {
	if s <= C || *bad {
		return // a leaf: not stored
	}
	if d == nil { // (the root's data is handed in by the caller)
		ch, err := encstore.New(st).Get(bg, storage.ModeGetRequest, boson.NewAddress(ref))
		if err != nil {
			*bad = true
			ctx.Fail("trie-chunk-missing", "intermediate chunk of span %d: %v", s, err)
			return
		}
		d = ch.Data()
	}
	k, fl := children(s)
	if len(d) < 8 || binary.LittleEndian.Uint64(d[:8]) != uint64(s) {
		*bad = true
		ctx.Fail("trie-span-not-sum-of-leaves", "intermediate chunk over %d children carries span %d, its leaves' spans add up to %d", k, binary.LittleEndian.Uint64(d[:8]), s)
		return
	}
	if len(d)-8 != 64*k {
		*bad = true
		ctx.Fail("strip-intermediate", "intermediate chunk of span %d with %d children restored to %d bytes", s, k, len(d)-8)
		return
	}
	for i := 0; i < k; i++ {
		cs := fl
		if i == k-1 {
			cs = s - (k-1)*fl
		}
		rn.walkTrie(ctx, st, d[8+64*i:8+64*i+64], nil, cs, bad)
	}
}

type runner struct {
	enc       encryption.Interface
	pad       int
	keyLen    int
	last      []byte
	hasLast   bool
	lastPlain []byte
	fresh     bool // index is 0 (just created or Reset)
	lastIdx0  bool // `last` was produced starting at index 0
	chunk     *struct{ key, data, plain []byte }
	f         *file
}

func (prop) New() core.Runner { return &runner{} }
func (*runner) Close()        {}

var bg = context.Background()

func (rn *runner) storeGet(stored []byte, key []byte) (boson.Chunk, error) {
	addr := bytes.Repeat([]byte{0}, 32)
	g := &mapStore{m: map[string][]byte{string(addr): stored}}
	return encstore.New(g).Get(bg, storage.ModeGetRequest, boson.NewAddress(append(append([]byte{}, addr...), key...)))
}

// expected shape (written from the property statement): children of a subtree of s bytes
func children(s int) (k int, fl int) {
	if s <= C {
		return 0, 0
	}
	fl = C
	for s > fl*B {
		fl *= B
	}
	return (s + fl - 1) / fl, fl
}

func (rn *runner) walk(ctx *core.Ctx, ref []byte, off, s int, count *int, leafBytes *int) {
	f := rn.f
	ch, err := encstore.New(f.st).Get(bg, storage.ModeGetRequest, boson.NewAddress(ref))
	*count++
	if err != nil {
		ctx.Fail("pipeline-chunk-missing", "chunk at offset %d span %d: %v", off, s, err)
		return
	}
	d := ch.Data()
	if len(d) < 8 || int(binary.LittleEndian.Uint64(d[:8])) != s {
		ctx.Fail("pipeline-span", "chunk at offset %d: span %d, expected %d", off, binary.LittleEndian.Uint64(d[:8]), s)
		return
	}
	k, fl := children(s)
	if k == 0 {
		if len(d)-8 != s {
			ctx.Fail("strip-leaf", "leaf of %d bytes restored to %d bytes", s, len(d)-8)
			return
		}
		if !bytes.Equal(d[8:], f.src.at(off, s)) {
			ctx.Fail("leaf-content", "leaf at offset %d differs from the written data", off)
		}
		*leafBytes += s
		return
	}
	if len(d)-8 != 64*k {
		ctx.Fail("strip-intermediate", "intermediate chunk of span %d with %d children restored to %d bytes", s, k, len(d)-8)
		return
	}
	for i := 0; i < k; i++ {
		cs := fl
		if i == k-1 {
			cs = s - (k-1)*fl
		}
		rn.walk(ctx, d[8+64*i:8+64*i+64], off+i*fl, cs, count, leafBytes)
	}
}

func (rn *runner) encOp(ctx *core.Ctx, data []byte, decrypt bool, isLast bool) string {
	if rn.pad > 0 && ((!decrypt && len(data) > rn.pad) || (decrypt && len(data) != rn.pad)) {
		_, err := rn.call(data, decrypt)
		if err == nil {
			if decrypt {
				ctx.Fail("decrypt-wrong-length-accepted", "Decrypt accepted %d bytes with padding %d", len(data), rn.pad)
			} else {
				ctx.Fail("encrypt-too-long-accepted", "Encrypt accepted %d bytes with padding %d", len(data), rn.pad)
			}
			return "ok?"
		}
		if !decrypt {
			rn.last, rn.hasLast = nil, false
		}
		return "err"
	}
	out, err := rn.call(data, decrypt)
	if err != nil {
		if !decrypt {
			rn.last, rn.hasLast = nil, false
		}
		return "err"
	}
	if !decrypt {
		ctx.Annotate(core.Hex(out[len(data):]))
		want := len(data)
		if rn.pad > 0 {
			want = rn.pad
		}
		if len(out) != want {
			ctx.Fail("encrypt-len", "ciphertext of %d bytes with padding %d has %d bytes", len(data), rn.pad, len(out))
		}
		rn.last, rn.lastPlain, rn.lastIdx0, rn.hasLast = append([]byte{}, out...), append([]byte(nil), data...), rn.fresh, true
	} else if isLast && rn.fresh && rn.lastIdx0 {
		// round trip: same key, same starting index
		if len(out) < len(rn.lastPlain) || !bytes.Equal(out[:len(rn.lastPlain)], rn.lastPlain) {
			ctx.Fail("decrypt-encrypt-prefix", "Decrypt(Encrypt(x)) does not start with x (|x| = %d)", len(rn.lastPlain))
		}
	}
	if len(data) > 0 {
		rn.fresh = false
	}
	return outBytes(out)
}

func (rn *runner) call(data []byte, decrypt bool) ([]byte, error) {
	if decrypt {
		return rn.enc.Decrypt(data)
	}
	return rn.enc.Encrypt(data)
}

func (rn *runner) doChunk(ctx *core.Ctx, cd []byte) string {
	rn.chunk = nil
	key, es, ed, err := encryption.NewChunkEncrypter().EncryptChunk(cd)
	if err != nil {
		if len(cd)-8 <= C {
			ctx.Fail("encrypt-chunk-rejects", "EncryptChunk failed for %d data bytes: %v", len(cd)-8, err)
		}
		return "err"
	}
	if len(cd)-8 > C {
		ctx.Fail("encrypt-too-long-accepted", "EncryptChunk accepted %d data bytes", len(cd)-8)
	}
	if len(es) != 8 || len(ed) != C {
		ctx.Fail("encrypt-len", "EncryptChunk gives span %d data %d bytes", len(es), len(ed))
	}
	ctx.Annotate(core.Hex(key), core.Hex(ed[len(cd)-8:]))
	all := append(append([]byte{}, es...), ed...)
	rn.chunk = &struct{ key, data, plain []byte }{key, all, append([]byte(nil), cd...)}
	return fmt.Sprintf("ok %d %s", len(all), keccakN(all))
}

func (rn *runner) Step(ctx *core.Ctx, op []string) string {
	switch {
	case len(op) == 4 && op[0] == "mk":
		key, e1 := core.UnHex(op[1])
		pad, e2 := strconv.Atoi(op[2])
		ctr, e3 := strconv.ParseUint(op[3], 10, 64)
		if e1 != nil || e2 != nil || e3 != nil || pad < 0 || len(key) == 0 || ctr >= 1<<32 {
			return "bad-op"
		}
		rn.enc = encryption.New(key, pad, uint32(ctr), sha3.NewLegacyKeccak256)
		rn.pad, rn.keyLen, rn.last, rn.hasLast, rn.fresh = pad, len(key), nil, false, true
		return "ok"
	case len(op) == 2 && op[0] == "chunk":
		cd, ok := core.ParseSrc(op[1])
		if !ok {
			return "bad-op"
		}
		if len(cd) < 8 {
			rn.chunk = nil
		}
		return rn.doChunk(ctx, cd)
	case len(op) == 1 && op[0] == "cget":
		if rn.chunk == nil {
			return "nochunk"
		}
		ch, err := rn.storeGet(rn.chunk.data, rn.chunk.key)
		if err != nil {
			return "err"
		}
		d := ch.Data()
		// oracle: a chunk whose span is its data length (<= C) comes back exactly
		p := rn.chunk.plain
		if binary.LittleEndian.Uint64(p[:8]) == uint64(len(p)-8) && !bytes.Equal(d, p) {
			ctx.Fail("strip-leaf", "chunk of %d data bytes restored to %d bytes / other content", len(p)-8, len(d)-8)
		}
		return outBytes(d)
	case len(op) == 4 && op[0] == "sget":
		key, e1 := core.UnHex(op[1])
		span, e2 := strconv.ParseUint(op[2], 10, 64)
		payload, ok := core.ParseSrc(op[3])
		if e1 != nil || e2 != nil || !ok {
			return "bad-op"
		}
		if len(key) != 32 {
			_, err := rn.storeGet([]byte{}, key)
			if err == storage.ErrReferenceLength {
				return "err-reflen"
			}
			return "err"
		}
		if len(payload) != C {
			return "bad-op"
		}
		sp := make([]byte, 8)
		binary.LittleEndian.PutUint64(sp, span)
		es, err1 := encryption.New(key, 0, uint32(C/64), sha3.NewLegacyKeccak256).Encrypt(sp)
		ed, err2 := encryption.New(key, C, 0, sha3.NewLegacyKeccak256).Encrypt(payload)
		if err1 != nil || err2 != nil {
			return "err"
		}
		ch, err := rn.storeGet(append(es, ed...), key)
		if err != nil {
			return "err"
		}
		d := ch.Data()
		// oracle (property statement): spans of well-formed subtrees give the leaf length or 64 per child
		if span < 1<<63 {
			want := int(span)
			if span > C {
				fl := uint64(C)
				for span > fl*B && fl < 1<<62/B {
					fl *= B
				}
				if span <= fl*B {
					want = 64 * int((span+fl-1)/fl)
				} else {
					want = -1
				}
			}
			if want >= 0 && len(d)-8 != want {
				clause := "strip-intermediate"
				if span <= C {
					clause = "strip-leaf"
				}
				ctx.Fail(clause, "span %d restored to %d bytes, expected %d", span, len(d)-8, want)
			}
			if want >= 0 && (!bytes.Equal(d[:8], sp) || !bytes.Equal(d[8:], payload[:want])) {
				ctx.Fail("decrypt-content", "span %d: decrypted bytes differ from the encrypted ones", span)
			}
		}
		return fmt.Sprintf("ok %d %s", len(d)-8, keccakN(d))
	case len(op) == 3 && op[0] == "sgetshort":
		key, e1 := core.UnHex(op[1])
		n, e2 := strconv.Atoi(op[2])
		if e1 != nil || e2 != nil || len(key) != 32 || n < 0 {
			return "bad-op"
		}
		ch, err := rn.storeGet(core.GenBytes(1, n, 0), key)
		if err != nil {
			return "err"
		}
		return outBytes(ch.Data())
	case len(op) == 3 && op[0] == "chunkl":
		span, e1 := strconv.ParseUint(op[1], 10, 64)
		data, ok := core.ParseSrc(op[2])
		if e1 != nil || !ok {
			return "bad-op"
		}
		sp := make([]byte, 8)
		binary.LittleEndian.PutUint64(sp, span)
		return rn.doChunk(ctx, append(sp, data...))
	case len(op) == 4 && op[0] == "pipe":
		seed, e1 := strconv.ParseUint(op[1], 10, 64)
		n, e2 := strconv.Atoi(op[2])
		per, e3 := strconv.Atoi(op[3])
		if e1 != nil || e2 != nil || e3 != nil || n < 0 || per < 0 {
			return "bad-op"
		}
		if per == 0 {
			per = n
		}
		if per == 0 {
			per = 1
		}
		st := &mapStore{m: map[string][]byte{}}
		src := &periodic{base: core.GenBytes(seed, per, 0), n: n}
		addr, err := builder.FeedPipeline(bg, builder.NewPipelineBuilder(bg, st, storage.ModePutUpload, true), src)
		rn.f = nil
		if err != nil {
			return "err"
		}
		if len(addr.Bytes()) != 64 {
			ctx.Fail("pipeline-ref-length", "encrypted reference has %d bytes", len(addr.Bytes()))
			return "err"
		}
		rn.f = &file{n: n, root: addr.Bytes(), st: st, src: src}
		rootCh, err := encstore.New(st).Get(bg, storage.ModeGetRequest, addr)
		if err != nil {
			return "err"
		}
		count, leafBytes := 0, 0
		rn.walk(ctx, addr.Bytes(), 0, n, &count, &leafBytes)
		if leafBytes != n {
			ctx.Fail("pipeline-leaf-total", "leaves hold %d bytes of a %d-byte file", leafBytes, n)
		}
		return fmt.Sprintf("ok %d %d %d %d", binary.LittleEndian.Uint64(rootCh.Data()[:8]), len(rootCh.Data())-8, count, leafBytes)
	case len(op) == 4 && op[0] == "trie":
		seed, e1 := strconv.ParseUint(op[1], 10, 32)
		n, e2 := strconv.Atoi(op[2])
		last, e3 := strconv.Atoi(op[3])
		if e1 != nil || e2 != nil || e3 != nil || n < 1 || n > 100000 || last < 0 || last > C || (n == 1 && last == 0) {
			return "bad-op"
		}
		st := &mapStore{m: map[string][]byte{}}
		rn.f = nil
		root, err := trieFile(st, seed, n, last)
		if err != nil || len(root) != 64 {
			return "err"
		}
		total := n*C + last
		rn.f = &file{n: total, root: root, st: st}
		rootCh, err := encstore.New(st).Get(bg, storage.ModeGetRequest, boson.NewAddress(root))
		if err != nil {
			return "err"
		}
		bad := false
		rn.walkTrie(ctx, st, root, rootCh.Data(), total, &bad)
		return fmt.Sprintf("ok %d %d", binary.LittleEndian.Uint64(rootCh.Data()[:8]), len(rootCh.Data())-8)
	case len(op) == 2 && op[0] == "get":
		if rn.f == nil {
			return "nofile"
		}
		var idx []int
		if op[1] != "-" {
			for _, s := range strings.Split(op[1], ".") {
				i, err := strconv.Atoi(s)
				if err != nil || i < 0 {
					return "bad-op"
				}
				idx = append(idx, i)
			}
		}
		ref := rn.f.root
		ds := encstore.New(rn.f.st)
		for _, i := range idx {
			ch, err := ds.Get(bg, storage.ModeGetRequest, boson.NewAddress(ref))
			if err != nil {
				return "err"
			}
			d := ch.Data()
			if binary.LittleEndian.Uint64(d[:8]) <= C || 8+64*i+64 > len(d) {
				return "range"
			}
			ref = d[8+64*i : 8+64*i+64]
		}
		raw, err := rn.f.st.Get(bg, storage.ModeGetRequest, boson.NewAddress(ref[:32]))
		if err != nil {
			return "err"
		}
		ctx.Annotate(core.Hex(ref[32:]), core.Hex(raw.Data()[:8]))
		ch, err := ds.Get(bg, storage.ModeGetRequest, boson.NewAddress(ref))
		if err != nil {
			return "err"
		}
		return fmt.Sprintf("%d %d", binary.LittleEndian.Uint64(ch.Data()[:8]), len(ch.Data())-8)
	}
	if rn.enc == nil {
		return "noenc"
	}
	switch {
	case len(op) == 2 && (op[0] == "e" || op[0] == "d"):
		data, ok := core.ParseSrc(op[1])
		if !ok {
			return "bad-op"
		}
		return rn.encOp(ctx, data, op[0] == "d", false)
	case len(op) == 1 && op[0] == "dl":
		if !rn.hasLast {
			return "nolast"
		}
		return rn.encOp(ctx, rn.last, true, true)
	case len(op) == 1 && op[0] == "reset":
		rn.enc.Reset()
		rn.fresh = true
		return "ok"
	}
	return "bad-op"
}
