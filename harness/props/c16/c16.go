// Package c16: correspondence + model-free oracle for property C16
// (deleting one file never breaks another) on the node-lite harness.
package c16

import (
	"fmt"
	"strings"

	"verifharness/core"
	"verifharness/nodelite"
)

type prop struct{}

func init() { core.Register(prop{}) }

func (prop) ID() string { return "C16" }
func (prop) Rule() string {
	return "node-lite histories: 1-3 initial uploads / cached files, then 6-18 ops: uploads and cached files (pyramid exchange + full/partial fetch from a second real node) with overlapping content " +
		"(identical files under two names, chunk-aligned prefixes, repeated chunks, files sharing one chunk, directories sharing files), DELETE /aurora/{root} and collection runs in all orders, DELETEs held at the entry of ChunkInfo.DelFile while an upload or a DELETE of another (mostly overlapping) file completes (`delr`), some pins/unpins, chunkinfo restarts, read-back. " +
		"Fixed regression histories first. After every op status + symbolic dump (stored set, pin index, gc index, pyramid refcounts, chunkinfo tables) are compared with the Lean model; " +
		"the oracle reads every other fully stored file back through the joiner after each deletion / eviction and checks that no unpinned chunk used by no other known file remains. " +
		"Non-trivial: >=2 files sharing a chunk are present and >=1 executed delete or gc run; distinct by op-list hash."
}

var fixed = []core.Case{
	{ID: "fix-identical-files", NT: true, Ops: []string{"up x/AB 0", "up z/AB 0", "del x/AB", "read z/AB", "del z/AB", "read z/AB"}},
	{ID: "fix-prefix-and-repeat", NT: true, Ops: []string{"up x/AB 0", "up y/ABA 0", "del y/ABA", "read x/AB", "up y/ABA 0", "del x/AB", "read y/ABA"}},
	{ID: "fix-dirs-share-file", NT: true, Ops: []string{"up p/a+q/b 0", "up q/b+s/c 0", "del p/a+q/b", "read q/b+s/c"}},
	{ID: "fix-evict-cached-sharing-upload", NT: true, Ops: []string{"up x/AB 0", "pup y/ABA 0", "pyr y/ABA", "fetch y/ABA 0 111", "gc 0", "read x/AB", "read y/ABA"}},
	{ID: "fix-two-cached-share", NT: true, Ops: []string{"pup x/AB 0", "pup z/AB 0", "pyr x/AB", "fetch x/AB 0 11", "pyr z/AB", "fetch z/AB 0 11", "del x/AB", "read z/AB", "gc 0", "read z/AB"}},
	{ID: "fix-delete-after-reinit", NT: true, Ops: []string{"up x/AB 0", "up z/AB 0", "reinit", "del x/AB", "read z/AB"}},
	{ID: "fix-delete-pinned-shared", NT: true, Ops: []string{"up x/AB 0", "up y/ABA 0", "pin y/ABA", "del y/ABA", "read x/AB", "del x/AB"}},
	// repeated DELETE of a file that stays stored because it is pinned twice: the second DelFile runs on an unregistered root
	{ID: "fix-double-delete-pinned-twice", NT: true, Ops: []string{"up x/AB 1", "up x/AB 1", "up z/AB 0", "del x/AB", "del x/AB", "up y/AB 0", "del y/AB", "read z/AB"}},
	{ID: "fix-delete-repeated-chunk", NT: true, Ops: []string{"up s/AA 0", "up t/A 0", "del s/AA", "read t/A", "del t/A"}},
	// list-then-remove of DELETE must be one step under chunkinfo's lock (seeded change C16-3 computed the list before DelFile):
	// an overlapping file is uploaded completely while DELETE x is held at DelFile's entry
	{ID: "fix-delete-held-upload", NT: true, Ops: []string{"up x/AB 0", "delr x/AB up y/ABA 0", "read y/ABA", "up x/AB 0", "delr y/ABA up z/AB 1", "read z/AB", "read x/AB", "del x/AB", "read z/AB"}},
	// two overlapping DELETEs of files sharing all data chunks: nothing may stay behind
	{ID: "fix-delete-held-delete", NT: true, Ops: []string{"up x/AB 0", "up z/AB 0", "delr x/AB del z/AB -", "read x/AB", "up t/A 0", "up s/AA 0", "up u/BA 0", "delr s/AA del t/A -", "read u/BA"}},
	{ID: "fix-delete-held-dirs", NT: true, Ops: []string{"up p/a+q/b 0", "delr p/a+q/b up q/b+s/c 0", "read q/b+s/c", "up p/a+r/c 0", "delr q/b+s/c del p/a+r/c -", "delr x/a up y/a 0", "delr p/a+r/c del p/a+r/c -", "delr p/a+r/c up p/a+r/c 0"}},
}

func (prop) Gen(r *core.Rand, tier string) []core.Case {
	n := 80
	if tier == "thorough" {
		n = 450
	}
	cs := append([]core.Case(nil), fixed...)
	for i := 0; i < n; i++ {
		cfg := nodelite.GenConfig{MinOps: 6, MaxOps: 18, PinUploads: 10, Pins: 8, Deletes: 22, GC: 10, Cache: 14, Partial: i%3 == 0, Reads: 8, Dirs: true, Budget: 7}
		if i%5 == 0 {
			cfg.Reinit = 5
		}
		ops := nodelite.GenHistory(r.Fork(), cfg)
		cs = append(cs, core.Case{ID: fmt.Sprintf("g%d", i), NT: nontrivial(ops), Ops: ops})
	}
	// histories around held DELETEs (`delr`): generated AFTER the stream above so that its cases stay what they were;
	// no pin/unpin ops here (uploads may carry the pin header)
	m := 24
	if tier == "thorough" {
		m = 150
	}
	for i := 0; i < m; i++ {
		cfg := nodelite.GenConfig{MinOps: 5, MaxOps: 12, PinUploads: 10, Deletes: 12, DelRace: 30, GC: 5, Cache: 8, Partial: i%3 == 0, Reads: 10, Dirs: true, Budget: 6}
		ops := nodelite.GenHistory(r.Fork(), cfg)
		cs = append(cs, core.Case{ID: fmt.Sprintf("h%d", i), NT: nontrivial(ops), Ops: ops})
	}
	return cs
}

func nontrivial(ops []string) bool {
	files := map[string]bool{}
	removal := false
	for _, o := range ops {
		f := strings.Fields(o)
		switch f[0] {
		case "up", "pup":
			files[f[1]] = true
		case "delr":
			if len(f) == 5 && f[2] == "up" {
				files[f[3]] = true
			}
			removal = removal || len(files) >= 2
		case "del", "gc":
			removal = removal || len(files) >= 2
		}
	}
	// two files share a chunk iff they have a letter in common
	share := false
	var l []string
	for s := range files {
		l = append(l, s)
	}
	for i := range l {
		for j := i + 1; j < len(l); j++ {
			for _, c := range l[i] {
				if (c >= 'A' && c <= 'H' || c >= 'a' && c <= 'h') && strings.ContainsRune(strings.Join(letters(l[j]), ""), c) && strings.ContainsRune(strings.Join(letters(l[i]), ""), c) {
					share = true
				}
			}
		}
	}
	return removal && share
}

func letters(spec string) []string {
	var out []string
	for _, e := range strings.Split(spec, "+") {
		p := strings.Split(e, "/")
		if len(p) == 2 {
			out = append(out, p[1])
		}
	}
	return out
}

func (prop) New() core.Runner { return nodelite.NewRunner(nodelite.NewC16Oracle()) }
