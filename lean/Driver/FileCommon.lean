import Std.Data.HashMap
import Driver.Util
import Driver.FastKeccak
import Aurora.Model.Cac
import Aurora.Model.HashTrie
import Aurora.Model.HashTrieBuf
import Aurora.Model.ChunkPipe
import Aurora.Model.FeedPipeline
import Aurora.Model.Joiner
import Aurora.Model.EncUpload
/-!
Shared driver for the file pipeline properties C01 / C02 / C07.

Ops (one output line each):
* `new` | `new enc` | `new small <C> <B>` — fresh pipeline (`builder.NewPipelineBuilder` plain /
  encrypted; `small`: feeder(C) → bmt → store → hashtrie(C, B, 32), writer side only)
* `write <src>` — one `Write`; `writeseg <src> <k>` — the source in consecutive `k`-byte `Write`s
* `sum` — `Sum()`: `ok <ref> <#puts> <digest of the Put multiset>`; also evaluates the independent
  specification `Tree.Spec.root` and prints `SPEC-MISMATCH …` if it differs from the pipeline model
* `open` — `joiner.New` on the reference; `size`
* `readat <off> <len> <cap>` — `ReadAt` into a sentinel-filled (0xEE) buffer of that len/cap
* `read <len> <cap>` — `Read`; `seek <off> <whence>`; `readall` — `file.JoinReadAll`
* `new pipe` — the writes go through `file.ChunkPipe` + `builder.FeedPipeline`: every `write` runs the
  model `Aurora.ChunkPipe.write` (buffer + cursor of `pkg/file/buffer.go`) and each piece it hands on is
  one `Write` of the pipeline model (what one `Read` of `FeedPipeline` receives from the `io.Pipe`);
  `sum` = `Close` (the buffered rest leaves as last piece) then `Sum`.  The `sum` answer carries
  `pp=<number of pieces>:<chained digest of (length, fnv) of every piece>`, which the Go runner observes on
  the reader side of the real pipe.  `Spec.root` is evaluated on the bytes as the uploader wrote them.

Encrypted mode (`new enc`, and `new encsmall <C> <B>`: the same writers with a small feeder chunk
size / branching, writer side only): the model is `Aurora.EncUpload.upload` (feeder → encryption →
bmt → store → hashtrie with 64-byte references) with real Keccak-256 for the keystream and the BMT.
The keys and padding bytes drawn by the real code are oracle values: the runner annotates the `sum`
line with one token `<offset>:<span>:<key hex>:<padding hex>` per chunk (read back from the
references and the stored chunks); the driver checks their admissibility (32-byte key; a padding of
the wrong length makes `EncryptChunk`'s model fail → `bad-annot`) and runs the whole upload with
that oracle at `sum`.  `write` only runs the feeder (the returned count does not depend on the
draws).  Compared: the full 64-byte reference, the number of Puts and the digest of the Put multiset
(addresses recomputed by the model from the observed keys / padding), then size and every read
through `EncUpload.encGet` (the decrypting getter, memoised per reference: every chunk is decrypted
once at `open`).

`new synth <seed> <size> <period>`: a *synthetic* encrypted file for the reader only (no upload): the
canonical tree of a `size`-byte periodic content with 4096 references of 64 bytes per intermediate
chunk, addresses `keccak("A" ‖ le64 off ‖ le64 span)` (the joiner never re-hashes), keys
`keccak("K" ‖ le64 off ‖ le64 span)`, zero padding; chunks are produced on demand from their
position by the encryption model, so files beyond 1 GiB (two intermediate levels with the real
constants) can be read through the joiner model and the real joiner.  `readall` answers
`noreadall` there.

`new feed <shape>` — the written bytes are handed to `builder.FeedPipeline` at `sum` through a reader of the
given shape (Go side: `bytes.Reader`, `iotest.DataErrReader` / `OneByteReader` / `HalfReader`, a reader that
returns at most k bytes and `io.EOF` with the last ones).  `write` only collects (answer = the length); the
runner annotates the `sum` line with the result of every `Read` (`<n>` or `<n>e` when it came with `io.EOF`);
the driver checks that they are admissible (each `<= ChunkSize`, the buffer of `FeedPipeline`; they cover the
content; exactly one `e`, on the last one — else `bad-annot`), runs `Aurora.FeedPipeline.writes` on them and
feeds the resulting `pipeline.Write` calls to the pipeline model.

`parup <reps> <src>…` — concurrent uploads on the Go side (one goroutine per source, the first `reps` times,
the others until the first is done); the model side is sequential: `ok <reference of every source>`.

**Literal hash-trie writer next to the list model** (plain modes `new`, `new pipe`, `new small`): every
chunk handed to the list-level `Upload` model is also written into the literal buffer-and-cursor model
`Aurora.HashTrieBuf` (buffer of the real size `ChunkWithSpanSize*9*2`); after every op the driver
compares the levels read back out of the buffer by the abstraction function (`State.levels`), the `full`
flag, the failure status, the wrapped chunks handed to the short pipeline and (at `sum`) the reference
with the list model and answers `BUF-LIST-MISMATCH` if they ever differ.  In `new small` mode the
answers of `new small`, `write`, `writeseg`, `sum` carry the literal model's observation of the writer
(`buf=` buffer length; `cw=` number of `ChainWrite`/`Sum` calls on the trie in this op, `cur=`
`cursors[1..8]`, `f=` full flag, `live=` digest of `buffer[0:cursors[1]]` after the last of them, `h=`
chained digest of these snapshots after EVERY call), which the Go runner reads off the real
`hashTrieWriter` through the `verif` hook `hashtrie.VerifPeek`.

`leaves <n> <span> <seed>` (only in `new small` mode, elsewhere `noleaves`): `n` `ChainWrite` calls on the hash-trie writer
ITSELF with `Span = le64 span` (any `span < 2^64`) and the `i`-th 32-byte piece of `genBytes seed (32 n)` as reference — the
leaves' data never reaches that writer, so spans of `2^32` and more are reached without data.  The entries go to the list
model (`HashTrie.feedEntry`, spans unbounded `Nat`, only `le64 span` = the bytes of `span mod 2^64` enters chunks) and the literal
model (`uint64` sums as in Go); answer `<n> cw=… cur=… f=… live=… h=…` as for `write`.  After a `leaves` op `sum` is the
writer's own `Sum` (feeder bypassed), the specification evaluated is `rootG (wrapE cref) B` over all leaf entries the trie was
given, and the answer ends in `rs=<span header of the stored root chunk | ->`.

The chunk reference function is `fastBmt` (ByteArray BMT over `Driver.Fast.keccak`), memoised per
case on the chunk content.  It is cross-checked against the list model `Aurora.Cac.hashWith` by the
`selftest` op.
-/
namespace Driver.File
open Aurora.Bmt (Bytes)
open Aurora.Tree Aurora.HashTrie Aurora.Joiner

def C : Nat := Aurora.Tree.chunkBytes

/-- zero-subtree hashes: `zh[0]` = 32 zero bytes, `zh[i+1] = H(zh[i] ‖ zh[i])` -/
def zeroHashes : Array ByteArray := Id.run do
  let mut a : Array ByteArray := #[⟨Array.replicate 32 0⟩]
  for i in [0:13] do
    a := a.push (Driver.Fast.keccak (a[i]! ++ a[i]!))
  return a

/-- BMT root (8192 segments of 32 bytes) of `data` (truncated to 262144 bytes) -/
def fastBmtRoot (data : ByteArray) : ByteArray := Id.run do
  let n := min data.size C
  if n = 0 then return zeroHashes[13]!
  let nsec := (n + 63) / 64
  let mut nodes : Array ByteArray := Array.mkEmpty nsec
  for i in [0:nsec] do
    let hi := min n (64 * i + 64)
    let mut sec := data.extract (64 * i) hi
    if sec.size < 64 then
      sec := sec ++ ⟨Array.replicate (64 - sec.size) 0⟩
    nodes := nodes.push (Driver.Fast.keccak sec)
  let mut lvl := 1
  for _ in [0:12] do
    if nodes.size % 2 = 1 then nodes := nodes.push zeroHashes[lvl]!
    let mut up : Array ByteArray := Array.mkEmpty (nodes.size / 2)
    for j in [0:nodes.size / 2] do
      up := up.push (Driver.Fast.keccak (nodes[2 * j]! ++ nodes[2 * j + 1]!))
    nodes := up
    lvl := lvl + 1
  return nodes[0]!

def fastBmt (span payload : Bytes) : Bytes :=
  (Driver.Fast.keccak ((⟨span.toArray⟩ : ByteArray) ++ fastBmtRoot ⟨payload.toArray⟩)).toList

abbrev Memo := Std.HashMap Bytes Bytes

def crefWith (memo : Memo) (span payload : Bytes) : Bytes :=
  match memo.get? (span ++ payload) with
  | some r => r
  | none => fastBmt span payload

/-- Keccak-256 on byte lists (keystream hash of the encryption model) -/
def keccakL (b : Bytes) : Bytes := (Driver.Fast.keccak ⟨b.toArray⟩).toList

/-- padding size / reference size of `chunk_encryption.go` -/
def encP : Nat := 262144
def encR : Nat := 64

inductive Mode | none | plain | enc | small (c b : Nat) | encsmall (c b : Nat) | synth
deriving Repr, DecidableEq

def Mode.isEnc : Mode → Bool
  | .enc => true
  | .encsmall _ _ => true
  | .synth => true
  | _ => false

/-! ### synthetic encrypted files (reader only) -/

structure Synth where
  pat : Array UInt8                         -- one period of the content
  size : Nat
  index : Std.HashMap Bytes (Nat × Nat)     -- address ↦ position (offset, span)

def synthAddr (off span : Nat) : Bytes := keccakL ([0x41] ++ Aurora.Cac.le64 off ++ Aurora.Cac.le64 span)
def synthKey (off span : Nat) : Bytes := keccakL ([0x4b] ++ Aurora.Cac.le64 off ++ Aurora.Cac.le64 span)

/-- size of a full child and number of children of the canonical node of span `s > C` -/
def synthKids (s : Nat) : Nat × Nat :=
  let h := (List.range 8).find? (fun h => s ≤ C * 4096 ^ (h + 1)) |>.getD 8
  let fl := C * 4096 ^ h
  (fl, (s + fl - 1) / fl)

/-- all positions of the canonical tree below `(off, span)` -/
def synthPositions : Nat → Nat → Nat → List (Nat × Nat)
  | 0, _, _ => []
  | fuel + 1, off, span =>
    if span ≤ C then [(off, span)]
    else
      let (fl, k) := synthKids span
      (off, span) :: (List.range k).flatMap (fun i => synthPositions fuel (off + i * fl) (min fl (span - i * fl)))

def Synth.mk' (seed size period : Nat) : Synth :=
  { pat := (Driver.genBytes seed period).toArray, size := size,
    index := (synthPositions 9 0 size).foldl (fun m p => m.insert (synthAddr p.1 p.2) p) {} }

/-- the plain payload of the chunk at a position -/
def Synth.payload (sy : Synth) (off span : Nat) : Bytes :=
  if span ≤ C then (List.range span).map (fun i => sy.pat[(off + i) % sy.pat.size]!)
  else
    let (fl, k) := synthKids span
    (List.range k).flatMap (fun i =>
      let o := off + i * fl
      let s := min fl (span - i * fl)
      synthAddr o s ++ synthKey o s)

/-- the stored (encrypted) chunk for an address: the encryption model on `span ‖ payload` -/
def Synth.lookup (sy : Synth) (a : Bytes) : Option Bytes :=
  match sy.index.get? a with
  | none => none
  | some (off, span) =>
    let pl := sy.payload off span
    let c := Aurora.EncUpload.encT keccakL encP encR (synthKey off span) (List.replicate (encP - pl.length) 0)
      (Aurora.Cac.le64 span ++ pl)
    some (c.1 ++ c.2)

/-! ### the literal hash-trie writer (`Aurora.HashTrieBuf`) run next to the list model -/

def realBufLen : Nat := 262152 * 9 * 2       -- `boson.ChunkWithSpanSize*9*2`

set_option compiler.extract_closed false in
/-- the zeroed buffer, built once per process on first use and shared by all cases
    (`copyAt` only copies the prefix below the cursor) -/
def zeroBuf : Thunk Bytes := Thunk.mk fun _ => List.replicate realBufLen 0

structure Lit where
  s : Aurora.HashTrieBuf.State
  failed : Bool := false       -- a `ChainWrite` returned an error
  n : Nat := 0                 -- `ChainWrite`/`Sum` calls since the last flush
  h : UInt64 := 0              -- chained digest of the snapshots since the last flush
  last : String := ""
  nsent : Nat := 0             -- `s.sent` already compared

def fnv (bs : Bytes) : UInt64 :=
  bs.foldl (fun h b => (h ^^^ b.toUInt64) * 0x100000001b3) 0xcbf29ce484222325

def hex64 (w : UInt64) : String :=
  String.ofList ((List.range 16).map fun i => Driver.nibble ((w >>> (4 * (15 - i)).toUInt64).toNat % 16))

def Lit.snapStr (l : Lit) : String :=
  let cs := (List.range 8).map (fun k => toString (l.s.cur (k + 1)))
  let live := Aurora.HashTrieBuf.slice l.s.buffer 0 (l.s.cur 1)
  s!"cur={",".intercalate cs} f={if l.s.full then 1 else 0} live={hex64 (fnv live)}"

def Lit.snap (l : Lit) : Lit :=
  let last := l.snapStr
  { l with last := last, n := l.n + 1, h := fnv (Aurora.Cac.le64 l.h.toNat ++ last.toUTF8.toList) }

set_option compiler.extract_closed false in
def Lit.init (_ : Unit) : Lit :=
  let l : Lit := { s := { buffer := zeroBuf.get, cursors := List.replicate Aurora.HashTrieBuf.nCursors 0 } }
  { l with last := l.snapStr }

def Lit.flush (l : Lit) : Lit × String :=
  ({ l with n := 0, h := 0 }, s!"cw={l.n} {l.last} h={hex64 l.h}")

/-- one leaf entry: `ChainWrite(le64 span, ref, nil)` on the literal writer -/
def Lit.feedE (P : Aurora.HashTrieBuf.Params) (l : Lit) (e : Entry) : Lit :=
  if l.failed then l else
  match Aurora.HashTrieBuf.chainWrite P l.s (Aurora.Cac.le64 e.span) e.ref [] with
  | .error _ => { l with failed := true }.snap
  | .ok s' => { l with s := s' }.snap

def isSubseq : List Bytes → List Bytes → Bool
  | [], _ => true
  | _ :: _, [] => false
  | a :: as, b :: bs => if a == b then isSubseq as bs else isSubseq (a :: as) bs

/-- does the literal writer agree with the list model `u` after an op that fed `nchunks` chunks and
    logged `puts`?  (levels through the abstraction function, `full`, failure, wrapped chunks) -/
def Lit.agrees (P : Aurora.HashTrieBuf.Params) (l : Lit) (u : Upload) (nchunks : Nat) (checkPuts : Bool) : Bool :=
  let newSent := l.s.sent.drop l.nsent
  l.failed == u.failed &&
  (u.failed ||
    (l.s.levels P == u.trie.levels.map (fun lv => lv.map (fun e => Aurora.Cac.le64 e.span ++ e.ref)) &&
     l.s.full == u.trie.full &&
     (!checkPuts || (u.puts.length == nchunks + newSent.length && isSubseq newSent (u.puts.map (·.2))))))

structure St where
  mode : Mode := .none
  up : Upload := {}
  memo : Memo := {}
  store : Std.HashMap Bytes Bytes := {}
  nputs : Nat := 0
  pdig : UInt64 := 0
  segsRev : List Bytes := []
  root : Option Bytes := none
  summed : Bool := false
  failed : Bool := false
  j : Option J := none
  cache : Std.HashMap Bytes (Except Aurora.Joiner.Err Bytes) := {}   -- encrypted mode: `encGet`, memoised
  synth : Option Synth := none
  lit : Option Lit := none                    -- the literal hash-trie writer (plain modes)
  pipe : Option Aurora.ChunkPipe.State := none   -- `new pipe`: the ChunkPipe in front of the pipeline
  ppN : Nat := 0                              -- pieces that left the ChunkPipe
  ppH : UInt64 := 0                           -- chained digest of them
  feed : Bool := false                        -- `new feed`: writes are collected, `FeedPipeline` runs at `sum`
  litBad : Bool := false                      -- it disagreed with the list model
  leaves : Bool := false                      -- `new small`: a `leaves` op wrote to the trie directly (`sum` = the trie's `Sum`)
  entsRev : List Entry := []                  -- `new small`: every leaf entry given to the trie, newest first

def St.params (st : St) : Nat × Nat :=
  match st.mode with
  | .small c b => (c, b)
  | .encsmall c b => (c, b)
  | .enc => (C, Aurora.Tree.encBranching)
  | _ => (C, Aurora.Tree.branching)

def St.cref (st : St) : Bytes → Bytes → Bytes := crefWith st.memo

/-- move the model's Put log into the store / counters -/
def St.drain (st : St) : St := Id.run do
  let mut store := st.store
  let mut dig := st.pdig
  for (a, d) in st.up.puts do
    store := store.insert (a.take 32) d
    dig := dig + fnv (a.take 32 ++ Aurora.Cac.le64 d.length)
  return { st with store := store, pdig := dig, nputs := st.nputs + st.up.puts.length, up := { st.up with puts := [] } }

/-- make sure the references of the given data chunks are memoised -/
def St.memoise (st : St) (chunks : List Bytes) : St := Id.run do
  let mut memo := st.memo
  for p in chunks do
    let sp := Aurora.Cac.le64 p.length
    if !memo.contains (sp ++ p) then
      memo := memo.insert (sp ++ p) (fastBmt sp p)
  return { st with memo := memo }

def St.litParams (st : St) : Aurora.HashTrieBuf.Params :=
  Aurora.HashTrieBuf.plainParams st.cref st.params.2 Aurora.Tree.hashBytes

/-- feed the leaf entries of one op (`nLeafPuts` of them came with a `Put` of their own data chunk) to the
    literal writer and compare it with the list model `u` -/
def St.litStepE (st : St) (es : List Entry) (nLeafPuts : Nat) (u : Upload) (checkPuts : Bool := true) : St :=
  match st.lit with
  | none => st
  | some l =>
    let l := es.foldl (Lit.feedE st.litParams) l
    let ok := l.agrees st.litParams u nLeafPuts checkPuts
    { st with lit := some (if checkPuts then { l with nsent := l.s.sent.length } else l), litBad := st.litBad || !ok }

/-- feed the chunks of one op to the literal writer and compare it with the list model `u` -/
def St.litStep (st : St) (chunks : List Bytes) (u : Upload) (checkPuts : Bool := true) : St :=
  if st.lit.isNone then st else
  st.litStepE (chunks.map (leafEntry st.cref)) chunks.length u checkPuts

/-- the `cw= cur= f= live= h=` field of `new small` mode -/
def St.litField (st : St) : St × String :=
  match st.mode, st.lit with
  | .small _ _, some l =>
    let (l, f) := l.flush
    ({ st with lit := some l }, " " ++ f)
  | _, _ => (st, "")

def St.write1 (st : St) (b : Bytes) : St × Option Int :=
  let (c, bb) := st.params
  if st.mode.isEnc then
    -- encrypted: only the feeder runs now; the upload model runs at `sum`, when the oracle is known
    let (f, _, n) := Aurora.Feeder.write c st.up.feeder b
    ({ st with up := { st.up with feeder := f }, segsRev := b :: st.segsRev }, some n)
  else
  let chunks := (Aurora.Feeder.write c st.up.feeder b).2.1
  let st := st.memoise chunks
  let (u, n) := st.up.write st.cref c bb b
  let st := st.litStep chunks u
  let st := match st.mode with
    | .small _ _ => { st with entsRev := (chunks.map (leafEntry st.cref)).reverse ++ st.entsRev }
    | _ => st
  ({ st with up := u, segsRev := b :: st.segsRev }.drain, n)

/-- a piece left the ChunkPipe (= one `Read` of `FeedPipeline`): count it, chain its length and digest -/
def St.notePiece (st : St) (p : Bytes) : St :=
  { st with ppN := st.ppN + 1,
            ppH := fnv (Aurora.Cac.le64 st.ppH.toNat ++ Aurora.Cac.le64 p.length ++ Aurora.Cac.le64 (fnv p).toNat) }

/-- `FeedPipeline`: every piece read from the pipe is one `pipeline.Write` -/
def St.feedPieces (st : St) (pieces : List Bytes) : St × Bool :=
  pieces.foldl (fun (acc : St × Bool) p =>
    if !acc.2 then acc else
    let (s, n) := (acc.1.notePiece p).write1 p
    (s, n.isSome)) (st, true)

/-- one `Write` of the uploader: straight into the pipeline, or (`new pipe`) into the ChunkPipe model,
    whose pieces go into the pipeline.  `segsRev` keeps the bytes as the uploader wrote them. -/
def St.userWrite (st : St) (b : Bytes) : St × Option Int :=
  if st.feed then ({ st with segsRev := b :: st.segsRev }, some (b.length : Int)) else
  match st.pipe with
  | none => st.write1 b
  | some c =>
    let segs := st.segsRev
    let (c', pieces, n) := Aurora.ChunkPipe.write C c b
    let (st, ok) := st.feedPieces pieces
    ({ st with pipe := some c', segsRev := b :: segs }, if ok then some (n : Int) else none)

/-- `ChunkPipe.Close()` before `Sum` -/
def St.pipeClose (st : St) : St :=
  match st.pipe with
  | none => st
  | some c =>
    let segs := st.segsRev
    let (st, _) := st.feedPieces (Aurora.ChunkPipe.close c)
    { st with pipe := some {}, segsRev := segs }

/-- the annotated `Read` results of `new feed` mode as slices of the content -/
def parseReads (content : Bytes) (ann : List String) : Option (List Aurora.FeedPipeline.ReadRes) :=
  let r := ann.foldl (fun (acc : Option (Bytes × List Aurora.FeedPipeline.ReadRes × Bool)) tok =>
    match acc with
    | none => none
    | some (rest, rs, sawEof) =>
      if sawEof then none else                  -- a read after `io.EOF`
      let eof := tok.endsWith "e"
      match (if eof then (tok.dropEnd 1).toString else tok).toNat? with
      | none => none
      | some n =>
        if n > C ∨ n > rest.length then none    -- more than the buffer / more than the content holds
        else some (rest.drop n, rs ++ [(rest.take n, eof)], eof)) (some (content, [], false))
  match r with
  | some ([], rs, true) => some rs
  | _ => none

/-- reference of ONE sequential upload of `data` in a single write (`parup`) -/
def seqRef (data : Bytes) : Option Bytes :=
  (Aurora.HashTrie.upload fastBmt C Aurora.Tree.branching [data]).2

def St.ppField (st : St) : String :=
  if st.pipe.isSome then s!" pp={st.ppN}:{hex64 st.ppH}" else ""

def splitEvery (k : Nat) : Nat → Bytes → List Bytes
  | 0, _ => []
  | fuel + 1, l => if l = [] then [] else l.take k :: splitEvery k fuel (l.drop k)

def readOut (n : Nat) (err : Option IoErr) (mem : Bytes) : String :=
  let e := match err with | none => "nil" | some .eof => "eof" | some (.other _) => "err"
  let got := mem.take n
  let desc := if n = 0 then "-" else if n ≤ 24 then Driver.bytesToHex got else "f:" ++ hex64 (fnv got)
  let tail := if (mem.drop n).all (· == 0xEE) then "clean" else "dirty"
  s!"{n} {e} {desc} {tail}"

def lookupFn (st : St) : Bytes → Option Bytes :=
  match st.synth with
  | some sy => sy.lookup
  | none => fun a => st.store.get? a

def encGetRaw (st : St) : Bytes → Except Aurora.Joiner.Err Bytes :=
  Aurora.EncUpload.encGet keccakL encP encR Aurora.Tree.hashBytes (lookupFn st)

def getFn (st : St) : Bytes → Except Aurora.Joiner.Err Bytes :=
  if st.mode.isEnc then
    fun ref => match st.cache.get? ref with
      | some r => r
      | none => encGetRaw st ref
  else storeGet (lookupFn st) (fun _ d => d) Aurora.Tree.hashBytes

def depthFuel : Nat := 12

def splitAnnot (op : List String) : List String × List String :=
  match op.span (· ≠ "|") with
  | (a, _ :: b) => (a, b)
  | (a, []) => (a, [])

/-- the oracle annotation: one `<offset>:<span>:<key>:<padding>` token per chunk -/
def parseOracle (ann : List String) : Option (Std.HashMap (Nat × Nat) (Bytes × Bytes)) :=
  ann.foldl (fun acc tok =>
    match acc with
    | none => none
    | some m =>
      match tok.splitOn ":" with
      | [o, s, k, p] =>
        match o.toNat?, s.toNat?, Driver.hexToBytes k, (if p = "-" then some [] else Driver.hexToBytes p) with
        | some o, some s, some k, some p => if k.length = 32 then some (m.insert (o, s) (k, p)) else none
        | _, _, _, _ => none
      | _ => none) (some {})

/-- memoise `encGet` on every reference reachable from `ref` (each chunk is decrypted once) -/
def warm (st : St) : Nat → Bytes → Std.HashMap Bytes (Except Aurora.Joiner.Err Bytes) →
    Std.HashMap Bytes (Except Aurora.Joiner.Err Bytes)
  | 0, _, cache => cache
  | fuel + 1, ref, cache =>
    if cache.contains ref then cache else
    let r := encGetRaw st ref
    let cache := cache.insert ref r
    match r with
    | .error _ => cache
    | .ok d =>
      let span := fromLe64 d
      let payload := d.drop 8
      if d.length < 8 ∨ span ≤ payload.length then cache
      else (List.range (payload.length / encR)).foldl (fun c i => warm st fuel ((payload.drop (i * encR)).take encR) c) cache

/-- `Sum()` of the encrypted pipeline with the observed oracle -/
def sumEnc (st : St) (ann : List String) : St × String :=
  let (c, bb) := st.params
  if ann.isEmpty then ({ st with summed := true, failed := true }, "no-annot") else
  match parseOracle ann with
  | none => ({ st with summed := true, failed := true }, "bad-annot")
  | some m =>
    let orc : Nat → Nat → Bytes × Bytes := fun o s => (m.get? (o, s)).getD ([], [])
    let (u, r) := Aurora.EncUpload.upload keccakL fastBmt encP encR orc c bb st.segsRev.reverse
    -- an inadmissible draw (wrong padding length / missing position) makes the model of
    -- `EncryptChunk` fail: the stored chunk then is not `8 + ChunkSize` bytes long
    if u.puts.any (fun pd => pd.2.length ≠ 8 + encP) then ({ st with summed := true, failed := true }, "bad-annot") else
    let st := { st with summed := true }
    match r with
    | none => ({ st with failed := true }, "err")
    | some ref =>
      let (store, dig) := u.puts.foldl (fun (acc : Std.HashMap Bytes Bytes × UInt64) pd =>
        (acc.1.insert pd.1 pd.2, acc.2 + fnv (pd.1 ++ Aurora.Cac.le64 pd.2.length))) (st.store, st.pdig)
      let st := { st with store := store, pdig := dig, nputs := u.puts.length, root := some ref }
      (st, s!"ok {Driver.bytesToHex ref} {st.nputs} {hex64 st.pdig}")

def step (st : St) (opl : List String) : St × String :=
  let (op, ann) := splitAnnot opl
  match op with
  | ["new"] => ({ mode := .plain, lit := some (Lit.init ()) }, "ok")
  | ["new", "enc"] => ({ mode := .enc }, "ok")
  | ["new", "synth", seed, size, period] =>
    match seed.toNat?, size.toNat?, period.toNat? with
    | some seed, some size, some period =>
      if period = 0 ∨ period > C ∨ size > 16 * C * 4096 then (st, "bad-op") else
      ({ mode := .synth, synth := some (Synth.mk' seed size period), summed := true,
         root := some (synthAddr 0 size ++ synthKey 0 size) }, "ok")
    | _, _, _ => (st, "bad-op")
  | ["new", "encsmall", c, b] =>
    match c.toNat?, b.toNat? with
    | some c, some b => if c = 0 ∨ c > C ∨ b < 2 ∨ encR * b > encP then (st, "bad-op") else ({ mode := .encsmall c b }, "ok")
    | _, _ => (st, "bad-op")
  | ["new", "feed", shape] =>
    let ok := shape ∈ ["plain", "dataerr", "one", "half", "halfdataerr"] ||
      (shape.startsWith "chunk" && (match (shape.drop 5).toString.toNat? with | some k => k > 0 | none => false))
    if ok then ({ mode := .plain, lit := some (Lit.init ()), feed := true }, "ok") else (st, "bad-op")
  | "parup" :: reps :: srcs =>
    match reps.toNat?, srcs.mapM Driver.parseSrc with
    | some reps, some ds =>
      if reps < 1 ∨ reps > 50 ∨ ds.isEmpty ∨ ds.length > 38 then (st, "bad-op") else
      (st, "ok" ++ String.join (ds.map fun d => match seqRef d with
        | some r => " " ++ Driver.bytesToHex r
        | none => " err"))
    | _, _ => (st, "bad-op")
  | ["new", "pipe"] => ({ mode := .plain, lit := some (Lit.init ()), pipe := some {} }, "ok")
  | ["new", "small", c, b] =>
    match c.toNat?, b.toNat? with
    | some c, some b => if c = 0 ∨ c > C ∨ b < 2 then (st, "bad-op") else
      let l := Lit.init ()
      ({ mode := .small c b, lit := some l }, s!"ok buf={realBufLen} {l.last}")
    | _, _ => (st, "bad-op")
  | ["selftest", src] =>
    match Driver.parseSrc src with
    | none => (st, "bad-op")
    | some d =>
      let sp := Aurora.Cac.le64 d.length
      let a := fastBmt sp d
      let b := Aurora.Cac.hashWith (fun x => (Driver.Fast.keccak ⟨x.toArray⟩).toList) 32 12 (Aurora.Bmt.zeros C) sp d
      let k1 := (Driver.Fast.keccak ⟨d.toArray⟩).toList
      let k2 := (Aurora.Keccak.keccak256 ⟨d.toArray⟩).toList
      (st, if a = b ∧ k1 = k2 then s!"ok {Driver.bytesToHex a}" else "SELFTEST-MISMATCH")
  | _ =>
  if st.mode = .none then (st, "nofile") else
  match op with
  | ["write", src] =>
    if st.summed then (st, "summed") else
    if st.failed then (st, "err") else
    match Driver.parseSrc src with
    | none => (st, "bad-op")
    | some b =>
      let (st, n) := st.userWrite b
      match n with
      | some n =>
        if st.litBad then (st, "BUF-LIST-MISMATCH") else
        let (st, f) := st.litField
        (st, toString n ++ f)
      | none => if st.litBad then (st, "BUF-LIST-MISMATCH") else ({ st with failed := true }, "err")
  | ["leaves", n, span, seed] =>
    match n.toNat?, span.toNat?, seed.toNat? with
    | some n, some span, some seed =>
      if n < 1 ∨ n > 20000 ∨ span ≥ 2 ^ 64 ∨ seed ≥ 2 ^ 32 then (st, "bad-op") else
      match st.mode with
      | .small _ bb =>
        if st.summed then (st, "summed") else
        if st.failed then (st, "err") else
        -- the same (span, reference) leaves as the Go runner: reference i = bytes [32i, 32i+32) of genBytes seed
        let refs := (Driver.genBytes seed (32 * n)).toArray
        let es := (List.range n).map fun i => (⟨span, (refs.extract (32 * i) (32 * i + 32)).toList⟩ : Entry)
        let u := es.foldl (feedEntry st.cref bb) st.up
        let st := { st with leaves := true }.litStepE es 0 u
        let st := { st with up := u, entsRev := es.reverse ++ st.entsRev }.drain
        if st.litBad then (st, "BUF-LIST-MISMATCH") else
        if u.failed then ({ st with failed := true }, "err") else
        let (st, f) := st.litField
        (st, toString n ++ f)
      | _ => (st, "noleaves")
    | _, _, _ => (st, "bad-op")
  | ["writeseg", src, k] =>
    if st.summed then (st, "summed") else
    if st.failed then (st, "err") else
    match Driver.parseSrc src, k.toNat? with
    | some b, some k =>
      if k = 0 then (st, "bad-op") else
      let (st, tot, ok) := (splitEvery k (b.length + 1) b).foldl (fun (acc : St × Int × Bool) seg =>
        if !acc.2.2 then acc else
        let (s, n) := acc.1.userWrite seg
        match n with
        | some n => (s, acc.2.1 + n, true)
        | none => (s, acc.2.1, false)) (st, 0, true)
      if st.litBad then (st, "BUF-LIST-MISMATCH") else
      if ok then
        let (st, f) := st.litField
        (st, toString tot ++ f)
      else ({ st with failed := true }, "err")
    | _, _ => (st, "bad-op")
  | ["sum"] =>
    if st.summed then (st, "summed") else
    if st.failed then (st, "err") else
    if st.mode.isEnc then sumEnc st ann else
    -- `new feed`: FeedPipeline over the observed read results
    let feedRes : Option St :=
      if !st.feed then some st else
      match parseReads st.segsRev.reverse.flatten ann with
      | none => none
      | some rs =>
        let segs := st.segsRev
        let (s, _) := (Aurora.FeedPipeline.writes rs).foldl (fun (acc : St × Bool) p =>
          if !acc.2 then acc else
          let (s, n) := acc.1.write1 p
          (s, n.isSome)) (st, true)
        some { s with segsRev := segs }
    match feedRes with
    | none => ({ st with summed := true, failed := true }, if ann.isEmpty then "no-annot" else "bad-annot")
    | some st =>
    let st := st.pipeClose
    let (c, bb) := st.params
    -- after a `leaves` op `sum` is the hash-trie writer's own `Sum` (the feeder is bypassed)
    let chunks := if st.leaves then [] else (Aurora.Feeder.sum st.up.feeder).2
    let st := st.memoise chunks
    let (u, r) := if st.leaves then (let (u, e) := st.up.sumTrie st.cref bb; (u, e.map Entry.ref)) else st.up.sum st.cref bb
    -- the literal writer: the flushed chunks, then `Sum()`
    let st := st.litStep chunks u false
    let (st, litRef) : St × Option Bytes :=
      match st.lit with
      | none => (st, r)
      | some l =>
        if l.failed then (st, none) else
        match Aurora.HashTrieBuf.trieSum st.litParams l.s with
        | .error _ => ({ st with lit := some l.snap }, none)
        | .ok (ref, s') =>
          let l := { l with s := s' }.snap
          -- all wrapped chunks of this op (flush + `Sum`) against the list model's Put log
          let newSent := s'.sent.drop l.nsent
          let okSent := u.failed ||
            (u.puts.length == chunks.length + newSent.length && isSubseq newSent (u.puts.map (·.2)))
          ({ st with lit := some l, litBad := st.litBad || !okSent }, some ref)
    let st := { st with litBad := st.litBad || litRef != r }
    let st := { st with up := u, summed := true }.drain
    if st.litBad then ({ st with failed := r.isNone }, "BUF-LIST-MISMATCH") else
    match r with
    | none => ({ st with failed := true }, "err")
    | some ref =>
      let data := st.segsRev.reverse.flatten
      -- the format specification: over the bytes, or (after `leaves`) the same bottom-up grouping `rootG`
      -- over the leaf entries the trie was given
      let spec := if st.leaves then
          let es := st.entsRev.reverse
          (rootG (wrapE st.cref) bb es.length es).map Entry.ref
        else Spec.root st.cref c bb data
      let st := { st with root := some ref }
      if spec ≠ some ref then
        (st, s!"SPEC-MISMATCH model={Driver.bytesToHex ref} spec={match spec with | some s => Driver.bytesToHex s | none => "none"}")
      else
        let (st, f) := st.litField
        -- after `leaves`: the span header of the stored root chunk (`-`: the root is a leaf, nothing stored)
        let rs := if !st.leaves then "" else
          match st.store.get? ref with
          | some d => s!" rs={fromLe64 d}"
          | none => " rs=-"
        (st, s!"ok {Driver.bytesToHex ref} {st.nputs} {hex64 st.pdig}" ++ f ++ st.ppField ++ rs)
  | ["open"] =>
    match st.root with
    | none => (st, "nosum")
    | some ref =>
      match st.mode with
      | .small _ _ => (st, "nojoin")
      | .encsmall _ _ => (st, "nojoin")
      | _ =>
        -- synthetic files: only the root and its children are memoised (the tree is not walked)
        let st := if st.mode = .synth then { st with cache := warm st 2 ref st.cache }
          else if st.mode.isEnc then { st with cache := warm st depthFuel ref st.cache } else st
        match Aurora.Joiner.new (getFn st) ref with
        | .error _ => (st, "err")
        | .ok j => ({ st with j := some j }, s!"ok {j.size}")
  | _ =>
  match st.j with
  | none => (st, "noopen")
  | some j =>
    match op with
    | ["size"] => (st, toString j.size)
    | ["readat", off, len, cap] =>
      match off.toNat?, len.toNat?, cap.toNat? with
      | some off, some len, some cap =>
        if cap < len then (st, "bad-op") else
        let r := j.readAt (getFn st) C depthFuel len (List.replicate cap 0xEE) off
        (st, readOut r.n r.err r.mem)
      | _, _, _ => (st, "bad-op")
    | ["read", len, cap] =>
      match len.toNat?, cap.toNat? with
      | some len, some cap =>
        if cap < len then (st, "bad-op") else
        let (j', r) := j.read (getFn st) C depthFuel len (List.replicate cap 0xEE)
        ({ st with j := some j' }, readOut r.n r.err r.mem)
      | _, _ => (st, "bad-op")
    | ["readall"] =>
      if st.mode = .synth then (st, "noreadall") else
      -- `file.JoinReadAll`: ⌈size/C⌉ times `Read` into a C-byte buffer; any error (EOF included) aborts
      let iters := (j.size + C - 1) / C
      let (j', tot, dig, ok) := (List.range iters).foldl (fun (acc : J × Nat × UInt64 × Bool) _ =>
        if !acc.2.2.2 then acc else
        let (j1, r) := acc.1.read (getFn st) C depthFuel C (List.replicate C 0xEE)
        match r.err with
        | some _ => (j1, acc.2.1, acc.2.2.1, false)
        | none => (j1, acc.2.1 + r.n, (r.mem.take r.n).foldl (fun h b => (h ^^^ b.toUInt64) * 0x100000001b3) acc.2.2.1, true))
        (j, 0, 0xcbf29ce484222325, true)
      let st := { st with j := some j' }
      if ok ∧ tot = j.size then (st, s!"{tot} {hex64 dig}") else (st, s!"err {tot}")
    | ["seek", off, wh] =>
      match off.toInt?, wh.toInt? with
      | some off, some wh =>
        let (j', r) := j.seek off wh
        ({ st with j := some j' },
          match r with
          | .pos p => toString p
          | .eof => "eof"
          | .errWhence => "errwhence"
          | .errOffset => "erroffset")
      | _, _ => (st, "bad-op")
    | _ => (st, "bad-op")

def handler : Driver.Handler := { σ := St, init := {}, step := step }

end Driver.File
