import Aurora.Model.Cac
/-!
Model of `/repo/pkg/soc/{soc.go,validator.go}` (single-owner chunks) over

* the base hash `H` (`boson.NewHasher` = legacy Keccak-256; the same function the BMT uses),
* a signature scheme `SigScheme` standing for `/repo/pkg/crypto/signer.go`
  (`defaultSigner.Sign` = EIP-191 prefix + `btcec.SignCompact`, `crypto.Recover` = prefix +
  `btcec.RecoverCompact`, `crypto.NewEthereumAddress`).  Its laws are *hypotheses of theorems*
  (Props/C05); in the correspondence run the harness computes recovery with the real library and
  passes the result to the driver, which instantiates `recover` with that oracle value.

Serialisation of a SOC chunk: `id(32) ‖ signature(65) ‖ span(8) ‖ payload`.
-/
namespace Aurora.Soc
open Aurora.Bmt Aurora.Cac

structure SigScheme where
  SK : Type
  PK : Type
  /-- `signer.PublicKey()` -/
  pub : SK → PK
  /-- `signer.Sign(data)` (EIP-191 prefixed, 65 bytes r‖s‖v) -/
  sign : SK → Bytes → Bytes
  /-- `crypto.Recover(signature, data)` -/
  recover : Bytes → Bytes → Option PK
  /-- `crypto.NewEthereumAddress(pub)` -/
  ethAddr : PK → Bytes

def idSize : Nat := 32
def sigSize : Nat := 65
def addressSize : Nat := 20
/-- `minChunkSize = IdSize + SignatureSize + SpanSize` -/
def minChunkSize : Nat := idSize + sigSize + 8

/-- `soc.SOC` after parsing / signing -/
structure Soc where
  id : Bytes
  owner : Bytes
  sig : Bytes
  chunk : Chunk        -- wrapped content-addressed chunk
deriving Repr, DecidableEq

/-- `CreateAddress(id, owner)` = `hash(id, owner)` -/
def createAddress (H : Bytes → Bytes) (id owner : Bytes) : Bytes := H (id ++ owner)

/-- `(*SOC).address()` -/
def Soc.address (H : Bytes → Bytes) (s : Soc) : Option Bytes :=
  if s.owner.length ≠ addressSize then none else some (createAddress H s.id s.owner)

/-- `(*SOC).toBytes()` -/
def Soc.toBytes (s : Soc) : Bytes := s.id ++ s.sig ++ s.chunk.data

/-- `(*SOC).Chunk()` -/
def Soc.toChunk (H : Bytes → Bytes) (s : Soc) : Option Chunk :=
  match s.address H with
  | none => none
  | some a => some { addr := a, data := s.toBytes }

/-- `soc.New(id, ch).Sign(signer)` -/
def sign (S : SigScheme) (H : Bytes → Bytes) (k : S.SK) (id : Bytes) (ch : Chunk) : Option Chunk :=
  let owner := S.ethAddr (S.pub k)
  if owner.length ≠ addressSize then none
  else
    let toSign := H (id ++ ch.addr)
    let sig := S.sign k toSign
    Soc.toChunk H { id := id, owner := owner, sig := sig, chunk := ch }

/-- `recoverAddress(signature, digest)`: the owner address recovered from the signature.  Recovery
    bytes above 30 (btcec's "compressed key" variants 31..34 of 27..30, which recover the same key)
    are rejected — the `fix:` of C05. -/
def recoverAddress (S : SigScheme) (sig digest : Bytes) : Option Bytes :=
  if sig.length = sigSize ∧ (sig.getD (sigSize - 1) 0).toNat > 30 then none
  else
    match S.recover sig digest with
    | none => none
    | some pk => some (S.ethAddr pk)

/-- `soc.FromChunk(sch)` on the chunk's data -/
def fromChunk (S : SigScheme) (H : Bytes → Bytes) (seg d : Nat) (stale : Bytes) (data : Bytes) : Option Soc :=
  if data.length < minChunkSize then none
  else
    let id := data.take idSize
    let sig := (data.drop idSize).take sigSize
    match newWithDataSpan H seg d stale (data.drop (idSize + sigSize)) with
    | .error _ => none
    | .ok ch =>
      let toSign := H (id ++ ch.addr)
      match recoverAddress S sig toSign with
      | none => none
      | some owner =>
        if owner.length ≠ addressSize then none
        else some { id := id, owner := owner, sig := sig, chunk := ch }

/-- `soc.Valid(ch)` -/
def valid (S : SigScheme) (H : Bytes → Bytes) (seg d : Nat) (stale : Bytes) (c : Chunk) : Bool :=
  match fromChunk S H seg d stale c.data with
  | none => false
  | some s =>
    match s.address H with
    | none => false
    | some a => c.addr == a

end Aurora.Soc
