import Aurora.Lemmas.Traversal
/-!
# C09 — Traversal reports exactly the chunks of a file or directory

Property theorems only (lemmas: `Aurora/Lemmas/Traversal.lean`; model: `Aurora/Model/Traversal.lean`,
a transcription of `joiner.IterateChunkAddresses/processChunkAddresses`, `traversal.Traverse /
GetPyramid / GetChunkHashes` and `manifest.IterateAddresses` after the `fix:` commit that reports
`ref[:HashSize]`).  The model runs over a chunk *store* and recomputes the shape of the tree from
spans alone (`subtrieSection`); the theorems say that on every well-formed tree `t` (`WF`: what the
upload pipeline writes — any height up to 64, any number of chunks) whose intermediate chunks are in
the store, it reports exactly the chunks of `t`.  They are stated for an arbitrary chunk size `C`,
hash size `hs` and reference size `R ∈ {hs, 2*hs}` (plain / encrypted; branching `B = C / R ≥ 2`);
the address of a chunk is the first `hs` bytes of its reference.

Hypotheses: `Stored`/`RootStored` — looking up the address of each intermediate chunk of `t` yields
that chunk (this is where collision freedom of the chunk hash enters: two different chunks under one
address would make it unsatisfiable); decryption is inside the store view.
-/
namespace Aurora.Traversal

variable {C hs R B H : Nat} {store : Store} {t : Tree}

/-- The span arithmetic the traversal relies on: on a node whose first `m ≥ 1` children are full
    (`C * B^h` bytes) and whose last child has `0 < l ≤ C * B^h` bytes, `subtrieSection` returns the
    true size of every child — so "data chunk iff `sec ≤ C`" classifies correctly. -/
theorem C09_subtrieSection_child_size (m l h i : Nat) (hR : 0 < R) (hBdef : C / R = B) (hB : 2 ≤ B)
    (hm : 1 ≤ m) (hl0 : 0 < l) (hl : l ≤ C * B ^ h) (hh : h < 64) (hi : i ≤ m) :
    subtrieSection C ((m + 1) * R) (i * R) R (m * (C * B ^ h) + l) = if i = m then l else C * B ^ h :=
  subtrieSection_spec C R B m l h i hR hBdef hB hm hl0 hl hh hi

/-- Clause "reports every chunk written for it and no chunk outside it" for a file: the sequence of
    addresses handed to the callback is exactly the list of all chunks of the tree — the root
    first, then every child followed by everything below it (equal as lists, hence as multisets). -/
theorem C09_iterate_eq_chunks (se : Bool) (hR : R = hs ∨ R = 2 * hs) (hR0 : 0 < R) (hBdef : C / R = B)
    (hB : 2 ≤ B) (w : WF C B R H t) (hH : H ≤ 64) (hst : Stored hs store t)
    (hroot : RootStored hs store t) :
    ∃ r, iterate C hs se store t.ref = .ok r ∧ r.reported = t.chunks hs ∧
      r.reported.head? = some (t.addr hs) :=
  ⟨_, iterate_wf hR hR0 hBdef hB w hH hst hroot, rfl, rfl⟩

/-- Clause "data-chunk lists and the pyramid set are subsets of the written chunks and together
    cover all of them": the data-chunk list is the list of leaves (left to right; the root itself
    for a single-chunk file), the `edgeChunks` insertions are the intermediate chunks below the
    root, `GetPyramid`'s key list is root + those, every chunk is in one of the two, nothing else
    is, and for multi-chunk files the two lists partition the chunk list exactly. -/
theorem C09_data_and_edge_partition (hR : R = hs ∨ R = 2 * hs) (hR0 : 0 < R) (hBdef : C / R = B)
    (hB : 2 ≤ B) (w : WF C B R H t) (hH : H ≤ 64) (hst : Stored hs store t)
    (hroot : RootStored hs store t) :
    (∃ r, iterate C hs true store t.ref = .ok r ∧ r.data = t.dataChunks hs ∧
        r.edges.map (·.1) = t.innerBelow hs) ∧
    (∃ r, iterate C hs false store t.ref = .ok r ∧ r.data = t.dataChunks hs ∧ r.edges = []) ∧
    pyramidKeys C hs store t.ref = .ok (t.addr hs :: t.innerBelow hs) ∧
    (∀ a, a ∈ t.chunks hs ↔ (a ∈ t.addr hs :: t.innerBelow hs ∨ a ∈ t.dataChunks hs)) ∧
    (t.isLeaf = false → List.Perm (t.addr hs :: (t.innerBelow hs ++ t.dataChunks hs)) (t.chunks hs)) := by
  have hT := iterate_wf (se := true) hR hR0 hBdef hB w hH hst hroot
  have hF := iterate_wf (se := false) hR hR0 hBdef hB w hH hst hroot
  refine ⟨⟨_, hT, rfl, edges_fst_true hs t⟩, ⟨_, hF, rfl, edges_false hs t⟩, ?_, ?_, ?_⟩
  · -- GetPyramid
    have hlen := w.ref_length
    have hc : ¬ (t.ref.length ≠ hs ∧ t.ref.length ≠ 2 * hs) := by rw [hlen]; omega
    unfold pyramidKeys
    simp only [hc, if_false]
    have hleaf := w.leaf_iff (by omega)
    cases t with
    | leaf r sz =>
      obtain ⟨d, hg, _⟩ := hroot
      have : ¬ sz > C := by simp [Tree.size, Tree.isLeaf] at hleaf; omega
      simp only [Tree.ref] at hg ⊢
      simp [hg, this, Tree.addr, Tree.ref, Tree.innerBelow]
    | node r sp kids =>
      have : sp > C := by simp [Tree.size, Tree.isLeaf] at hleaf; omega
      simp only [RootStored] at hroot
      simp only [Tree.ref] at hroot hT ⊢
      simp [hroot, this, hT, Tree.addr, Tree.ref, edges_fst_true]
  · intro a
    have hp := (perm_under hs t).mem_iff (a := a)
    cases t with
    | leaf r sz => simp [Tree.chunks, Tree.under, Tree.innerBelow, Tree.dataChunks, Tree.addr, Tree.ref]
    | node r sp kids =>
      simp only [Tree.chunks, Tree.dataChunks, List.mem_cons, List.mem_append] at hp ⊢
      rw [← hp]; simp [or_assoc]
  · intro hl
    cases t with
    | leaf r sz => simp [Tree.isLeaf] at hl
    | node r sp kids => exact List.Perm.cons _ (perm_under hs _)

/-- what the manifest theorems assume about a reference `r` handed to the file traversal: it is the
    reference of a well-formed stored tree `tree r` (a manifest node blob or an entry's file) -/
def GoodRef (C hs : Nat) (store : Store) (tree : Bytes → Tree) (r : Bytes) : Prop :=
  (tree r).ref = r ∧ ∃ R B H, (R = hs ∨ R = 2 * hs) ∧ 0 < R ∧ C / R = B ∧ 2 ≤ B ∧
    WF C B R H (tree r) ∧ H ≤ 64 ∧ Stored hs store (tree r) ∧ RootStored hs store (tree r)

/-- Clause "directory manifests": `Traverse` of a manifest reports, for every manifest node (in
    walk order) the chunks of the node's blob and — for value nodes with a non-zero entry — the
    chunks of the entry's file, and nothing else. -/
theorem C09_manifest_traverse_cover (m : MNode) (tree : Bytes → Tree)
    (hgood : ∀ r ∈ m.refs hs, GoodRef C hs store tree r) :
    traverseManifest C hs store m = .ok ((m.refs hs).flatMap (fun r => (tree r).chunks hs)) := by
  unfold traverseManifest
  apply mapRefs_ok
  intro r hr
  obtain ⟨href, R, B, H, hR, hR0, hBdef, hB, w, hH, hst, hroot⟩ := hgood r hr
  have := iterate_wf (se := false) hR hR0 hBdef hB w hH hst hroot
  rw [href] at this
  simp [this, Except.map]

/-- Manifests, pyramid and data lists: `GetPyramid` yields root + intermediate chunks of every node
    blob and entry file; `GetChunkHashes(ref, nil)` yields one leaf list per file entry (value nodes
    whose path is non-empty and does not end in `/`, depth first in fork order). -/
theorem C09_manifest_pyramid_and_data (m : MNode) (tree : Bytes → Tree)
    (hgood : ∀ r ∈ m.refs hs, GoodRef C hs store tree r)
    (hfiles : ∀ r ∈ m.files [] [], GoodRef C hs store tree r) :
    pyramidManifest C hs store m =
      .ok ((m.refs hs).flatMap (fun r => (tree r).addr hs :: (tree r).innerBelow hs)) ∧
    hashesManifest C hs store m = .ok ((m.files [] []).map (fun r => (tree r).dataChunks hs)) := by
  constructor
  · unfold pyramidManifest
    apply mapRefs_ok
    intro r hr
    obtain ⟨href, R, B, H, hR, hR0, hBdef, hB, w, hH, hst, hroot⟩ := hgood r hr
    have := (C09_data_and_edge_partition hR hR0 hBdef hB w hH hst hroot).2.2.1
    rw [href] at this
    exact this
  · unfold hashesManifest
    have := mapRefs_ok (fun r => (iterate C hs false store r).map (fun x => [x.data]))
      (fun r => [(tree r).dataChunks hs]) (m.files [] []) (by
        intro r hr
        obtain ⟨href, R, B, H, hR, hR0, hBdef, hB, w, hH, hst, hroot⟩ := hfiles r hr
        have := iterate_wf (se := false) hR hR0 hBdef hB w hH hst hroot
        rw [href] at this
        simp [this, Except.map])
    rw [this]
    congr 1
    induction (m.files [] []) with
    | nil => rfl
    | cons a l ih => simp [List.flatMap_cons, ih]

/-! ## Non-vacuity: the hypotheses are satisfiable for both reference sizes -/

/-- plain references (`R = hs = 1`, `C = 4`, `B = 4`): a two-level file of 4+4+1 bytes … -/
def exPlain : Tree := .node [9] 9 [.leaf [1] 4, .leaf [2] 4, .leaf [3] 1]
def exPlainStore : Store := [([9], ⟨9, [1, 2, 3]⟩)]

example : WF 4 4 1 1 exPlain :=
  WF.node [9] 9 [.leaf [1] 4, .leaf [2] 4] (.leaf [3] 1) 0 0 rfl (by simp) (by simp)
    (by intro k hk; simp at hk; rcases hk with rfl | rfl <;> exact WF.leaf _ _ rfl (by omega))
    (by intro k hk; simp at hk; rcases hk with rfl | rfl <;> rfl)
    (Nat.le_refl _) (WF.leaf _ _ rfl (by omega)) (by simp [Tree.size]) (by simp [Tree.size]) (by simp [Tree.size])

example : Stored 1 exPlainStore exPlain :=
  Stored.node _ _ _ (by intro k hk; simp at hk; rcases hk with rfl | rfl | rfl <;> exact Stored.leaf _ _)
    (by intro k hk; simp at hk; rcases hk with rfl | rfl | rfl <;> simp [Tree.isLeaf])

example : RootStored 1 exPlainStore exPlain := by
  show exPlainStore.get _ = some _
  rfl

example : (iterate 4 1 true exPlainStore [9]).toOption.map (·.reported) = some [[9], [1], [2], [3]] := by decide

/-- encrypted references (`R = 2*hs = 2`, `C = 4`, `B = 2`): address ‖ key -/
def exEnc : Tree := .node [9, 70] 6 [.leaf [1, 71] 4, .leaf [2, 72] 2]
def exEncStore : Store := [([9], ⟨6, [1, 71, 2, 72]⟩)]

example : WF 4 2 2 1 exEnc :=
  WF.node [9, 70] 6 [.leaf [1, 71] 4] (.leaf [2, 72] 2) 0 0 rfl (by simp) (by simp)
    (by intro k hk; simp at hk; subst hk; exact WF.leaf _ _ rfl (by omega))
    (by intro k hk; simp at hk; subst hk; rfl)
    (Nat.le_refl _) (WF.leaf _ _ rfl (by omega)) (by simp [Tree.size]) (by simp [Tree.size]) (by simp [Tree.size])

example : (iterate 4 1 true exEncStore [9, 70]).toOption.map (·.reported) = some [[9], [1], [2]] := by decide

/-- a three-level tree with a carried-up last reference (`C = 2`, `R = 1`, `B = 2`):
    sizes 2+2 | 1 — the last child of the root is a leaf two levels lower -/
def exDeep : Tree := .node [9] 5 [.node [8] 4 [.leaf [1] 2, .leaf [2] 2], .leaf [3] 1]

example : WF 2 2 1 2 exDeep :=
  WF.node [9] 5 [.node [8] 4 [.leaf [1] 2, .leaf [2] 2]] (.leaf [3] 1) 1 0 rfl (by simp) (by simp)
    (by
      intro k hk; simp at hk; subst hk
      exact WF.node [8] 4 [.leaf [1] 2] (.leaf [2] 2) 0 0 rfl (by simp) (by simp)
        (by intro k hk; simp at hk; subst hk; exact WF.leaf _ _ rfl (by omega))
        (by intro k hk; simp at hk; subst hk; rfl)
        (Nat.le_refl _) (WF.leaf _ _ rfl (by omega)) (by simp [Tree.size]) (by simp [Tree.size]) (by simp [Tree.size]))
    (by intro k hk; simp at hk; subst hk; rfl)
    (by omega) (WF.leaf _ _ rfl (by omega)) (by simp [Tree.size]) (by simp [Tree.size]) (by simp [Tree.size])

end Aurora.Traversal
