// Package c25: correspondence + oracle for the internal libp2p blocklist (property C25).
package c25

import (
	"fmt"
	"io/ioutil"
	"math"
	"sort"
	"strconv"
	"strings"
	"time"

	"github.com/gauss-project/aurorafs/pkg/boson"
	"github.com/gauss-project/aurorafs/pkg/logging"
	"github.com/gauss-project/aurorafs/pkg/p2p/libp2p/verifexport"
	ldb "github.com/gauss-project/aurorafs/pkg/statestore/leveldb"
	"github.com/gauss-project/aurorafs/pkg/storage"

	"verifharness/core"
)

type prop struct{}

func init() { core.Register(prop{}) }

func (prop) ID() string { return "C25" }
func (prop) Rule() string {
	return "cases: 6-40 ops over 1-4 addresses on a fresh in-memory leveldb state store with a pinned clock: add a d with d in {0,1ns,1s,1h,max int64, " +
		"random < 1e13, negative (-1,-5,-1s; min int64 in a fixed case)}, remove, exists, peers (usually followed by exists of every address), tick dt with dt chosen to land on " +
		"expiry-1ns / expiry / expiry+1ns of some live entry (half of the ticks), 0, or random. Clock is monotone (dt >= 0). " +
		"Non-trivial: >=2 adds, >=1 tick and >=2 observations (exists/peers); distinct by op-list hash."
}

var addrs = []string{"aa", "ab01", "c0ffee", "00"}

const maxDur = int64(math.MaxInt64)

func (prop) Gen(r *core.Rand, tier string) []core.Case {
	n := 600
	if tier == "thorough" {
		n = 5000
	}
	cs := []core.Case{
		{ID: "fix-boundary", NT: true, Ops: []string{"add aa 1000000000", "tick 999999999", "exists aa", "tick 1", "exists aa", "peers", "tick 1", "peers", "exists aa", "peers"}},
		{ID: "fix-never-shortens", NT: true, Ops: []string{"add aa 3600000000000", "tick 5", "add aa 1", "tick 3599999999995", "exists aa", "tick 1", "exists aa", "peers"}},
		{ID: "fix-zero-forever", NT: true, Ops: []string{"add aa 0", "tick 3600000000000", "add aa 1", "tick 3600000000000", "exists aa", "peers", "remove aa", "exists aa", "peers"}},
		{ID: "fix-zero-after", NT: true, Ops: []string{"add aa 1", "add aa 0", "tick 10", "exists aa", "peers"}},
		{ID: "fix-negative", NT: true, Ops: []string{"add aa -5000000000", "peers", "exists aa", "add aa -9223372036854775808", "peers", "exists aa",
			"add ab01 3600000000000", "add ab01 -5", "tick 10", "exists ab01", "peers", "add c0ffee -1", "exists c0ffee", "add c0ffee -1", "add c0ffee 7", "tick 7", "exists c0ffee", "tick 1", "exists c0ffee"}},
		{ID: "fix-lazy-delete", NT: true, Ops: []string{"add aa 3600000000000", "tick 7200000000000", "exists aa", "add aa 1000000000", "tick 1000000001", "exists aa",
			"add ab01 3600000000000", "tick 7200000000000", "add ab01 1000000000", "tick 1000000001", "exists ab01", "peers"}},
		{ID: "fix-max", NT: true, Ops: []string{"add aa 9223372036854775807", "tick 86400000000000", "exists aa", "peers", "add aa 5", "tick 6", "exists aa", "peers"}},
		{ID: "fix-bad", NT: false, Ops: []string{"add zz 5", "exists", "tick -1", "add aa x", "peers 1", "remove q"}},
	}
	for i := 0; i < n; i++ {
		c := core.Case{ID: fmt.Sprintf("g%d", i)}
		na := r.Range(1, len(addrs))
		// generator-side shadow of live entries, only to aim ticks at expiry boundaries
		type ent struct{ ts, dur int64 }
		live := map[string]ent{}
		var now int64
		adds, ticks, obs := 0, 0, 0
		nops := r.Range(6, 40)
		for k := 0; k < nops; k++ {
			a := addrs[r.Intn(na)]
			switch x := r.Intn(20); {
			case x < 6:
				var d int64
				switch r.Intn(12) {
				case 0, 1:
					d = 0
				case 2:
					d = 1
				case 3, 4:
					d = 1e9
				case 5:
					d = 3600e9
				case 6:
					d = maxDur
				case 7:
					d = []int64{-1, -5, -1e9, -2}[r.Intn(4)]
				default:
					d = int64(r.U64() % 1e13)
					if r.Bool() {
						d = int64(r.U64() % 2000)
					}
				}
				c.Ops = append(c.Ops, fmt.Sprintf("add %s %d", a, d))
				old, ok := live[a]
				nd := d
				if ok && (d < old.dur && d != 0 || old.dur == 0) {
					nd = old.dur
				}
				live[a] = ent{now, nd}
				adds++
			case x < 8:
				c.Ops = append(c.Ops, "remove "+a)
				delete(live, a)
			case x < 11:
				c.Ops = append(c.Ops, "exists "+a)
				obs++
			case x < 13:
				c.Ops = append(c.Ops, "peers")
				obs++
				if r.Chance(70) {
					for j := 0; j < na; j++ {
						c.Ops = append(c.Ops, "exists "+addrs[j])
					}
				}
			default:
				var dt int64
				var cands []int64
				for _, e := range live {
					if e.dur > 0 && e.dur < 1e15 {
						end := e.ts + e.dur
						for _, t := range []int64{end - 1, end, end + 1} {
							if t >= now {
								cands = append(cands, t-now)
							}
						}
					}
				}
				switch {
				case len(cands) > 0 && r.Chance(60):
					dt = cands[r.Intn(len(cands))]
				case r.Chance(15):
					dt = 0
				case r.Chance(50):
					dt = int64(r.U64() % 3000)
				default:
					dt = int64(r.U64() % 2e13)
				}
				c.Ops = append(c.Ops, fmt.Sprintf("tick %d", dt))
				now += dt
				ticks++
			}
		}
		c.NT = adds >= 2 && ticks >= 1 && obs >= 2
		cs = append(cs, c)
	}
	return cs
}

var base = time.Unix(1700000000, 0).UTC()

// per-address history kept by the model-free oracle
type hist struct {
	everAdded    bool
	removedSince bool       // an explicit Remove happened after the last Add
	lastAdd      int64      // time of the last Add
	maxDur       int64      // longest duration requested since the last Remove
	forever      bool       // a zero duration was requested since the last Remove
	reqs         [][2]int64 // (t, d) of every Add since the last Remove, d >= 0
}

type runner struct {
	bl          *verifexport.Blocklist
	st          storage.StateStorer
	now         int64
	h           map[string]*hist
	lastPeers   map[string]bool // membership of the last Peers() answer …
	lastPeersAt int64           // … taken at this time
	lastPeersOK map[string]bool // address not mutated since
}

func (prop) New() core.Runner {
	st, err := ldb.NewInMemoryStateStore(logging.New(ioutil.Discard, 0))
	if err != nil {
		panic(err)
	}
	rn := &runner{st: st, bl: verifexport.NewBlocklist(st), h: map[string]*hist{}}
	verifexport.SetBlocklistTimeNow(func() time.Time { return base.Add(time.Duration(rn.now)) })
	return rn
}
func (rn *runner) Close() { rn.st.Close() }

func validAddr(a string) bool {
	if len(a) == 0 || len(a)%2 != 0 {
		return false
	}
	for _, c := range a {
		if !(c >= '0' && c <= '9' || c >= 'a' && c <= 'f') {
			return false
		}
	}
	return true
}

// checkBlocked evaluates the property clauses on one observation "a is (not) blocked at rn.now".
func (rn *runner) checkBlocked(ctx *core.Ctx, a string, blocked bool, via string) {
	h := rn.h[a]
	if h == nil || !h.everAdded {
		if blocked {
			ctx.Fail("blocked-never-added/"+via, "%s reported blocked but was never added", a)
		}
		return
	}
	if h.removedSince {
		if blocked {
			ctx.Fail("blocked-after-remove/"+via, "%s reported blocked after Remove with no later Add", a)
		}
		return
	}
	if blocked {
		if !h.forever {
			// never beyond latest request + longest duration since last removal
			if h.maxDur < maxDur-h.lastAdd && rn.now > h.lastAdd+h.maxDur {
				ctx.Fail("blocked-beyond-bound/"+via, "%s blocked at %d > lastAdd %d + maxDur %d", a, rn.now, h.lastAdd, h.maxDur)
			}
		}
		return
	}
	// not blocked: no requested period may cover now
	for _, q := range h.reqs {
		t, d := q[0], q[1]
		if d == 0 {
			ctx.Fail("zero-not-forever/"+via, "%s not blocked at %d although duration 0 was requested at %d", a, rn.now, t)
			return
		}
		if rn.now >= t && (d >= maxDur-t || rn.now <= t+d) {
			clause := "unblocked-during-request/"
			if t != h.lastAdd {
				clause = "shortened-by-later-add/"
			}
			ctx.Fail(clause+via, "%s not blocked at %d inside requested period [%d,%d+%d]", a, rn.now, t, t, d)
			return
		}
	}
}

func (rn *runner) Step(ctx *core.Ctx, op []string) string {
	switch {
	case len(op) == 3 && op[0] == "add":
		d, err := strconv.ParseInt(op[2], 10, 64)
		if err != nil || !validAddr(op[1]) {
			return "bad-op"
		}
		if e := rn.bl.Add(boson.MustParseHexAddress(op[1]), time.Duration(d)); e != nil {
			return "err"
		}
		h := rn.h[op[1]]
		if h == nil {
			h = &hist{}
			rn.h[op[1]] = h
		}
		if !h.everAdded || h.removedSince {
			h.maxDur, h.forever, h.reqs = d, false, nil
		} else if d > h.maxDur {
			h.maxDur = d
		}
		h.everAdded, h.removedSince, h.lastAdd = true, false, rn.now
		if d == 0 {
			h.forever = true
		}
		if d >= 0 {
			h.reqs = append(h.reqs, [2]int64{rn.now, d})
		}
		delete(rn.lastPeersOK, op[1])
		return "ok"
	case len(op) == 2 && op[0] == "remove":
		if !validAddr(op[1]) {
			return "bad-op"
		}
		if e := rn.bl.Remove(boson.MustParseHexAddress(op[1])); e != nil {
			return "err"
		}
		if h := rn.h[op[1]]; h != nil {
			h.removedSince = true
		}
		delete(rn.lastPeersOK, op[1])
		return "ok"
	case len(op) == 2 && op[0] == "exists":
		if !validAddr(op[1]) {
			return "bad-op"
		}
		ex, e := rn.bl.Exists(boson.MustParseHexAddress(op[1]))
		if e != nil {
			return "err"
		}
		rn.checkBlocked(ctx, op[1], ex, "exists")
		if rn.lastPeers != nil && rn.lastPeersAt == rn.now && rn.lastPeersOK[op[1]] && rn.lastPeers[op[1]] != ex {
			ctx.Fail("peers-disagrees-exists", "Peers() listed %s = %v but Exists = %v at the same time %d", op[1], rn.lastPeers[op[1]], ex, rn.now)
		}
		return core.B(ex)
	case len(op) == 1 && op[0] == "peers":
		ps, e := rn.bl.Peers()
		if e != nil {
			return "err"
		}
		type row struct{ a, s string }
		var out []row
		rn.lastPeers, rn.lastPeersAt, rn.lastPeersOK = map[string]bool{}, rn.now, map[string]bool{}
		seen := map[string]bool{}
		for _, p := range ps {
			a := p.Address.String()
			if seen[a] {
				ctx.Fail("peers-duplicate", "%s listed twice", a)
			}
			seen[a] = true
			rn.lastPeers[a] = true
			ts, err := time.Parse(time.RFC3339, p.Timestamp)
			tss := "?"
			if err == nil {
				tss = strconv.FormatInt(ts.Unix()-base.Unix(), 10)
			}
			dns := math.Round(p.Duration * 1e9)
			ds := "max"
			if dns < 9.2e18 {
				ds = strconv.FormatInt(int64(dns), 10)
			}
			out = append(out, row{a, a + ":" + tss + ":" + ds})
			rn.checkBlocked(ctx, a, true, "peers")
		}
		for a := range rn.h {
			rn.lastPeersOK[a] = true
			if !seen[a] {
				rn.checkBlocked(ctx, a, false, "peers")
			}
		}
		if len(out) == 0 {
			return "-"
		}
		sort.Slice(out, func(i, j int) bool { return out[i].a < out[j].a })
		ss := make([]string, len(out))
		for i := range out {
			ss[i] = out[i].s
		}
		return strings.Join(ss, ",")
	case len(op) == 2 && op[0] == "tick":
		dt, err := strconv.ParseUint(op[1], 10, 62)
		if err != nil {
			return "bad-op"
		}
		rn.now += int64(dt)
		return "ok"
	}
	return "bad-op"
}
