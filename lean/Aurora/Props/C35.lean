import Aurora.Model.Auth
/-!
# C35 — API access tokens are checked soundly

Model: `Aurora/Model/Auth.lean` (transcription of `/repo/pkg/auth/auth.go` after the `fix:` length
check, and of `PermissionCheckHandler`).  The primitives — base64, AES-GCM, JSON — are the fields
of `Env`; their laws are *hypotheses* below (never axioms) and each is instantiated by the toy
scheme `toyEnv` at the end of the file (non-vacuity).  The policy table is
`Aurora.Generated.AuthPolicy.policy`, regenerated from the `AddPolicies` literal on every run.
All statements are for every token byte string, path, method, role, time and duration.
-/
namespace Aurora.Auth

/-- what "the token opens under this node's key" means: the string base64-decodes to
    `nonce ‖ ct` with a 12-byte nonce, AES-GCM opens it, and the plaintext is the record `r` -/
def Authentic (E : Env) (tok : Bytes) (r : Rec) : Prop :=
  ∃ nonce ct pt, E.dec tok = some (nonce ++ ct) ∧ nonce.length = nonceSize ∧
    E.aopen nonce ct = some pt ∧ E.parse pt = some r

/-- "the role's policy allows path and method": some row of the table has this role (or the role
    is `master`), its object pattern key-matches the path with or without the `/v1` prefix, and one
    alternative of its method pattern occurs in the method -/
def PolicyAllows (pol : List Row) (role obj act : Bytes) : Prop :=
  ∃ p ∈ pol, (role = p.sub ∨ role = master) ∧
    (keyMatch obj p.obj = true ∨ keyMatch obj (v1 ++ p.obj) = true) ∧
    ∃ l ∈ p.acts, isInfix l act = true

theorem readToken_ok_iff (E : Env) (tok : Bytes) (r : Rec) :
    readToken E tok = .ok r ↔ Authentic E tok r := by
  unfold readToken Authentic decrypt splitChecked
  constructor
  · intro h
    cases hd : E.dec tok with
    | none => simp [hd] at h
    | some data =>
      simp only [hd] at h
      by_cases hl : data.length < nonceSize
      · simp [hl] at h
      · have hle : nonceSize ≤ data.length := by omega
        simp only [hl, hle, if_true, if_false] at h
        cases ho : E.aopen (data.take nonceSize) (data.drop nonceSize) with
        | none => simp [ho] at h
        | some pt =>
          simp only [ho] at h
          cases hp : E.parse pt with
          | none => simp [hp] at h
          | some r' =>
            simp only [hp, Res.ok.injEq] at h
            subst h
            exact ⟨data.take nonceSize, data.drop nonceSize, pt, by simp, by simp; omega, ho, hp⟩
  · rintro ⟨nonce, ct, pt, hd, hn, ho, hp⟩
    have hl : ¬ (nonce ++ ct).length < nonceSize := by simp; omega
    have hle : nonceSize ≤ (nonce ++ ct).length := by simp; omega
    have ht : (nonce ++ ct).take nonceSize = nonce := by simp [← hn]
    have hdr : (nonce ++ ct).drop nonceSize = ct := by simp [← hn]
    simp only [hd, hl, hle, if_true, if_false, ht, hdr, ho, hp]

theorem allows_iff (pol : List Row) (role obj act : Bytes) :
    allows pol role obj act = true ↔ PolicyAllows pol role obj act := by
  unfold allows PolicyAllows rowMatches regexMatch
  simp only [List.any_eq_true, Bool.and_eq_true, Bool.or_eq_true, beq_iff_eq]
  constructor
  · rintro ⟨p, hp, ⟨h1, h2⟩, l, hl, h3⟩
    exact ⟨p, hp, h1, h2, l, hl, h3⟩
  · rintro ⟨p, hp, h1, h2, l, hl, h3⟩
    exact ⟨p, hp, ⟨h1, h2⟩, l, hl, h3⟩

/-- **Soundness of `Enforce`.**  A request is allowed only if the token opens under this node's
    key to a record `r` (authentic), `r` has not expired at the time of the check, and the policy
    table allows `r`'s role on the requested path and method. -/
theorem C35_enforce_sound (E : Env) (pol : List Row) (now : Int) (tok obj act : Bytes)
    (h : enforce E pol now tok obj act = .ok true) :
    ∃ r, Authentic E tok r ∧ now ≤ r.expiry ∧ PolicyAllows pol r.role obj act := by
  unfold enforce at h
  cases hr : readToken E tok with
  | err e => simp [hr] at h
  | panic => simp [hr] at h
  | ok r =>
    simp only [hr] at h
    by_cases hx : now > r.expiry
    · simp [hx] at h
    · simp only [hx, if_false, Res.ok.injEq] at h
      exact ⟨r, (readToken_ok_iff E tok r).1 hr, by omega, (allows_iff pol r.role obj act).1 h⟩

/-- **"Issued with this node's key and not altered"** under ciphertext integrity of the AEAD
    (hypothesis `hint`: whatever opens was sealed by the node, i.e. it is `seal nonce pt` for a
    pair `(nonce, pt)` in the set `issued` of the node's own seal calls): an allowed token decodes
    to exactly an issued sealed blob. -/
theorem C35_enforce_issued (E : Env) (issued : Bytes → Bytes → Prop)
    (hint : ∀ n c p, E.aopen n c = some p → issued n p ∧ c = E.aseal n p)
    (pol : List Row) (now : Int) (tok obj act : Bytes)
    (h : enforce E pol now tok obj act = .ok true) :
    ∃ nonce pt r, issued nonce pt ∧ E.dec tok = some (nonce ++ E.aseal nonce pt) ∧
      E.parse pt = some r ∧ now ≤ r.expiry ∧ PolicyAllows pol r.role obj act := by
  obtain ⟨r, ⟨nonce, ct, pt, hd, _, ho, hp⟩, he, hpa⟩ := C35_enforce_sound E pol now tok obj act h
  obtain ⟨hi, hc⟩ := hint nonce ct pt ho
  exact ⟨nonce, pt, r, hi, by rw [hd, hc], hp, he, hpa⟩

/-- An allowed request through `PermissionCheckHandler` (status 200) is an allowed `Enforce`. -/
theorem C35_handler_sound (E : Env) (pol : List Row) (now : Int) (tok obj act : Bytes)
    (h : handlerStatus E pol now tok obj act = 200) :
    enforce E pol now tok obj act = .ok true := by
  unfold handlerStatus at h
  split at h
  · omega
  · split at h
    · omega
    · split at h <;> first | omega | assumption

/-- the laws of the primitives used by the refresh theorems -/
structure Laws (E : Env) : Prop where
  dec_enc : ∀ x, E.dec (E.enc x) = some x
  open_seal : ∀ n p, E.aopen n (E.aseal n p) = some p
  parse_marshal : ∀ r, E.parse (E.marshal r) = some r

theorem readToken_mkToken (E : Env) (L : Laws E) (nonce : Bytes) (hn : nonce.length = nonceSize) (r : Rec) :
    readToken E (mkToken E nonce r) = .ok r :=
  (readToken_ok_iff E _ r).2 ⟨nonce, E.aseal nonce (E.marshal r), E.marshal r,
    L.dec_enc _, hn, L.open_seal _ _, L.parse_marshal r⟩

/-- `GenerateKey` produces a token that reads back as the requested role with expiry
    `now + dur` seconds; the only rejected duration is 0. -/
theorem C35_generate_spec (E : Env) (L : Laws E) (now : Int) (role : Bytes) (dur : Int)
    (nonce : Bytes) (hn : nonce.length = nonceSize) :
    (dur = 0 → generate E now role dur nonce = .err .dur) ∧
    (dur ≠ 0 → ∃ tok, generate E now role dur nonce = .ok tok ∧
      readToken E tok = .ok { role := role, expiry := now + dur * second }) := by
  unfold generate
  constructor
  · intro h; simp [h]
  · intro h
    exact ⟨_, by simp [h], readToken_mkToken E L nonce hn _⟩

/-- **Refreshing keeps the role**: a successful refresh was applied to an authentic, unexpired
    token with record `r`, and the new token reads back as `r.role` with the new expiry. -/
theorem C35_refresh_keeps_role (E : Env) (L : Laws E) (now1 now2 : Int) (tok : Bytes) (dur : Int)
    (nonce : Bytes) (hn : nonce.length = nonceSize) (tok' : Bytes)
    (h : refresh E now1 now2 tok dur nonce = .ok tok') :
    ∃ r, Authentic E tok r ∧ now1 ≤ r.expiry ∧ dur ≠ 0 ∧
      readToken E tok' = .ok { role := r.role, expiry := now2 + dur * second } := by
  unfold refresh at h
  by_cases hd : dur = 0
  · simp [hd] at h
  · simp only [hd, if_false] at h
    cases hr : readToken E tok with
    | err e => simp [hr] at h
    | panic => simp [hr] at h
    | ok r =>
      simp only [hr] at h
      by_cases hx : now1 > r.expiry
      · simp [hx] at h
      · simp only [hx, if_false, Res.ok.injEq] at h
        subst h
        exact ⟨r, (readToken_ok_iff E tok r).1 hr, by omega, hd, readToken_mkToken E L nonce hn _⟩

/-- **Refreshing cannot revive an expired token**: for a token that reads as `r` with
    `now > r.expiry`, `RefreshKey` answers `ErrTokenExpired` (or `ErrExpiry` for duration 0) —
    never a new token — and `Enforce` answers `ErrTokenExpired`. -/
theorem C35_refresh_expired_fails (E : Env) (pol : List Row) (now1 now2 : Int) (tok : Bytes) (r : Rec)
    (dur : Int) (nonce obj act : Bytes)
    (hr : readToken E tok = .ok r) (hx : now1 > r.expiry) :
    refresh E now1 now2 tok dur nonce = (if dur = 0 then .err .dur else .err .expired) ∧
    enforce E pol now1 tok obj act = .err .expired := by
  unfold refresh enforce
  by_cases hd : dur = 0 <;> simp [hd, hr, hx]

/-- over histories: no sequence of refreshes (each at a time after the original expiry) ever
    yields a token — by induction the first refresh already fails, so there is nothing to chain. -/
theorem C35_refresh_chain_expired (E : Env) (tok : Bytes) (r : Rec) (hr : readToken E tok = .ok r)
    (steps : List (Int × Int × Int × Bytes)) (hlate : ∀ s ∈ steps, s.1 > r.expiry) :
    ∀ s ∈ steps, ∀ t, refresh E s.1 s.2.1 tok s.2.2.1 s.2.2.2 ≠ .ok t := by
  intro s hs t h
  have := (C35_refresh_expired_fails E [] s.1 s.2.1 tok r s.2.2.1 s.2.2.2 [] [] hr (hlate s hs)).1
  rw [this] at h
  split at h <;> cases h

/-- **Malformed tokens are rejected with an error, never a crash** — for *every* byte string and
    every behaviour of the primitives: `Enforce`, `RefreshKey` and the HTTP handler never reach the
    panic outcome, and a token that is not authentic (does not decode, is shorter than the nonce,
    does not open, or does not unmarshal) gets an error value from both. -/
theorem C35_malformed_rejected_no_panic (E : Env) (pol : List Row) (now1 now2 : Int)
    (tok obj act : Bytes) (dur : Int) (nonce : Bytes) :
    (∀ (x : Bool), enforce E pol now1 tok obj act ≠ .panic ∧
       refresh E now1 now2 tok dur nonce ≠ .panic ∧ handlerStatus E pol now1 tok obj act ≠ 0 ∧ x = x) ∧
    ((∀ r, ¬ Authentic E tok r) →
       (enforce E pol now1 tok obj act).isErr = true ∧ (refresh E now1 now2 tok dur nonce).isErr = true ∧
       handlerStatus E pol now1 tok obj act ≠ 200) := by
  have hdec : ∀ data, decrypt E data ≠ .panic := by
    intro data
    unfold decrypt splitChecked
    by_cases hl : data.length < nonceSize
    · simp [hl]
    · have hle : nonceSize ≤ data.length := by omega
      simp only [hl, hle, if_true, if_false]
      cases E.aopen (data.take nonceSize) (data.drop nonceSize) <;> simp
  have hread : readToken E tok ≠ .panic := by
    unfold readToken
    cases hd : E.dec tok with
    | none => simp
    | some data =>
      simp only
      cases hq : decrypt E data with
      | err e => simp
      | panic => exact absurd hq (hdec data)
      | ok pt => cases hp : E.parse pt <;> simp [hp]
  have henf : enforce E pol now1 tok obj act ≠ .panic := by
    unfold enforce
    cases hr : readToken E tok with
    | err e => simp
    | panic => exact absurd hr hread
    | ok r => simp only; split <;> simp
  have href : refresh E now1 now2 tok dur nonce ≠ .panic := by
    unfold refresh
    split
    · simp
    · cases hr : readToken E tok with
      | err e => simp
      | panic => exact absurd hr hread
      | ok r => simp only; split <;> simp
  have hh : handlerStatus E pol now1 tok obj act ≠ 0 := by
    unfold handlerStatus
    split
    · omega
    · split
      · omega
      · split <;> first | omega | (rename_i h; exact absurd h henf)
  refine ⟨fun _ => ⟨henf, href, hh, rfl⟩, ?_⟩
  intro hna
  have hnr : ∀ r, readToken E tok ≠ .ok r := fun r h => hna r ((readToken_ok_iff E tok r).1 h)
  have he : (enforce E pol now1 tok obj act).isErr = true := by
    unfold enforce
    cases hr : readToken E tok with
    | err e => rfl
    | panic => exact absurd hr hread
    | ok r => exact absurd hr (hnr r)
  refine ⟨he, ?_, ?_⟩
  · unfold refresh
    split
    · rfl
    · cases hr : readToken E tok with
      | err e => rfl
      | panic => exact absurd hr hread
      | ok r => exact absurd hr (hnr r)
  · intro h200
    have := C35_handler_sound E pol now1 tok obj act h200
    rw [this] at he
    cases he

/-- What the repair changed: without the length check, a token that decodes to fewer than 12
    bytes reaches the panic outcome (Go: slice bounds out of range in `decrypt`). -/
theorem C35_decryptOld_counterexample (E : Env) (data : Bytes) (h : data.length < nonceSize) :
    decryptOld E data = .panic ∧ decrypt E data = .err .short := by
  unfold decryptOld decrypt splitChecked
  have : ¬ nonceSize ≤ data.length := by omega
  simp [h, this]

/-- The transcribed matcher is the one in the source: the generated matcher text is the
    expression `rowMatches` was written from (a changed matcher breaks this proof). -/
theorem C35_matcher_text :
    Aurora.Generated.AuthPolicy.matcher =
      "(r.sub == p.sub || r.sub == \"master\") && (keyMatch(r.obj, p.obj) || keyMatch(r.obj, '/v1'+p.obj)) && regexMatch(r.act, p.act)" := by
  rfl

/-! ### non-vacuity: a toy scheme satisfying every hypothesis used above -/

def toyCount : Bytes → Nat → Option (Nat × Bytes)
  | [], _ => none
  | x :: xs, n => if x = 0 then some (n, xs) else toyCount xs (n + 1)

/-- toy primitives: identity base64; "encryption" = plaintext followed by the tag byte 7; records
    marshalled as sign byte, `|expiry|` in unary, a 0 byte, then the role. -/
def toyEnv : Env :=
  { enc := id, dec := some,
    aseal := fun _ p => p ++ [7],
    aopen := fun _ c => if c.getLast? = some 7 then some c.dropLast else none,
    marshal := fun r => (if r.expiry < 0 then 1 else 0) :: (List.replicate r.expiry.natAbs 1 ++ 0 :: r.role),
    parse := fun b => match b with
      | [] => none
      | s :: rest => match toyCount rest 0 with
        | none => none
        | some (n, role) => some { role := role, expiry := if s = 1 then -(n : Int) else (n : Int) } }

theorem toyCount_unary (k n : Nat) (role : Bytes) :
    toyCount (List.replicate k 1 ++ 0 :: role) n = some (n + k, role) := by
  induction k generalizing n with
  | zero => simp [toyCount]
  | succ k ih =>
    simp only [List.replicate_succ, List.cons_append, toyCount]
    rw [if_neg (by decide), ih]
    congr 2; omega

/-- the toy scheme satisfies all laws (so `Laws` is inhabited) -/
theorem toyLaws : Laws toyEnv where
  dec_enc := fun _ => rfl
  open_seal := by intro n p; simp [toyEnv]
  parse_marshal := by
    intro r
    simp only [toyEnv, toyCount_unary, Nat.zero_add]
    congr 1
    cases r with
    | mk role e =>
      simp only [Rec.mk.injEq, true_and]
      by_cases h : e < 0
      · simp only [h, if_true]; omega
      · simp only [h, if_false]
        rw [if_neg (by decide)]; omega

/-- the integrity hypothesis of `C35_enforce_issued` is satisfiable: for the toy scheme,
    everything that opens is `seal` of its plaintext. -/
example : ∀ n c p, toyEnv.aopen n c = some p → (fun _ _ => True) n p ∧ c = toyEnv.aseal n p := by
  intro n c p h
  simp only [toyEnv] at h ⊢
  split at h
  · rename_i hl
    cases h
    obtain ⟨ys, rfl⟩ := List.getLast?_eq_some_iff.1 hl
    simp
  · cases h

/-- the hypotheses of the soundness/refresh theorems are met by concrete runs of the toy scheme:
    a generated token is allowed while fresh and permitted, denied for another method, expired
    later, refreshable before and not after expiry. -/
example :
    ∃ tok, generate toyEnv 100 [99] 1 (List.replicate 12 0) = .ok tok ∧
      enforce toyEnv [{ sub := [99], obj := [47, 42], acts := [[71]] }] 100 tok [47, 120] [71] = .ok true ∧
      enforce toyEnv [{ sub := [99], obj := [47, 42], acts := [[71]] }] 100 tok [47, 120] [80] = .ok false ∧
      (∃ t', refresh toyEnv 100 100 tok 2 (List.replicate 12 1) = .ok t') ∧
      refresh toyEnv (100 + 2 * second) (100 + 2 * second) tok 2 (List.replicate 12 1) = .err .expired := by
  obtain ⟨tok, h1, h2⟩ := (C35_generate_spec toyEnv toyLaws 100 [99] 1 (List.replicate 12 0) rfl).2 (by decide)
  refine ⟨tok, h1, ?_, ?_, ?_, ?_⟩
  · simp only [enforce, h2]; decide
  · simp only [enforce, h2]; decide
  · refine ⟨mkToken toyEnv (List.replicate 12 1) { role := [99], expiry := 100 + 2 * second }, ?_⟩
    simp only [refresh, h2]
    rw [if_neg (by decide), if_neg (by simp [second])]
  · simp only [refresh, h2]; decide

end Aurora.Auth
