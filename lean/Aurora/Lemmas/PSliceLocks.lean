/-
  C21 (race-freedom clause) for pkg/topology/pslice.PSlice.

  `Aurora.Generated.PSliceLocks.accesses` is regenerated from pslice.go on every check run
  (harness/cmd/extract/pslice_locks.go): one row per syntactic access to `s.peers` /
  `s.baseBytes` in a method of PSlice, with the mode in which `s.mu` is held at that point
  (helper methods that take no lock themselves are inlined at their call sites).

  Here: (1) `decide` that every row is guarded — writes under `Lock`, reads under `Lock` or
  `RLock` — and (2) combine the table with the generic reader–writer lock-set lemma
  (`Aurora.LockSet.no_race`): two rows executed at the same time by different threads, each
  holding the mutex as its row says, are both reads.

  Core Lean only.
-/
import Aurora.Generated.PSliceLocks
import Aurora.Lemmas.LockSet

namespace Aurora.PSliceLocks
open Aurora.Generated.PSliceLocks Aurora.LockSet

/-- a row satisfies the lock-set discipline: held exclusively, or held shared and not a write -/
def disciplined (a : Access) : Bool :=
  (a.guard == .lock) || (a.guard == .rlock && !a.write)

/-- the table satisfies the lock-set discipline -/
theorem table_disciplined : accesses.all disciplined = true := by decide

/-- the extractor found something (an empty table would make everything below vacuous) -/
theorem table_nonempty : accesses ≠ [] := by decide

/-- there is at least one write row and one shared-read row, i.e. both modes are exercised -/
theorem table_has_write : accesses.any (fun a => a.write && a.guard == .lock) = true := by decide
theorem table_has_shared_read : accesses.any (fun a => !a.write && a.guard == .rlock) = true := by
  decide

/-- every row is attributed to a method of *PSlice found in the file
    (rows from plain functions, which the extractor does not analyse, would violate this) -/
theorem rows_in_methods : accesses.all (fun a => methods.contains a.method) = true := by decide

/-- every inlined row names a helper that is itself a method of *PSlice -/
theorem vias_in_methods :
    accesses.all (fun a => a.via == "" || methods.contains a.via) = true := by decide

/-- every method of *PSlice has at least one row, directly or as an inlined helper
    (so a method the extractor silently skipped would show up here) -/
theorem methods_have_rows :
    methods.all (fun m => accesses.any (fun a => a.method == m || a.via == m)) = true := by decide

/-- the struct has exactly the fields this argument was written for: the two guarded ones,
    the mutex, and `maxBins` (set in `New`, never written afterwards — see `no_other_writes`) -/
theorem struct_fields : structFields = ["peers", "baseBytes", "mu", "maxBins"] := by decide
theorem mutex_field : mutexField = "mu" := by decide

/-- no method writes any field other than the guarded ones -/
theorem no_other_writes : otherFieldWrites = [] := by decide

/-- row-level consequence of `table_disciplined` -/
theorem disciplined_of_mem {a : Access} (h : a ∈ accesses) : disciplined a = true :=
  List.all_eq_true.mp table_disciplined a h

/-- a disciplined row is guarded by `lock`, or is a read guarded by `rlock` -/
theorem disciplined_cases {a : Access} (h : disciplined a = true) :
    a.guard = .lock ∨ (a.guard = .rlock ∧ a.write = false) := by
  unfold disciplined at h
  cases hg : a.guard <;> cases hw : a.write <;> simp [hg, hw] at h ⊢

/-- what "thread `t` holds `s.mu` as row `a` says" means in the lock model -/
def heldAs (a : Access) (s : St) (t : Tid) : Prop :=
  (a.guard = .lock → (t, Mode.w) ∈ s.holders) ∧ (a.guard = .rlock → (t, Mode.r) ∈ s.holders)

/-- bridge: an access row executed by thread `t` whose guard is held as the Go code holds it
    is `covered` -/
theorem covered_of_row (a : Access) (h : disciplined a = true) (s : St) (t : Tid)
    (hheld : (a.guard = .lock → (t, Mode.w) ∈ s.holders) ∧
             (a.guard = .rlock → (t, Mode.r) ∈ s.holders)) :
    covered s t a.write := by
  cases disciplined_cases h with
  | inl hl => exact Or.inl (hheld.1 hl)
  | inr hr => exact Or.inr ⟨hr.2, hheld.2 hr.1⟩

/-- final: two rows of the table executed at the same time by different threads, each holding
    the mutex as its row says, are both reads -/
theorem pslice_no_race (s : St) (hs : Reachable s) (a1 a2 : Access)
    (h1 : a1 ∈ accesses) (h2 : a2 ∈ accesses) (t1 t2 : Tid) (hne : t1 ≠ t2)
    (held1 : (a1.guard = .lock → (t1, Mode.w) ∈ s.holders) ∧
             (a1.guard = .rlock → (t1, Mode.r) ∈ s.holders))
    (held2 : (a2.guard = .lock → (t2, Mode.w) ∈ s.holders) ∧
             (a2.guard = .rlock → (t2, Mode.r) ∈ s.holders)) :
    a1.write = false ∧ a2.write = false :=
  no_race hs
    (covered_of_row a1 (disciplined_of_mem h1) s t1 held1)
    (covered_of_row a2 (disciplined_of_mem h2) s t2 held2) hne

/-- same statement, contrapositive reading: a write row excludes every other row of the table
    in any other thread -/
theorem pslice_write_exclusive (s : St) (hs : Reachable s) (a1 a2 : Access)
    (h1 : a1 ∈ accesses) (h2 : a2 ∈ accesses) (t1 t2 : Tid)
    (hw : a1.write = true) (held1 : heldAs a1 s t1) (held2 : heldAs a2 s t2) : t1 = t2 := by
  by_cases e : t1 = t2
  · exact e
  · have := (pslice_no_race s hs a1 a2 h1 h2 t1 t2 e held1 held2).1
    rw [hw] at this
    cases this

end Aurora.PSliceLocks
