import Driver.Util
import Aurora.Model.PSlice
/-! Driver for C21: runs the PSlice model on the op lines of the harness. -/
namespace Driver.C21
open Aurora.PSlice Aurora.Proximity

def toAddr (l : List UInt8) : Addr := l.map (fun b => BitVec.ofNat 8 b.toNat)
def ofAddr (l : Addr) : List UInt8 := l.map (fun b => UInt8.ofNat b.toNat)
def hex (a : Addr) : String := Driver.bytesToHex (ofAddr a)

def parseAddrs : List String → Option (List Addr)
  | [] => some []
  | h :: t =>
    match Driver.hexToBytes h, parseAddrs t with
    | some b, some r => some (toAddr b :: r)
    | _, _ => none

def joinOr (l : List String) : String := if l.isEmpty then "-" else ",".intercalate l

structure It where
  n : Nat
  visited : List String
  ps : PS

def mutate (kind : String) (addrs : List Addr) (s : PS) : PS :=
  if kind = "add" then add s addrs
  else if kind = "remove" then addrs.foldl remove s
  else s

def callback (stopAt nextMod errAt mutAt : Nat) (kind : String) (addrs : List Addr)
    (st : It) (p : Addr) (po : Nat) : It × Ctl :=
  let n := st.n + 1
  let ps := if n = mutAt then mutate kind addrs st.ps else st.ps
  ({ n := n, visited := s!"{po}:{hex p}" :: st.visited, ps := ps },
   ctlOf (n = stopAt) (nextMod > 0 && n % nextMod = 0) (n = errAt))

def step (st : Option PS) (op : List String) : Option PS × String :=
  match op, st with
  | ["new", m, b], _ =>
    match Driver.parseNat m, Driver.hexToBytes b with
    | some m, some b => if m < 1 ∨ m > 64 then (st, "bad-op") else (some (new m (toAddr b)), "ok")
    | _, _ => (st, "bad-op")
  | _, none => (none, "noslice")
  | "add" :: hs, some s =>
    match parseAddrs hs with
    | some as => (some (add s as), "ok")
    | none => (st, "bad-op")
  | ["remove", h], some s =>
    match Driver.hexToBytes h with
    | some a => (some (remove s (toAddr a)), "ok")
    | none => (st, "bad-op")
  | ["exists", h], some s =>
    match Driver.hexToBytes h with
    | some a => (st, Driver.boolStr («exists» s (toAddr a)))
    | none => (st, "bad-op")
  | ["sizes"], some s =>
    let bs := (List.range s.maxBins).map (fun i => toString (binSize s i))
    let se := match shallowestEmpty s with | some i => toString i | none => "none"
    (st, s!"len={length s} bins={joinOr bs} over={binSize s s.maxBins} se={se}")
  | ["binpeers", b], some s =>
    match Driver.parseNat b with
    | some b => if b > 255 then (st, "bad-op") else (st, joinOr ((binPeers s b).map hex))
    | none => (st, "bad-op")
  | "each" :: dir :: stopAt :: nextMod :: errAt :: mutAt :: kind :: hs, some s =>
    match Driver.parseNat stopAt, Driver.parseNat nextMod, Driver.parseNat errAt, Driver.parseNat mutAt, parseAddrs hs with
    | some stopAt, some nextMod, some errAt, some mutAt, some as =>
      if (dir ≠ "fwd" ∧ dir ≠ "rev") ∨ (kind ≠ "add" ∧ kind ≠ "remove" ∧ kind ≠ "-") then (st, "bad-op") else
      let cb := callback stopAt nextMod errAt mutAt kind as
      let init : It := { n := 0, visited := [], ps := s }
      let (r, ok) := if dir = "fwd" then eachBin (·.ps) cb init else eachBinRev (·.ps) cb init
      (some r.ps, s!"{if ok then "ok" else "err"} {joinOr r.visited.reverse}")
    | _, _, _, _, _ => (st, "bad-op")
  | ["stress", n], some _ =>
    -- concurrent writer of fresh addresses that restores the slice; observable state unchanged
    match Driver.parseNat n with
    | some _ => (st, "ok")
    | none => (st, "bad-op")
  | _, _ => (st, "bad-op")

def handler : Driver.Handler := { σ := Option PS, init := none, step := step }

end Driver.C21
