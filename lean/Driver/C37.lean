import Driver.Util
import Aurora.Model.Handlers
/-! Driver for C37: runs the handler models on the op lines of the harness.

An op line is `<op> <args…> | <annotation>`: the annotation is what the REAL decoders made of the
stream bytes (structured message fields as tokens, `X` = the frame did not decode / never came,
`~` = absent optional field) plus the oracle facts of trusted library calls; the model never sees
raw stream bytes (the decoders are trusted, DESIGN §8).  One output line per op:
`ok|err|panic[ <later-use ok|panic>]` (ci.resp after `ok ok`: ` v<Len>:<hex>|v-`, the presence vector stored
for the (root, target) of the message). -/
namespace Driver.C37
open Aurora.Handlers

/-- token-stream parser -/
abbrev P := StateT (List String) Option

def tok : P String := fun s => match s with | [] => none | t :: r => some (t, r)
def peek : P String := fun s => match s with | [] => none | t :: _ => some (t, s)
def bytes : P Bytes := do let t ← tok; (Driver.hexToBytes t : Option _)
def nat : P Nat := do let t ← tok; (t.toNat? : Option _)
def int : P Int := do let t ← tok; (t.toInt? : Option _)
def bool : P Bool := do let t ← tok; if t = "1" then pure true else if t = "0" then pure false else failure
def many {α : Type} (p : P α) : Nat → P (List α)
  | 0 => pure []
  | n + 1 => do let a ← p; let r ← many p n; pure (a :: r)
def counted {α : Type} (p : P α) : P (List α) := do let n ← nat; many p n
def optBytes : P (Option Bytes) := do
  let t ← peek
  if t = "~" then do let _ ← tok; pure none else do let b ← bytes; pure (some b)

def outStr : Out → String | .ok => "ok" | .err => "err"

/-- `class[ later]` where later-use is run only after an `ok` handler outcome -/
def withLaterOk {σ : Type} (r : M (Out × σ)) (later : σ → M Unit) : Option σ × String :=
  match r with
  | .error _ => (none, "panic")
  | .ok (.err, s) => (some s, "err")
  | .ok (.ok, s) => match later s with
    | .ok _ => (some s, "ok ok")
    | .error _ => (none, "ok panic")

/-- `class later` where later-use is run after `ok` and `err` -/
def withLaterAlways {σ : Type} (r : M (Out × σ)) (later : σ → M Unit) : Option σ × String :=
  match r with
  | .error _ => (none, "panic")
  | .ok (o, s) => match later s with
    | .ok _ => (some s, outStr o ++ " ok")
    | .error _ => (none, outStr o ++ " panic")

def plain (r : M Out) : String := match r with | .error _ => "panic" | .ok o => outStr o

structure St where
  ci : CiState := CiState.init
  tr : Option TrState := none
  rt : RtState := RtState.init

/-! ### handshake -/

structure AckFacts where
  ack : Ack
  parseOk : Bool

def pAck : P (Option AckFacts) := do
  let t ← tok
  if t = "~" then pure none else
  if t ≠ "A" then failure else
  let a ← tok
  let (addr, pa) ← (if a = "~" then pure (none, false) else if a = "B" then do
      let u ← bytes; let o ← bytes; let s ← bytes; let ok ← bool
      pure (some (⟨u, o, s⟩ : BzzAddress), ok)
    else failure : P (Option BzzAddress × Bool))
  let nid ← nat; let mode ← bytes; let wl ← nat
  pure (some ⟨⟨addr, nid, mode, wl⟩, pa⟩)

def hsEnv (ma p2p pa : Bool) : HsEnv :=
  { networkID := 7, maOk := fun _ => ma, p2pOk := fun _ => p2p, parseOk := fun _ => pa,
    hasPicker := true, pick := fun _ => true, lightFull := false }

def pHsHandle : P String := do
  let t ← tok
  if t = "X" then pure (withLaterOk (hsHandle (hsEnv false false false) none none) hsLater).2 else
  if t ≠ "S" then failure else
  let ou ← bytes; let ma ← bool
  let t ← peek
  if t = "X" then pure (withLaterOk (hsHandle (hsEnv ma false false) (some ⟨ou⟩) none) hsLater).2 else
  let a ← pAck
  match a with
  | none => failure
  | some a => pure (withLaterOk (hsHandle (hsEnv ma false a.parseOk) (some ⟨ou⟩) (some a.ack)) hsLater).2

def pHsDial : P String := do
  let t ← tok
  if t = "X" then pure (withLaterOk (hsDial (hsEnv false false false) none) hsLater).2 else
  if t ≠ "K" then failure else
  let s ← peek
  let (syn, ma, p2p) ← (if s = "~" then do let _ ← tok; pure (none, false, false) else do
      let ou ← bytes; let ma ← bool; let p ← bool; pure (some (⟨ou⟩ : Syn), ma, p) : P (Option Syn × Bool × Bool))
  let a ← pAck
  let pa := match a with | some a => a.parseOk | none => false
  pure (withLaterOk (hsDial (hsEnv ma p2p pa) (some ⟨syn, a.map (·.ack)⟩)) hsLater).2

/-! ### hive2 -/

/-- the fixed population of the harness' Kad is irrelevant to the outcome: any list of 32-byte peers -/
def hivePeers : List Bytes := [List.replicate 32 1, List.replicate 32 200]

def pHiveFind : P String := do
  let t ← tok
  if t = "X" then pure (plain (hiveFindNode hivePeers none)) else
  if t ≠ "F" then failure else
  let target ← bytes; let limit ← int; let pos ← counted int
  pure (plain (hiveFindNode hivePeers (some ⟨target, pos, limit⟩)))

def pHiveDoFind : P String := do
  let t ← tok
  if t = "X" then pure (withLaterOk (hiveDoFind (fun _ => false) none) (fun _ => pure ())).2 else
  if t ≠ "P" then failure else
  let ps ← counted (do let u ← bytes; let s ← bytes; let o ← bytes; let ok ← bool; pure ((⟨u, s, o⟩ : AuroraAddress), ok))
  let okOf := fun (u : Bytes) => (ps.find? (fun p => p.1.underlay == u)).map (·.2) |>.getD false
  pure (withLaterOk (hiveDoFind okOf (some (ps.map (·.1)))) (fun _ => (hiveFindNode hivePeers (some ⟨[], [], 30⟩)) >>= fun _ => pure ())).2

/-! ### retrieval, pingpong -/

def pRetHandler : P String := do
  let t ← tok
  if t = "X" then pure (plain (retHandler none false false)) else
  if t ≠ "Q" then failure else
  let tg ← bytes; let ro ← bytes; let ch ← bytes; let has ← bool; let self ← bool
  pure (plain (retHandler (some ⟨tg, ro, ch⟩) has self))

def pRetRetrieve : P String := do
  let t ← tok
  if t = "X" then pure (plain (retRetrieve none false)) else
  if t ≠ "D" then failure else
  let n ← nat; let valid ← bool
  match retRetrieve (some (List.replicate (min n 4) 0)) valid with
  | .error _ => pure "panic"
  | .ok .err => pure "err"
  | .ok .ok => pure (match retHandler (some ⟨[], [], []⟩) true true with | .ok _ => "ok ok" | .error _ => "ok panic")

def pPing (client : Bool) : P String := do
  let t ← tok
  if t ≠ "N" then failure else
  let n ← nat; let e ← tok
  if client then pure (plain (pingClient (e = "X"))) else pure (plain (pingHandler n (e = "E")))

/-! ### traffic -/

def pCheque (self : Bytes) : P (ChequeJson × TrEnv) := do
  let t ← tok
  let noEnv : TrEnv := ⟨fun _ => false, fun _ => []⟩
  if t = "J0" then pure (.bad, noEnv) else
  if t = "Jn" then pure (.null, noEnv) else
  if t ≠ "J1" then failure else
  let rc ← bytes; let bf ← bytes
  let pt ← tok
  let pay ← (if pt = "~" then pure none else match pt.toInt? with | some i => pure (some i) | none => failure : P (Option Int))
  let st ← tok
  let sig : Option Bytes := if st = "~" then none else some []
  let rok ← bool; let isB ← bool; let isS ← bool
  let issuer : Bytes := if isB then bf else if isS then self else [0xff]
  pure (.val ⟨rc, bf, pay, sig⟩, ⟨fun _ => rok, fun _ => issuer⟩)

def trOf (st : St) (self : Bytes) : TrState := match st.tr with
  | some t => t
  | none => { self := self, book := [], peers := [] }

def pTr (st : St) (kind : String) : P (St × String) := do
  let peer ← bytes; let self ← bytes
  let ts := { trOf st self with self := self }
  let t ← tok
  let (m, env) ← (if t = "X" then pure (none, (⟨fun _ => false, fun _ => []⟩ : TrEnv)) else if t = "E" then do
      let addr ← bytes; let (c, env) ← pCheque self; pure (some (⟨addr, c⟩ : EmitCheque), env)
    else failure : P (Option EmitCheque × TrEnv))
  let r := match kind with
    | "tr.cheque" => trHandler env ts peer m
    | "tr.inithandler" => trInit env ts peer m true
    | _ => trInit env ts peer m false
  let (s, out) := withLaterAlways r trLater
  pure ({ st with tr := s }, out)

/-! ### chunkinfo -/

def pCiResp (st : St) : P (St × String) := do
  let t ← tok
  if t = "X" then pure (st, "err") else
  if t ≠ "P" then failure else
  let root ← bytes; let target ← bytes; let req ← bytes; let reqSelf ← bool; let tkey ← bytes
  let entries ← counted (do let k ← bytes; let v ← bytes; let _hex ← bool; let self ← bool; pure (k, v, self))
  let isSelf := fun (k : Bytes) => (entries.find? (fun e => e.1 == k)).map (·.2.2) |>.getD false
  let resp : ChunkInfoResp := ⟨root, target, req, entries.map (fun e => (e.1, e.2.1))⟩
  let (s, out) := withLaterOk (ciRespNew st.ci (some resp) reqSelf tkey isSelf)
    (fun s => do ciLater s root 0; ciLater s root 1; ciLater s root 2; ciLater s root 3; ciLater s root (chunkSize s root - 1))
  -- after `ok ok`: the vector now stored for (root, target), `v<Len>:<bytes>` or `v-`
  let out := match s, out with
    | some s', "ok ok" => match s'.disc.lookup (root, target) with
      | some (some v) => out ++ " v" ++ toString v.len ++ ":" ++ Driver.bytesToHex v.b
      | _ => out ++ " v-"
    | _, _ => out
  pure ({ st with ci := s.getD CiState.init }, out)

def pCiPyramid (st : St) : P (St × String) := do
  let t ← tok
  if t = "X" then pure (st, "err") else
  if t ≠ "Y" then failure else
  let root ← bytes; let target ← bytes; let tself ← bool
  let known := (st.ci.files.lookup root).isSome
  let loc := tself || known
  let (term, acc) ← (if loc then pure (false, none) else do
      let g ← tok; if g ≠ "G" then failure else
      let _n ← nat; let e ← tok
      if e = "X" then pure (false, none) else do
        let tt ← tok
        if tt = "T0" then pure (true, none) else do let n ← nat; pure (true, some n) : P (Bool × Option Nat))
  let (s, out) := withLaterOk (ciPyramid st.ci (some (root, target)) loc known term acc)
    (fun s => do ciLater s root 0; ciLater s root 1)
  pure ({ st with ci := s.getD CiState.init }, out)

/-! ### routetab -/

def pPaths : P (List Path) := counted (do
  let sg ← bytes; let bd ← counted bytes; let it ← counted bytes; pure ⟨sg, bd, it⟩)

def pUList : P (List UnderlayResp) := counted (do
  let d ← bytes; let u ← bytes; let s ← bytes; let _ok ← bool; pure ⟨d, u, s⟩)

def rtOut (st : St) (r : M (Out × RtState)) : St × String :=
  let (s, out) := withLaterOk r rtLater
  ({ st with rt := s.getD RtState.init }, out)

def pRtReq (st : St) (self : Bytes) : P (St × String) := do
  let t ← tok
  if t = "X" then pure (st, "err") else
  if t ≠ "Q" then failure else
  let dest ← bytes; let alpha ← int; let ut ← int; let _ds ← bool; let _nb ← bool
  let paths ← pPaths; let ul ← pUList
  pure (rtOut st (rtReq st.rt self (some ⟨dest, alpha, paths, ut, ul⟩)))

def pRtResp (st : St) (self : Bytes) : P (St × String) := do
  let t ← tok
  if t = "X" then pure (st, "err") else
  if t ≠ "S" then failure else
  let dest ← bytes; let ut ← int
  let paths ← pPaths; let ul ← pUList
  pure (rtOut st (rtResp st.rt self (some ⟨dest, paths, ut, ul⟩)))

def pRtRelay (conn : Bool) : P String := do
  let t ← tok
  if t = "X" then pure (plain (if conn then rtConnChain none false false false false else rtRelay none false false false false)) else
  if t ≠ "L" then failure else
  let src ← bytes; let mode ← bytes; let dest ← bytes; let mid ← bool; let np ← nat
  let ds ← bool; let nb ← bool; let mok ← bool; let nh ← bool
  let r : RelayReq := ⟨src, mode, dest, mid, List.replicate np []⟩
  pure (plain (if conn then rtConnChain (some r) ds nb mok nh else rtRelay (some r) ds nb mok nh))

/-! ### multicast -/

def pMcLater (out : M Out) : String := match out with
  | .error _ => "panic"
  | .ok o => outStr o ++ " ok"

def pMc (kind : String) (toks : List String) : Option String :=
  let run {α : Type} (p : P α) : Option α := (p toks).map (·.1)
  match kind with
  | "mc.handshake" | "mc.dohandshake" => run (do
      let t ← tok
      if t = "X" then pure (pMcLater (mcHandshake none)) else do let g ← counted bytes; pure (pMcLater (mcHandshake (some g))))
  | "mc.notify" => run (do
      let t ← tok
      if t = "X" then pure (pMcLater (mcNotify none)) else do let s ← int; let g ← counted bytes; pure (pMcLater (mcNotify (some (s, g)))))
  | "mc.multicast" => run (do let t ← tok; pure (pMcLater (mcMulticast (t ≠ "X"))))
  | "mc.findgroup" => run (do
      let t ← tok
      if t = "X" then pure (pMcLater (mcFindGroup none false)) else do
        let g ← bytes; let lim ← int; let ttl ← int; let ans ← bool
        pure (pMcLater (mcFindGroup (some (g, lim, ttl)) ans)))
  | "mc.message" => run (do
      let t ← tok
      -- the session target is a GroupMsg since fix 59b36d3, whatever follows the first frame
      pure (pMcLater (mcMessage (t ≠ "X") (some ()) true)))
  | "mc.send" | "mc.sendreceive" => run (do
      let t ← tok
      if t = "X" then pure (pMcLater (mcSend none)) else do
        let _g ← bytes; let _d ← nat; let _ty ← int; let el ← nat
        pure (pMcLater (mcSend (some el))))
  | _ => none

/-! ### the step function -/

def annot (op : List String) : List String × List String :=
  (op.takeWhile (· ≠ "|"), (op.dropWhile (· ≠ "|")).drop 1)

def runP {α : Type} (p : P α) (toks : List String) : Option α := (p toks).map (·.1)

def step (st : St) (line : List String) : St × String :=
  let (op, an) := annot line
  let bad := (st, "bad-op")
  match op with
  | ["hs.handle", _] => match runP pHsHandle an with | some s => (st, s) | none => bad
  | ["hs.dial", _] => match runP pHsDial an with | some s => (st, s) | none => bad
  | ["hive.findnode", _] => match runP pHiveFind an with | some s => (st, s) | none => bad
  | ["hive.dofind", _, _] => match runP pHiveDoFind an with | some s => (st, s) | none => bad
  | ["ret.handler", _] => match runP pRetHandler an with | some s => (st, s) | none => bad
  | ["ret.retrieve", _, _] => match runP pRetRetrieve an with | some s => (st, s) | none => bad
  | ["ping.handler", _] => match runP (pPing false) an with | some s => (st, s) | none => bad
  | ["ping.ping", _, _] => match runP (pPing true) an with | some s => (st, s) | none => bad
  | ["tr.reg", _, _] =>
    match runP (do let p ← bytes; let c ← bytes; pure (p, c)) an with
    | some (p, c) =>
      -- PutBeneficiary: both directions are overwritten
      let ts := trOf st []
      let ts := { ts with book := (p, c) :: ts.book.filter (fun e => e.1 != p) }
      ({ st with tr := some ts }, "ok")
    | none => bad
  | [k, _, _] =>
    if k = "tr.cheque" ∨ k = "tr.inithandler" ∨ k = "tr.init" then
      match runP (pTr st k) an with | some r => r | none => bad
    else if k = "ci.file" then
      match op with
      | [_, r, n] => match Driver.hexToBytes r, n.toNat? with
        | some r, some n =>
          if r.length ≠ 32 ∨ n > 4096 then bad else
          if (st.ci.files.lookup r).isSome then (st, "dup") else
          if n = 0 then (st, "err") else ({ st with ci := ciFile st.ci r n }, "ok")
        | _, _ => bad
      | _ => bad
    else if k = "ci.find" then
      match op with
      | [_, r, os] => match Driver.hexToBytes r, (os.splitOn ",").mapM Driver.hexToBytes with
        | some r, some os => match ciFind st.ci r os with
          | .ok c => ({ st with ci := c }, "ok")
          | .error _ => ({ st with ci := CiState.init }, "panic")
        | _, _ => bad
      | _ => bad
    else if k = "ci.req" then
      match an with
      | "X" :: _ => (st, plain (ciReq none))
      | "R" :: _ => (st, plain (ciReq (some ([], [], []))))
      | _ => bad
    else if k = "ci.resp" then match runP (pCiResp st) an with | some r => r | none => bad
    else if k = "rt.req" ∨ k = "rt.resp" then
      -- first annotation token: the node's own overlay
      match an with
      | s :: rest => match Driver.hexToBytes s with
        | some self => match runP (if k = "rt.req" then pRtReq st self else pRtResp st self) rest with
          | some r => r | none => bad
        | none => bad
      | [] => bad
    else if k = "rt.findunderlay" then
      match an with
      | "X" :: _ => (st, plain (rtFindUnderlay none false))
      | ["U", _, b] => (st, plain (rtFindUnderlay (some []) (b = "1")))
      | _ => bad
    else if k = "rt.relay" then match runP (pRtRelay false) an with | some s => (st, s) | none => bad
    else if k = "rt.connchain" then match runP (pRtRelay true) an with | some s => (st, s) | none => bad
    else if k = "rt.dofindunderlay" then
      match an with
      | "X" :: _ => (st, plain (rtDoFindUnderlay none false))
      | ["V", _, _, _, b] =>
        (st, match rtDoFindUnderlay (some ⟨[], [], []⟩) (b = "1") with
          | .ok .ok => (match rtFindUnderlay (some []) true with | .ok _ => "ok ok" | .error _ => "ok panic")
          | .ok .err => "err" | .error _ => "panic")
      | _ => bad
    else if k = "mc.join" then (st, "ok")
    else match pMc k an with | some s => (st, s) | none => bad
  | [k, _, _, _] =>
    if k = "ci.pyramid" then match runP (pCiPyramid st) an with | some r => r | none => bad
    else if k = "mc.findgroup" then match pMc k an with | some s => (st, s) | none => bad
    else bad
  | _ => bad

def handler : Driver.Handler := { σ := St, init := {}, step := step }

end Driver.C37
