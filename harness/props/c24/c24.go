// Package c24: correspondence + oracle for the connection bookkeeping of Kad (property C24).
package c24

import (
	"bytes"
	"fmt"
	"sort"
	"strings"

	"github.com/gauss-project/aurorafs/pkg/boson"

	"verifharness/core"
	"verifharness/kadh"
)

type prop struct{}

func init() { core.Register(prop{}) }

func (prop) ID() string { return "C24" }
func (prop) Rule() string {
	return "cases: `init` with BinMaxPeers 5 (thresholds over/sat/quick = 5/2/1; 1/5 of cases 10 or 20), node mode full (1/6 boot), 0-2 static " +
		"peers; a universe of ~22 peers with 7-8 peers in each of bins 0 and 1 and 2-3 in bins 2..4, each peer with a fixed kind (full, or " +
		"boot = only ever dialled with the bootnode flag); most peers are made known (AddPeers batches without repeats) and public early so " +
		"that the potential depth is 2-3 and bins 0/1 can oversaturate; then 30-120 events: inbound connects (forced 1/4), outbound connects, " +
		"disconnects, forced disconnects, Pick, RefreshProtectPeer, Reachable, with state/bins/depth observations. In boot mode the peer " +
		"kicked by randomPeer is observed and passed to the model (annotation). Non-trivial: at least 6 connect events and one rejected or " +
		"kicked connection is likely (not required); distinct by op-list hash."
}

func hx(b []byte) string { return core.Hex(b) }

func (prop) Gen(r *core.Rand, tier string) []core.Case {
	n := 250
	if tier == "thorough" {
		n = 5000
	}
	var cs []core.Case
	cs = append(cs,
		core.Case{ID: "fix-boot-outbound", NT: false, Ops: []string{"init 5a3c99017710fe42 5 full -", "add da00000000000001,da00000000000002",
			"out da00000000000001 boot", "state", "out da00000000000002 full", "state", "disc da00000000000002", "state", "force da00000000000002", "state",
			"conn da00000000000003 0", "force da00000000000003", "state", "bins"}},
		core.Case{ID: "fix-nokad", NT: false, Ops: []string{"conn da00000000000003 0", "state", "pick 00", "protect -", "add -"}},
	)
	for i := 0; i < n; i++ {
		c := core.Case{ID: fmt.Sprintf("g%d", i)}
		base := r.Bytes(8)
		binMax := 5
		if r.Intn(5) == 0 {
			binMax = r.Pick([]int{10, 20, 7})
		}
		over := kadh.ThresholdsFor(binMax).Over
		mode := "full"
		if r.Intn(6) == 0 {
			mode = "boot"
		}
		if mode == "boot" && over < 20 {
			over = 20 // bootNodeOverSaturationPeers
		}
		var uni [][]byte
		uni = append(uni, kadh.Universe(r, base, []int{0}, over+r.Range(1, 3))...)
		nBin0 := len(uni)
		uni = append(uni, kadh.Universe(r, base, []int{1}, over+r.Range(0, 3))...)
		uni = append(uni, kadh.Universe(r, base, []int{2, 2, 3, 3, 4}, r.Range(4, 8))...)
		if r.Chance(20) {
			uni = append(uni, kadh.Universe(r, base, []int{5, 9, 31}, 2)...)
		}
		// dedupe (Universe calls are independent)
		seen := map[string]bool{}
		var u2 [][]byte
		for _, a := range uni {
			if !seen[string(a)] {
				seen[string(a)] = true
				u2 = append(u2, a)
			}
		}
		uni = u2
		isBoot := map[string]bool{}
		for _, a := range uni {
			if r.Chance(8) {
				isBoot[string(a)] = true
			}
		}
		var static [][]byte
		for k := r.Intn(3); k > 0; k-- {
			static = append(static, uni[r.Intn(len(uni))])
		}
		sort.Slice(static, func(i, j int) bool { return bytes.Compare(static[i], static[j]) < 0 })
		var st2 [][]byte
		for k, a := range static {
			if k == 0 || !bytes.Equal(a, static[k-1]) {
				st2 = append(st2, a)
			}
		}
		c.Ops = append(c.Ops, fmt.Sprintf("init %s %d %s %s", hx(base), binMax, mode, kadh.HexList(st2)))
		// make most peers known and public
		var batch [][]byte
		for _, a := range uni {
			if r.Chance(85) {
				batch = append(batch, a)
				if len(batch) == 6 {
					c.Ops = append(c.Ops, "add "+kadh.HexList(batch))
					batch = nil
				}
			}
		}
		if len(batch) > 0 {
			c.Ops = append(c.Ops, "add "+kadh.HexList(batch))
		}
		pubPct := r.Pick([]int{100, 100, 90, 60})
		for _, a := range uni {
			if r.Chance(pubPct) {
				c.Ops = append(c.Ops, "reach "+hx(a)+" pub")
			}
		}
		conns := 0
		pickPeer := func() []byte {
			if mode == "boot" && r.Chance(60) {
				return uni[r.Intn(nBin0)]
			}
			if r.Chance(70) { // concentrate on the two saturable bins
				return uni[r.Intn(2*over+2)%len(uni)]
			}
			return uni[r.Intn(len(uni))]
		}
		if r.Chance(60) || mode == "boot" { // fill phase: bring bin 0 to its limit at once
			for _, a := range uni[:nBin0] {
				if !isBoot[string(a)] && r.Chance(95) {
					c.Ops = append(c.Ops, "conn "+hx(a)+" 0")
					conns++
				}
			}
		}
		nev := r.Range(30, 120)
		if mode == "boot" {
			nev += 150
		}
		for k := 0; k < nev; k++ {
			a := pickPeer()
			boot := isBoot[string(a)]
			switch x := r.Intn(20); {
			case x < 8:
				if boot {
					c.Ops = append(c.Ops, "out "+hx(a)+" boot")
				} else {
					f := "0"
					if r.Intn(4) == 0 {
						f = "1"
					}
					c.Ops = append(c.Ops, "conn "+hx(a)+" "+f)
					conns++
				}
			case x < 10:
				if boot {
					c.Ops = append(c.Ops, "out "+hx(a)+" boot")
				} else {
					c.Ops = append(c.Ops, "out "+hx(a)+" full")
					conns++
				}
			case x < 12:
				c.Ops = append(c.Ops, "disc "+hx(a))
			case x == 12:
				c.Ops = append(c.Ops, "force "+hx(a))
			case x == 13:
				c.Ops = append(c.Ops, "pick "+hx(a))
			case x == 14:
				var ps [][]byte
				for j := r.Intn(4); j > 0; j-- {
					ps = append(ps, pickPeer())
				}
				c.Ops = append(c.Ops, "protect "+kadh.HexList(ps))
			case x == 15:
				c.Ops = append(c.Ops, "reach "+hx(a)+" "+[]string{"pub", "pub", "priv", "unk"}[r.Intn(4)])
			case x == 16:
				c.Ops = append(c.Ops, "add "+hx(a))
			case x == 17:
				c.Ops = append(c.Ops, "state")
			case x == 18:
				c.Ops = append(c.Ops, "bins")
			default:
				if r.Chance(20) {
					c.Ops = append(c.Ops, "conn zz 0")
				} else {
					c.Ops = append(c.Ops, "depth")
				}
			}
		}
		c.Ops = append(c.Ops, "state", "bins")
		c.NT = conns >= 6
		cs = append(cs, c)
	}
	return cs
}

type pre struct {
	valid   bool
	oversat bool
	known   map[string]bool
}

func (prop) New() core.Runner {
	r := kadh.NewRunner(after)
	r.Before = before
	return r
}

// before: evaluate "the bin of the peer is oversaturated" on the pre-state, independently of
// binSaturated: bin shallower than the potential depth of the known peers (closed-form depth
// spec, radius MaxPO) and at least `over` connected, reachable, non-static peers in the bin.
func before(ctx *core.Ctx, r *kadh.Runner, op []string) {
	p := &pre{}
	r.Scratch = p
	if (op[0] != "conn" && op[0] != "pick") || len(op) < 2 {
		return
	}
	a, ok := kadh.ParseAddr(op[1])
	if !ok || len(a.Bytes()) != len(r.Base.Bytes()) || len(a.Bytes()) < 4 {
		return
	}
	po := kadh.PO(r.Base.Bytes(), a.Bytes())
	kr, kt := r.Counts(true)
	pd := kadh.SpecDepth(kr, kt, int(boson.MaxPO), r.T.Quick)
	size := 0
	for _, x := range r.K.ConnectedPeers().BinPeers(uint8(po)) {
		if r.Reachable(x) && !r.IsStatic(x) {
			size++
		}
	}
	p.valid = true
	p.oversat = po < pd && size >= r.T.Over
}

func after(ctx *core.Ctx, r *kadh.Runner, op []string, out string) {
	if out == "nokad" {
		return
	}
	fail := func(clause, f string, a ...interface{}) {
		ctx.Fail(clause, "after `%s` -> %s: %s", strings.Join(op, " "), out, fmt.Sprintf(f, a...))
	}
	conn := r.Connected()
	known := map[string]bool{}
	for _, a := range r.Known() {
		known[a.ByteString()] = true
	}
	seen := map[string]bool{}
	for _, a := range conn {
		k := a.ByteString()
		if seen[k] {
			fail("connected-duplicate", "%x reported twice", a.Bytes())
		}
		seen[k] = true
		if !r.Live[k] {
			fail("connected-extra", "%x is reported connected but its last event is not a successful connect", a.Bytes())
		}
		if !known[k] {
			fail("connected-not-known", "%x is connected but not known", a.Bytes())
		}
	}
	for k := range r.Live {
		if !seen[k] {
			fail("connected-missing", "%x was connected and not disconnected since, but is not reported", []byte(k))
		}
	}
	if n, m := r.K.SnapshotConnected(); n != len(conn) || len(m) != len(conn) {
		fail("snapshot-count", "SnapshotConnected says %d/%d, EachPeer %d", n, len(m), len(conn))
	}
	p, _ := r.Scratch.(*pre)
	if p == nil || !p.valid || r.BootMode {
		return
	}
	a, _ := kadh.ParseAddr(op[1])
	switch op[0] {
	case "conn":
		if len(op) != 3 {
			return
		}
		switch {
		case op[2] == "1" && out != "ok":
			fail("forced-rejected", "a forced connection must be accepted")
		case r.IsProtected(a) && out != "ok":
			fail("protected-rejected", "a protected peer must be accepted")
		case op[2] == "0" && !r.IsProtected(a) && out == "ok" && p.oversat:
			fail("admit-oversaturated", "unprotected inbound peer admitted into an oversaturated bin")
		case op[2] == "0" && !r.IsProtected(a) && out == "oversat" && !p.oversat:
			fail("reject-not-oversaturated", "unprotected inbound peer rejected although its bin is not oversaturated")
		}
	case "pick":
		want := r.IsProtected(a) || !p.oversat
		if (out == "1") != want {
			fail("pick-wrong", "Pick should answer %v (protected=%v oversaturated=%v)", want, r.IsProtected(a), p.oversat)
		}
	}
}
