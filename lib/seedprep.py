#!/usr/bin/env python3
"""lib/seedprep.py <Cxx> <k> : normalise a mutation agent's output /tmp/mut-Cxx/MUTATION/k into /tmp/seed-in/Cxx-k
(demo files under repo-relative paths, demo.cmd)."""
import sys, os, re, shutil, glob
pid, k = sys.argv[1], sys.argv[2]
# optional: argv[3] = round prefix (e.g. "mut2"), seeds of round 2 are numbered k+2
rnd = sys.argv[3] if len(sys.argv) > 3 else "mut"
kk = int(k) + (2 if rnd in ("mut2", "mut3", "mut4") else 0)
src = f"/tmp/{rnd}-{pid}/MUTATION/{k}"; dst = f"/tmp/seed-in/{pid}-{kk}"
shutil.rmtree(dst, ignore_errors=True); os.makedirs(dst + "/demo")
shutil.copy(src + "/patch.diff", dst); shutil.copy(src + "/README.md", dst)
readme = open(src + "/README.md").read()
patch = open(src + "/patch.diff").read()
touched = sorted({os.path.dirname(m) for m in re.findall(r"^\+\+\+ b/(\S+)", patch, re.M)})
pkgs = {}
for f in glob.glob(src + "/demo/**/*", recursive=True):
    if not os.path.isfile(f): continue
    rel = os.path.relpath(f, src + "/demo")
    if os.sep not in rel:   # flat: find intended dir in README, else the touched package
        m = re.search(r"((?:pkg|verifdemo|cmd)/[\w/.\-]*)/?" + re.escape(os.path.basename(rel)), readme)
        d = m.group(1).rstrip("/") if m else None
        if not d:
            m = re.search(re.escape(os.path.basename(rel)) + r"[^\n]*?((?:pkg|verifdemo)/[\w/.\-]+)", readme)
            d = m.group(1).rstrip("/`.,)") if m else touched[0]
            if d.endswith(".go"): d = os.path.dirname(d)
        rel = os.path.join(d, rel)
    os.makedirs(os.path.dirname(os.path.join(dst, "demo", rel)), exist_ok=True)
    shutil.copy(f, os.path.join(dst, "demo", rel))
    if rel.endswith("_test.go"):
        tests = re.findall(r"^func (Test\w+)", open(f).read(), re.M)
        pkgs.setdefault(os.path.dirname(rel), []).extend(tests)
    elif rel.endswith(".go"):
        pkgs.setdefault(os.path.dirname(rel), [])
cmds = []
for d, tests in pkgs.items():
    if tests:
        cmds.append(f"go test -tags leveldb -ldflags=-checklinkname=0 -count=1 -run '^({'|'.join(sorted(set(tests)))})$' ./{d}/")
    else:
        cmds.append(f"go run -tags leveldb -ldflags=-checklinkname=0 ./{d}/")
open(dst + "/demo.cmd", "w").write(" && ".join(cmds) + "\n")
print(dst); print(open(dst + "/demo.cmd").read()); os.system(f"find {dst}/demo -type f")
