import Aurora.Model.Accept
/-! Reachability invariant of the concrete pyramid walk `Accept.loadKeys`: every key it asks the
    getter for is the root or a reference (an aligned `refLen`-byte slice of the payload) found in a
    chunk the getter served for an already reachable key. -/
namespace Aurora.Accept
open Aurora.Bmt

/-- `k'` is a reference slice of the reference area `d` -/
def RefSlice (refLen : Nat) (d : Bytes) (k' : Key) : Prop :=
  ∃ cursor, cursor + refLen ≤ d.length ∧ k' = (d.drop cursor).take refLen

/-- keys reachable from `root` through the getter: the root, and every reference slice of the
    payload (`chunk[8:]`) of a chunk served for a reachable key -/
inductive Reach (getc : Key → Option Bytes) (refLen : Nat) (root : Key) : Key → Prop
  | root : Reach getc refLen root root
  | step {k k' : Key} {ch : Bytes} : Reach getc refLen root k → getc k = some ch →
      RefSlice refLen (ch.drop 8) k' → Reach getc refLen root k'

variable (getc : Key → Option Bytes) (C refLen : Nat) (P : Key → Prop)

/-- what the invariant needs from a (recursive) reader -/
def RecOk (rec : Bytes → Int → Int → Int → Int → Except WalkErr (Int × List Key)) : Prop :=
  ∀ d c s o b n ks, rec d c s o b = .ok (n, ks) → (∀ k', RefSlice refLen d k' → P k') → ∀ k ∈ ks, P k

theorem rdStep_inv (rec : Bytes → Int → Int → Int → Int → Except WalkErr (Int × List Key))
    (hrec : RecOk refLen P rec)
    (hstep : ∀ k ch k', P k → getc k = some ch → RefSlice refLen (ch.drop 8) k' → P k')
    (data : Bytes) (sz : Int) (hdata : ∀ k', RefSlice refLen data k' → P k')
    (acc : Except WalkErr LoopSt) (cursor : Nat)
    (hacc : ∀ st, acc = .ok st → ∀ k ∈ st.keys, P k) :
    ∀ st', rdStep getc C refLen rec data sz acc cursor = .ok st' → ∀ k ∈ st'.keys, P k := by
  intro st' h
  unfold rdStep at h
  cases acc with
  | error e => simp at h
  | ok st =>
    have hst := hacc st rfl
    simp only at h
    split at h
    · cases h; exact hst
    · split at h
      · cases h; exact hst
      · split at h
        · cases h
        · rename_i hle
          have haddr : P ((data.drop cursor).take refLen) := hdata _ ⟨cursor, by omega, rfl⟩
          split at h
          · cases h
          · rename_i ch hget
            split at h
            · cases h
            · split at h
              · cases h
              · split at h
                · cases h
                · rename_i n' ks hr
                  cases h
                  intro k hk
                  simp only [List.mem_append, List.mem_cons] at hk
                  rcases hk with hk | rfl | hk
                  · exact hst k hk
                  · exact haddr
                  · exact hrec _ _ _ _ _ _ _ hr (fun k' hk' => hstep _ _ _ haddr hget hk') k hk

theorem foldl_rdStep_inv (rec : Bytes → Int → Int → Int → Int → Except WalkErr (Int × List Key))
    (hrec : RecOk refLen P rec)
    (hstep : ∀ k ch k', P k → getc k = some ch → RefSlice refLen (ch.drop 8) k' → P k')
    (data : Bytes) (sz : Int) (hdata : ∀ k', RefSlice refLen data k' → P k') :
    ∀ (cursors : List Nat) (acc : Except WalkErr LoopSt),
      (∀ st, acc = .ok st → ∀ k ∈ st.keys, P k) →
      ∀ st', cursors.foldl (rdStep getc C refLen rec data sz) acc = .ok st' → ∀ k ∈ st'.keys, P k
  | [], acc, hacc, st', h => hacc st' h
  | c :: rest, acc, hacc, st', h => by
    simp only [List.foldl_cons] at h
    exact foldl_rdStep_inv rec hrec hstep data sz hdata rest _
      (rdStep_inv getc C refLen P rec hrec hstep data sz hdata acc c hacc) st' h

theorem readAtOffset_inv
    (hstep : ∀ k ch k', P k → getc k = some ch → RefSlice refLen (ch.drop 8) k' → P k') :
    ∀ f, RecOk refLen P (readAtOffset getc C refLen f)
  | 0 => by intro d c s o b n ks h; simp [readAtOffset] at h
  | f + 1 => by
    intro d c s o b n ks h hdata
    unfold readAtOffset at h
    split at h
    · dsimp only at h
      split at h
      · cases h
      · cases h; simp
    · dsimp only at h
      split at h
      · cases h
      · rename_i st hfold
        cases h
        exact foldl_rdStep_inv getc C refLen P _ (readAtOffset_inv hstep f) hstep d s hdata _ _
          (by intro st0 h0; cases h0; simp) st hfold

theorem readAllLoop_inv
    (hstep : ∀ k ch k', P k → getc k = some ch → RefSlice refLen (ch.drop 8) k' → P k')
    (rootData : Bytes) (span : Int) (hdata : ∀ k', RefSlice refLen rootData k' → P k') :
    ∀ (f : Nat) (i off total : Int) (keys ks : List Key), (∀ k ∈ keys, P k) →
      readAllLoop getc C refLen rootData span f i off total keys = .ok ks → ∀ k ∈ ks, P k
  | 0, _, _, _, _, _, _, h => by simp [readAllLoop] at h
  | f + 1, i, off, total, keys, ks, hkeys, h => by
    unfold readAllLoop at h
    split at h
    · split at h
      · cases h
      · split at h
        · cases h
        · rename_i n ks' hr
          apply readAllLoop_inv hstep rootData span hdata f _ _ _ _ ks ?_ h
          intro k hk
          rcases List.mem_append.mp hk with hk | hk
          · exact hkeys k hk
          · exact readAtOffset_inv getc C refLen P hstep 16 _ _ _ _ _ _ _ hr hdata k hk
    · split at h
      · cases h
      · cases h; exact hkeys

/-- every key the concrete walk asks for is reachable from the root -/
theorem loadKeys_reach (maxReads : Nat) (root : Key) (ks : List Key)
    (h : loadKeys C refLen maxReads getc root = .ok ks) : ∀ k ∈ ks, Reach getc refLen root k := by
  unfold loadKeys at h
  split at h
  · cases h
  · rename_i ch hget
    split at h
    · cases h
    · have hstep : ∀ k ch k', Reach getc refLen root k → getc k = some ch →
          RefSlice refLen (ch.drop 8) k' → Reach getc refLen root k' :=
        fun k ch k' hk hg hr => Reach.step hk hg hr
      have hdata : ∀ k', RefSlice refLen (ch.drop 8) k' → Reach getc refLen root k' :=
        fun k' hr => Reach.step Reach.root hget hr
      dsimp only at h
      split at h
      · cases h
      · rename_i ks' hr
        have hall := readAllLoop_inv getc C refLen (Reach getc refLen root) hstep _ _ hdata _ _ _ _ [] ks'
          (by simp) hr
        split at h
        · cases h
          intro k hk
          rcases List.mem_cons.mp hk with rfl | hk
          · exact Reach.root
          · exact hall k hk
        · split at h
          · cases h
            intro k hk
            rcases List.mem_cons.mp hk with rfl | hk
            · exact Reach.root
            · exact hall k hk
          · cases h

end Aurora.Accept
