/-
Model of /repo/pkg/routetab/table.go (+ the helpers it uses from utils.go): the route table
over a state store.  Hand translation, tied by the C27 correspondence run (and reused by the
C28 protocol model).

* A node is a `Nat` (the harness maps the 32-byte overlay addresses of its universe to indices).
* The path key is `sha256(items…)`; the model uses the item list itself as the key (collision
  freedom of sha256 on the paths in play is the only thing assumed about the hash).
* `paths`/`routes` are the in-memory maps (`Table.paths`, `Table.routes`), `spaths`/`sroutes`
  the persisted image (`route_pathKey_*`, `route_index_*` in the state store).  Maps are
  association lists; only lookups are observable, the driver sorts dumps.
* Time is an explicit `Nat` (the value written to `Path.UsedTime`).
* `nextHop` is `GetNextHop` *after* the repair (routes whose path is not loaded are ignored);
  `nextHopOld` is the unrepaired function, kept to state what the repair changed.
-/
namespace Aurora.RouteTable

abbrev Node := Nat
/-- path key = hash of the items, modelled by the items themselves -/
abbrev Key := List Node

/-! ### association lists -/
section AList
variable {α β : Type} [DecidableEq α]

def aget : List (α × β) → α → Option β
  | [], _ => none
  | (k, v) :: m, x => if k = x then some v else aget m x

def adel : List (α × β) → α → List (α × β)
  | [], _ => []
  | (k, v) :: m, x => if k = x then adel m x else (k, v) :: adel m x

def aput (m : List (α × β)) (x : α) (v : β) : List (α × β) := (x, v) :: adel m x

end AList

/-- `TargetRoute{Neighbor, PathKey}` -/
structure Route where
  nbr : Node
  key : Key
deriving DecidableEq, Repr

structure Table where
  paths   : List (Key × Nat) := []
  routes  : List (Node × List Route) := []
  spaths  : List (Key × Nat) := []
  sroutes : List (Node × List Route) := []
deriving Repr

def empty : Table := {}

/-- `IterateTarget`: every item but the last, in order (duplicates included). -/
def targets (items : List Node) : List Node := items.dropLast

/-- last item of a path (`items[len(items)-1]`; only used for `len ≥ 2`) -/
def lastHop (items : List Node) : Node := items.getLastD 0

/-- `existRoute` -/
def existRoute (r : Route) (rs : List Route) : Bool :=
  rs.any (fun v => v.key = r.key && v.nbr = r.nbr)

/-- the truncation of the old list in `SavePath` (three-way case split as in the code) -/
def truncOld (alpha : Nat) (old : List Route) : List Route :=
  if old.length > alpha then old.take alpha
  else if old.length = alpha then old.take (alpha - 1)
  else old

/-- body of the `IterateTarget` callback in `SavePath` -/
def addRoute (alpha : Nat) (t : Table) (target : Node) (r : Route) : Table :=
  match aget t.routes target with
  | some (o :: os) =>
    if existRoute r (o :: os) then t
    else
      let new := r :: truncOld alpha (o :: os)
      { t with routes := aput t.routes target new, sroutes := aput t.sroutes target new }
  | _ => { t with routes := aput t.routes target [r], sroutes := aput t.sroutes target [r] }

/-- `SavePath` (with `verifyPath = true`) at time `now` -/
def save (alpha : Nat) (t : Table) (items : List Node) (now : Nat) : Table :=
  if items.length < 2 then t
  else
    let t1 := { t with paths := aput t.paths items now, spaths := aput t.spaths items now }
    (targets items).foldl (fun acc tg => addRoute alpha acc tg ⟨lastHop items, items⟩) t1

/-- `Get`: the keys (= item lists) of the loaded paths of the target's routes, in route order;
    `none` is `ErrNotFound`. -/
def get (t : Table) (target : Node) : Option (List Key) :=
  match aget t.routes target with
  | none => none
  | some rs =>
    let ps := rs.filterMap (fun r => (aget t.paths r.key).map (fun _ => r.key))
    if ps.isEmpty then none else some ps

/-- set semantics of the `map[string]Address` used by `GetNextHop` -/
def dedup : List Node → List Node
  | [] => []
  | x :: xs => if (dedup xs).contains x then dedup xs else x :: dedup xs

/-- `GetNextHop` (repaired): distinct neighbours of the target's routes whose path is loaded and
    that are not in `skips`.  Go returns them in map order; the order here is irrelevant. -/
def nextHop (t : Table) (target : Node) (skips : List Node) : List Node :=
  match aget t.routes target with
  | none => []
  | some rs =>
    dedup ((rs.filter (fun r => (aget t.paths r.key).isSome && !skips.contains r.nbr)).map (·.nbr))

/-- `GetNextHop` before the repair: path presence is not checked. -/
def nextHopOld (t : Table) (target : Node) (skips : List Node) : List Node :=
  match aget t.routes target with
  | none => []
  | some rs => dedup ((rs.filter (fun r => !skips.contains r.nbr)).map (·.nbr))

/-- callback of `Delete`: drop the routes with this path key from one target's list -/
def delRoute (t : Table) (key : Key) (target : Node) : Table :=
  match aget t.routes target with
  | some rs =>
    let now := rs.filter (fun v => v.key ≠ key)
    if now.length < rs.length then { t with routes := aput t.routes target now } else t
  | none => t

/-- `Delete(path)`: memory (path + routes of its targets) and the persisted *path key only*. -/
def delete (t : Table) (items : List Node) : Table :=
  let t1 := { t with paths := adel t.paths items, spaths := adel t.spaths items }
  (targets items).foldl (fun acc tg => delRoute acc items tg) t1

/-- expiry test of `Gc`: `time.Since(UsedTime) > expire` -/
def expired (expire now used : Nat) : Bool := decide (now - used > expire)

/-- `Gc(expire)` at time `now`: `Delete` every loaded path that is older than `expire`. -/
def gc (t : Table) (expire now : Nat) : Table :=
  ((t.paths.filter (fun kv => expired expire now kv.2)).map (·.1)).foldl delete t

/-- restart: a new table over the same store, then `ResumeRoutes` and `ResumePaths`
    (persisted paths longer than `MaxTTL` are deleted from the store and not loaded). -/
def reload (ttl : Nat) (t : Table) : Table :=
  let sp := t.spaths.filter (fun kv => decide (kv.1.length ≤ ttl))
  { paths := sp, routes := t.sroutes, spaths := sp, sroutes := t.sroutes }

inductive Op where
  | save (items : List Node) (now : Nat)
  | delete (items : List Node)
  | gc (expire now : Nat)
  | reload
deriving DecidableEq, Repr

def step (alpha ttl : Nat) (t : Table) : Op → Table
  | .save items now => save alpha t items now
  | .delete items => delete t items
  | .gc e n => gc t e n
  | .reload => reload ttl t

def run (alpha ttl : Nat) (ops : List Op) : Table := ops.foldl (step alpha ttl) empty

end Aurora.RouteTable
