import Aurora.Model.Kv
/-!
# Lemmas about the shared storage model `Aurora/Model/Kv.lean`

1. the byte order: `blt` is a strict total order; prefix lemmas (`hasPrefix`, `bytesIncrement`);
2. the sorted-map specification `SMap` and the refinement lemmas (`get_put`, `get_delete`,
   `sorted_put`, `sorted_delete`, `ext`, batches);
3. cursor lemmas tying `seek/next/prev/last` to lists of entries;
4. generic facts about `takeWhile`/`dropWhile`/`filter` on sorted lists.
Core Lean only.
-/
namespace Aurora.Kv

/-! ## 1. byte order -/

theorem blt_irrefl : ∀ a : Bytes, blt a a = false
  | [] => rfl
  | a :: as => by simp [blt, blt_irrefl as]

theorem blt_trans : ∀ {a b c : Bytes}, blt a b = true → blt b c = true → blt a c = true
  | [], [], _, h, _ => by simp [blt] at h
  | [], _ :: _, [], _, h => by simp [blt] at h
  | [], _ :: _, _ :: _, _, _ => by simp [blt]
  | _ :: _, [], _, h, _ => by simp [blt] at h
  | _ :: _, _ :: _, [], _, h => by simp [blt] at h
  | a :: as, b :: bs, c :: cs, h1, h2 => by
    simp only [blt] at h1 h2 ⊢
    by_cases hab : a.toNat < b.toNat
    · by_cases hbc : b.toNat < c.toNat
      · have : a.toNat < c.toNat := by omega
        simp [this]
      · by_cases hcb : c.toNat < b.toNat
        · simp [hbc, hcb] at h2
        · have : a.toNat < c.toNat := by omega
          simp [this]
    · by_cases hba : b.toNat < a.toNat
      · simp [hab, hba] at h1
      · simp only [hab, hba, if_false] at h1
        by_cases hbc : b.toNat < c.toNat
        · have : a.toNat < c.toNat := by omega
          simp [this]
        · by_cases hcb : c.toNat < b.toNat
          · simp [hbc, hcb] at h2
          · simp only [hbc, hcb, if_false] at h2
            have h3 : ¬ a.toNat < c.toNat := by omega
            have h4 : ¬ c.toNat < a.toNat := by omega
            simp only [h3, h4, if_false]
            exact blt_trans h1 h2

theorem blt_trichotomy : ∀ a b : Bytes, blt a b = true ∨ a = b ∨ blt b a = true
  | [], [] => by simp
  | [], _ :: _ => by simp [blt]
  | _ :: _, [] => by simp [blt]
  | a :: as, b :: bs => by
    simp only [blt]
    by_cases hab : a.toNat < b.toNat
    · simp [hab]
    · by_cases hba : b.toNat < a.toNat
      · simp [hba]
      · have : a = b := UInt8.toNat_inj.mp (by omega)
        subst this
        simp only [hab, if_false]
        rcases blt_trichotomy as bs with h | h | h
        · exact Or.inl h
        · exact Or.inr (Or.inl (by rw [h]))
        · exact Or.inr (Or.inr h)

theorem blt_asymm {a b : Bytes} (h : blt a b = true) : blt b a = false := by
  cases hba : blt b a
  · rfl
  · have := blt_trans h hba
    rw [blt_irrefl] at this
    cases this

theorem blt_ne {a b : Bytes} (h : blt a b = true) : a ≠ b := by
  intro e; subst e; rw [blt_irrefl] at h; cases h

/-- `¬ a < b` and `¬ b < a` force equality -/
theorem eq_of_not_blt {a b : Bytes} (h1 : blt a b = false) (h2 : blt b a = false) : a = b := by
  rcases blt_trichotomy a b with h | h | h
  · rw [h1] at h; cases h
  · exact h
  · rw [h2] at h; cases h

/-- `a ≤ b < c → a < c` -/
theorem blt_of_le_of_lt {a b c : Bytes} (h1 : blt b a = false) (h2 : blt b c = true) :
    blt a c = true := by
  rcases blt_trichotomy a b with h | h | h
  · exact blt_trans h h2
  · subst h; exact h2
  · rw [h1] at h; cases h

/-- `a < b ≤ c → a < c` -/
theorem blt_of_lt_of_le {a b c : Bytes} (h1 : blt a b = true) (h2 : blt c b = false) :
    blt a c = true := by
  rcases blt_trichotomy b c with h | h | h
  · exact blt_trans h1 h
  · subst h; exact h1
  · rw [h2] at h; cases h

/-- `a ≤ b ≤ c → a ≤ c` -/
theorem le_trans' {a b c : Bytes} (h1 : blt b a = false) (h2 : blt c b = false) :
    blt c a = false := by
  cases h : blt c a
  · rfl
  · have := blt_of_lt_of_le h h1
    rw [h2] at this; cases this

theorem ble_trans (a b c : Bytes) (h1 : ble a b = true) (h2 : ble b c = true) : ble a c = true := by
  simp only [ble, Bool.not_eq_true'] at *
  exact le_trans' h1 h2

theorem ble_total (a b : Bytes) : (ble a b || ble b a) = true := by
  simp only [ble]
  rcases blt_trichotomy a b with h | h | h
  · simp [blt_asymm h]
  · subst h; simp [blt_irrefl]
  · simp [blt_asymm h]

theorem ble_antisymm {a b : Bytes} (h1 : ble a b = true) (h2 : ble b a = true) : a = b := by
  simp only [ble, Bool.not_eq_true'] at *
  exact eq_of_not_blt h2 h1

@[simp] theorem blt_nil_right (a : Bytes) : blt a [] = false := by
  cases a <;> rfl

@[simp] theorem blt_cons_same (a : UInt8) (x y : Bytes) : blt (a :: x) (a :: y) = blt x y := by
  simp [blt]

@[simp] theorem hasPrefix_cons_same (a : UInt8) (x y : Bytes) :
    hasPrefix (a :: x) (a :: y) = hasPrefix x y := by
  simp [hasPrefix]

@[simp] theorem hasPrefix_nil (k : Bytes) : hasPrefix k [] = true := by
  cases k <;> rfl

theorem hasPrefix_self : ∀ p : Bytes, hasPrefix p p = true
  | [] => rfl
  | a :: as => by simp [hasPrefix_self as]

theorem hasPrefix_iff_append : ∀ {k p : Bytes}, hasPrefix k p = true ↔ ∃ t, k = p ++ t
  | k, [] => by simp
  | [], b :: bs => by simp [hasPrefix]
  | a :: as, b :: bs => by
    simp only [hasPrefix, Bool.and_eq_true, beq_iff_eq, List.cons_append, List.cons.injEq]
    rw [hasPrefix_iff_append]
    constructor
    · rintro ⟨h, t, ht⟩; exact ⟨t, h, ht⟩
    · rintro ⟨t, h, ht⟩; exact ⟨h, t, ht⟩

/-- a key that carries prefix `p` is `≥ p` -/
theorem not_blt_of_hasPrefix : ∀ {k p : Bytes}, hasPrefix k p = true → blt k p = false
  | k, [] => by cases k <;> simp [blt]
  | [], b :: bs => by simp [hasPrefix]
  | a :: as, b :: bs => by
    simp only [hasPrefix, Bool.and_eq_true, beq_iff_eq]
    rintro ⟨h, hp⟩
    subst h
    simp [not_blt_of_hasPrefix hp]

/-- the keys carrying a prefix form an interval -/
theorem hasPrefix_convex : ∀ {a b c p : Bytes}, hasPrefix a p = true → hasPrefix c p = true →
    blt b a = false → blt c b = false → hasPrefix b p = true
  | _, _, _, [], _, _, _, _ => by simp
  | [], _, _, _ :: _, h, _, _, _ => by simp [hasPrefix] at h
  | _ :: _, _, [], _ :: _, _, h, _, _ => by simp [hasPrefix] at h
  | _ :: _, [], _ :: _, _ :: _, _, _, h, _ => by simp [blt] at h
  | a :: as, b :: bs, c :: cs, p :: ps, ha, hc, hba, hcb => by
    simp only [hasPrefix, Bool.and_eq_true, beq_iff_eq] at ha hc ⊢
    obtain ⟨ha1, ha2⟩ := ha
    obtain ⟨hc1, hc2⟩ := hc
    subst ha1; subst hc1
    -- now `a = c = p`, all three named `c`
    simp only [blt] at hba hcb
    by_cases h1 : b.toNat < c.toNat
    · simp [h1] at hba
    · by_cases h2 : c.toNat < b.toNat
      · simp [h2] at hcb
      · have : b = c := UInt8.toNat_inj.mp (by omega)
        subst this
        simp only [h1, if_false] at hba hcb
        exact ⟨rfl, hasPrefix_convex ha2 hc2 hba hcb⟩

/-- all-0xff prefix (no increment exists): every key `≥ p` carries `p` -/
theorem hasPrefix_of_increment_none : ∀ {p k : Bytes}, bytesIncrement p = none →
    blt k p = false → hasPrefix k p = true
  | [], _, _, _ => by simp
  | _ :: _, [], _, h => by simp [blt] at h
  | b :: bs, a :: as, hi, hk => by
    simp only [bytesIncrement] at hi
    cases hr : bytesIncrement bs with
    | some r => simp [hr] at hi
    | none =>
      simp only [hr] at hi
      have hb : b.toNat = 255 := by
        by_cases hb : b.toNat = 255
        · exact hb
        · simp [hb] at hi
      simp only [blt] at hk
      have ha : a.toNat < 256 := a.toNat_lt
      by_cases h1 : a.toNat < b.toNat
      · simp [h1] at hk
      · have : a = b := UInt8.toNat_inj.mp (by omega)
        subst this
        simp only [h1, if_false] at hk
        simp only [hasPrefix_cons_same]
        exact hasPrefix_of_increment_none hr hk

/-- with `q = bytesIncrement p`: among the keys `≥ p`, those carrying `p` are exactly those `< q` -/
theorem hasPrefix_iff_blt_increment : ∀ {p q k : Bytes}, bytesIncrement p = some q →
    blt k p = false → (hasPrefix k p = true ↔ blt k q = true)
  | [], _, _, h, _ => by simp [bytesIncrement] at h
  | _ :: _, _, [], _, h => by simp [blt] at h
  | b :: bs, q, a :: as, hi, hk => by
    simp only [bytesIncrement] at hi
    simp only [blt] at hk
    cases hr : bytesIncrement bs with
    | some r =>
      simp only [hr, Option.some.injEq] at hi
      subst hi
      by_cases h1 : a.toNat < b.toNat
      · simp [h1] at hk
      · by_cases h2 : b.toNat < a.toNat
        · have hne : a ≠ b := by intro e; subst e; omega
          simp [hasPrefix, blt, h1, h2, hne]
        · have : a = b := UInt8.toNat_inj.mp (by omega)
          subst this
          simp only [h1, if_false] at hk
          simp only [hasPrefix_cons_same, blt_cons_same]
          exact hasPrefix_iff_blt_increment hr hk
    | none =>
      simp only [hr] at hi
      by_cases hb : b.toNat = 255
      · simp [hb] at hi
      · simp only [hb, if_false, Option.some.injEq] at hi
        subst hi
        have hb1 : (b + 1).toNat = b.toNat + 1 := by
          have := b.toNat_lt
          rw [UInt8.toNat_add]; simp; omega
        by_cases h1 : a.toNat < b.toNat
        · simp [h1] at hk
        · by_cases h2 : b.toNat < a.toNat
          · have hne : a ≠ b := by intro e; subst e; omega
            have h3 : ¬ a.toNat < b.toNat + 1 := by omega
            simp [hasPrefix, blt, hne, hb1, h3]
          · have : a = b := UInt8.toNat_inj.mp (by omega)
            subst this
            simp only [h1, if_false] at hk
            have h3 : a.toNat < a.toNat + 1 := by omega
            simp only [hasPrefix_cons_same, blt, hb1, h3, if_true, iff_true]
            exact hasPrefix_of_increment_none hr hk

/-! ## 2. the sorted-map specification and the refinement lemmas -/

/-- strictly ascending keys (hence no duplicate key) -/
def Sorted (s : Store) : Prop := s.Pairwise (fun a b => blt a.1 b.1 = true)

instance (s : Store) : Decidable (Sorted s) := by unfold Sorted; infer_instance

/-- the specification: a finite map as a lookup function -/
abbrev SMap := Bytes → Option Bytes
def SMap.put (m : SMap) (k v : Bytes) : SMap := fun k' => if k' = k then some v else m k'
def SMap.delete (m : SMap) (k : Bytes) : SMap := fun k' => if k' = k then none else m k'
def SMap.write (m : SMap) : Write → SMap
  | .put k v => m.put k v
  | .del k => m.delete k
def SMap.commit (m : SMap) (b : List Write) : SMap := b.foldl SMap.write m

/-- abstraction function -/
def abs (s : Store) : SMap := get s

theorem get_none_of_forall_ne {s : Store} {k : Bytes} (h : ∀ e ∈ s, e.1 ≠ k) : get s k = none := by
  induction s with
  | nil => rfl
  | cons e r ih =>
    obtain ⟨k', v⟩ := e
    have h1 : k' ≠ k := h (k', v) List.mem_cons_self
    simp only [get, h1, if_false]
    exact ih (fun e he => h e (List.mem_cons_of_mem _ he))

theorem sorted_tail {e : Entry} {r : Store} (h : Sorted (e :: r)) : Sorted r :=
  (List.pairwise_cons.mp h).2

theorem sorted_head_lt {e : Entry} {r : Store} (h : Sorted (e :: r)) :
    ∀ x ∈ r, blt e.1 x.1 = true := (List.pairwise_cons.mp h).1

/-- below or at the head of a sorted list nothing is found in the tail -/
theorem get_tail_none {e : Entry} {r : Store} {k : Bytes} (h : Sorted (e :: r))
    (hk : blt e.1 k = false) : get r k = none := by
  apply get_none_of_forall_ne
  intro x hx hxk
  have h1 := sorted_head_lt h x hx
  rw [hxk] at h1
  rw [hk] at h1; cases h1

theorem get_put (s : Store) (k v k' : Bytes) :
    get (put s k v) k' = if k' = k then some v else get s k' := by
  induction s with
  | nil =>
    by_cases h : k' = k
    · subst h; simp [put, get]
    · have h' : ¬ k = k' := fun e => h e.symm
      simp [put, get, h, h']
  | cons e r ih =>
    obtain ⟨k1, v1⟩ := e
    simp only [put]
    by_cases h1 : blt k k1 = true
    · simp only [h1, if_true, get]
      by_cases h : k' = k
      · subst h; simp
      · have h' : ¬ k = k' := fun e => h e.symm
        simp [h, h']
    · rw [if_neg h1]
      by_cases h2 : k = k1
      · subst h2
        simp only [if_true]
        by_cases h : k' = k
        · subst h; simp [get]
        · have h' : ¬ k = k' := fun e => h e.symm
          simp [get, h, h']
      · simp only [h2, if_false, get, ih]
        by_cases h : k' = k
        · subst h
          have : ¬ k1 = k' := fun e => h2 e.symm
          simp [this]
        · simp [h]

theorem delete_sublist (s : Store) (k : Bytes) : (delete s k).Sublist s := by
  induction s with
  | nil => exact List.Sublist.refl _
  | cons e r ih =>
    obtain ⟨k1, v1⟩ := e
    simp only [delete]
    split
    · exact List.sublist_cons_self _ _
    · exact ih.cons_cons _

theorem sorted_delete {s : Store} (h : Sorted s) (k : Bytes) : Sorted (delete s k) :=
  List.Pairwise.sublist (delete_sublist s k) h

theorem get_delete {s : Store} (hs : Sorted s) (k k' : Bytes) :
    get (delete s k) k' = if k' = k then none else get s k' := by
  induction s with
  | nil => simp [delete, get]
  | cons e r ih =>
    obtain ⟨k1, v1⟩ := e
    simp only [delete]
    by_cases h1 : k1 = k
    · subst h1
      simp only [if_true, get]
      by_cases h : k' = k1
      · subst h
        simp only [if_true]
        exact get_tail_none hs (blt_irrefl _)
      · have h' : ¬ k1 = k' := fun e => h e.symm
        simp [h, h']
    · simp only [h1, if_false, get, ih (sorted_tail hs)]
      by_cases h : k' = k
      · subst h; simp [h1]
      · simp [h]

theorem mem_put {s : Store} {k v : Bytes} {e : Entry} (h : e ∈ put s k v) : e = (k, v) ∨ e ∈ s := by
  induction s with
  | nil => simp [put] at h; exact Or.inl h
  | cons x r ih =>
    obtain ⟨k1, v1⟩ := x
    simp only [put] at h
    split at h
    · rcases List.mem_cons.mp h with h | h
      · exact Or.inl h
      · exact Or.inr h
    · split at h
      · rcases List.mem_cons.mp h with h | h
        · exact Or.inl h
        · exact Or.inr (List.mem_cons_of_mem _ h)
      · rcases List.mem_cons.mp h with h | h
        · exact Or.inr (h ▸ List.mem_cons_self)
        · rcases ih h with h | h
          · exact Or.inl h
          · exact Or.inr (List.mem_cons_of_mem _ h)

theorem sorted_put {s : Store} (hs : Sorted s) (k v : Bytes) : Sorted (put s k v) := by
  induction s with
  | nil => simp [put, Sorted]
  | cons x r ih =>
    obtain ⟨k1, v1⟩ := x
    simp only [put]
    by_cases h1 : blt k k1 = true
    · simp only [h1, if_true]
      refine List.pairwise_cons.mpr ⟨?_, hs⟩
      intro e he
      rcases List.mem_cons.mp he with he | he
      · subst he; exact h1
      · exact blt_trans h1 (sorted_head_lt hs e he)
    · rw [if_neg h1]
      by_cases h2 : k = k1
      · subst h2
        simp only [if_true]
        exact List.pairwise_cons.mpr ⟨fun x hx => sorted_head_lt hs x hx, sorted_tail hs⟩
      · simp only [h2, if_false]
        refine List.pairwise_cons.mpr ⟨?_, ih (sorted_tail hs)⟩
        intro e he
        rcases mem_put he with he | he
        · subst he
          rcases blt_trichotomy k k1 with h | h | h
          · exact absurd h h1
          · exact absurd h h2
          · exact h
        · exact sorted_head_lt hs e he

/-- in a sorted store, membership and lookup agree: the list *is* the ascending listing of the map -/
theorem mem_iff_get {s : Store} (hs : Sorted s) (k v : Bytes) : (k, v) ∈ s ↔ get s k = some v := by
  induction s with
  | nil => simp [get]
  | cons e r ih =>
    obtain ⟨k1, v1⟩ := e
    simp only [List.mem_cons, get]
    by_cases h1 : k1 = k
    · subst h1
      simp only [if_true, Option.some.injEq]
      constructor
      · rintro (h | h)
        · exact (Prod.mk.inj h).2.symm
        · have := sorted_head_lt hs _ h
          simp [blt_irrefl] at this
      · intro h; subst h; exact Or.inl rfl
    · simp only [h1, if_false]
      rw [← ih (sorted_tail hs)]
      constructor
      · rintro (h | h)
        · exact absurd (Prod.mk.inj h).1.symm h1
        · exact h
      · exact Or.inr

/-- a sorted store is determined by its lookup function (uniqueness of the sorted listing) -/
theorem ext : ∀ {s1 s2 : Store}, Sorted s1 → Sorted s2 → (∀ k, get s1 k = get s2 k) → s1 = s2
  | [], [], _, _, _ => rfl
  | [], (k2, v2) :: _, _, _, h => by have := h k2; simp [get] at this
  | (k1, v1) :: _, [], _, _, h => by have := h k1; simp [get] at this
  | (k1, v1) :: r1, (k2, v2) :: r2, h1, h2, h => by
    rcases blt_trichotomy k1 k2 with hlt | heq | hgt
    · have := h k1
      have hne : ¬ k2 = k1 := fun e => blt_ne hlt e.symm
      simp only [get, if_true, hne, if_false] at this
      rw [get_tail_none h2 (blt_asymm hlt)] at this
      cases this
    · subst heq
      have hv := h k1
      simp only [get, if_true, Option.some.injEq] at hv
      subst hv
      have : r1 = r2 := by
        apply ext (sorted_tail h1) (sorted_tail h2)
        intro k
        by_cases hk : k1 = k
        · subst hk
          rw [get_tail_none h1 (blt_irrefl _), get_tail_none h2 (blt_irrefl _)]
        · have := h k
          simpa [get, hk] using this
      rw [this]
    · have := h k2
      have hne : ¬ k1 = k2 := fun e => blt_ne hgt e.symm
      simp only [get, if_true, hne, if_false] at this
      rw [get_tail_none h1 (blt_asymm hgt)] at this
      cases this

theorem abs_put (s : Store) (k v : Bytes) : abs (put s k v) = (abs s).put k v := by
  funext k'; exact get_put s k v k'

theorem abs_delete {s : Store} (hs : Sorted s) (k : Bytes) : abs (delete s k) = (abs s).delete k := by
  funext k'; exact get_delete hs k k'

theorem sorted_applyWrite {s : Store} (hs : Sorted s) (w : Write) : Sorted (applyWrite s w) := by
  cases w with
  | put k v => exact sorted_put hs k v
  | del k => exact sorted_delete hs k

theorem abs_applyWrite {s : Store} (hs : Sorted s) (w : Write) :
    abs (applyWrite s w) = (abs s).write w := by
  cases w with
  | put k v => exact abs_put s k v
  | del k => exact abs_delete hs k

theorem sorted_commit {s : Store} (hs : Sorted s) (b : List Write) : Sorted (commit s b) := by
  induction b generalizing s with
  | nil => exact hs
  | cons w b ih => exact ih (sorted_applyWrite hs w)

theorem abs_commit {s : Store} (hs : Sorted s) (b : List Write) :
    abs (commit s b) = (abs s).commit b := by
  induction b generalizing s with
  | nil => rfl
  | cons w b ih =>
    simp only [commit, SMap.commit, List.foldl_cons]
    have := ih (sorted_applyWrite hs w)
    simp only [commit, SMap.commit] at this
    rw [this, abs_applyWrite hs w]

/-! ## 3. generic facts about sorted lists -/

section Generic
variable {α : Type} {R : α → α → Prop} {P : α → Bool}

/-- if `P` is closed towards the front of a sorted list, `takeWhile P = filter P` -/
theorem takeWhile_eq_filter {l : List α} (hl : l.Pairwise R)
    (hP : ∀ a b, a ∈ l → b ∈ l → R a b → P b = true → P a = true) : l.takeWhile P = l.filter P := by
  induction l with
  | nil => rfl
  | cons x r ih =>
    have hr := (List.pairwise_cons.mp hl).2
    have hx := (List.pairwise_cons.mp hl).1
    have ih' := ih hr (fun a b ha hb => hP a b (List.mem_cons_of_mem _ ha) (List.mem_cons_of_mem _ hb))
    by_cases hpx : P x = true
    · simp [List.takeWhile, List.filter, hpx, ih']
    · have : r.filter P = [] := by
        apply List.filter_eq_nil_iff.mpr
        intro b hb hpb
        exact hpx (hP x b List.mem_cons_self (List.mem_cons_of_mem _ hb) (hx b hb) hpb)
      simp [List.takeWhile, List.filter, hpx, this]

/-- under the same condition `dropWhile P = filter (not P)` -/
theorem dropWhile_eq_filter {l : List α} (hl : l.Pairwise R)
    (hP : ∀ a b, a ∈ l → b ∈ l → R a b → P b = true → P a = true) :
    l.dropWhile P = l.filter (fun a => !P a) := by
  induction l with
  | nil => rfl
  | cons x r ih =>
    have hr := (List.pairwise_cons.mp hl).2
    have hx := (List.pairwise_cons.mp hl).1
    have ih' := ih hr (fun a b ha hb => hP a b (List.mem_cons_of_mem _ ha) (List.mem_cons_of_mem _ hb))
    by_cases hpx : P x = true
    · simp [List.dropWhile, List.filter, hpx, ih']
    · have : r.filter (fun a => !P a) = r := by
        apply List.filter_eq_self.mpr
        intro b hb
        cases hpb : P b
        · rfl
        · exact absurd (hP x b List.mem_cons_self (List.mem_cons_of_mem _ hb) (hx b hb) hpb) hpx
      simp [List.dropWhile, List.filter, hpx, this]

end Generic

/-! ## 4. cursor lemmas -/

@[simp] theorem seek_all (s : Store) (k : Bytes) : (seek s k).all = s := by
  simp [Cursor.all, seek, List.takeWhile_append_dropWhile]

@[simp] theorem seek_fwdList (s : Store) (k : Bytes) :
    (seek s k).fwdList = s.dropWhile (fun e => blt e.1 k) := rfl

@[simp] theorem seek_soi (s : Store) (k : Bytes) : (seek s k).soi = false := rfl

theorem Cursor.valid_eq_fwd (c : Cursor) : c.valid = !c.fwdList.isEmpty := by
  unfold Cursor.valid Cursor.fwdList; cases c.soi <;> simp

theorem Cursor.valid_eq_bwd (c : Cursor) : c.valid = !c.bwdList.isEmpty := by
  unfold Cursor.valid Cursor.bwdList
  cases c.soi <;> cases c.right <;> simp

/-- one loop step forwards: the current entry, then whatever `Next` reaches -/
theorem Cursor.fwdList_step (c : Cursor) (h : c.valid = true) :
    c.fwdList = (c.key, c.value) :: c.next.fwdList := by
  obtain ⟨l, r, soi⟩ := c
  cases soi
  · cases r with
    | nil => simp [Cursor.valid] at h
    | cons e r => simp [Cursor.fwdList, Cursor.key, Cursor.value, Cursor.next]
  · simp [Cursor.valid] at h

/-- one loop step backwards -/
theorem Cursor.bwdList_step (c : Cursor) (h : c.valid = true) :
    c.bwdList = (c.key, c.value) :: c.prev.bwdList := by
  obtain ⟨l, r, soi⟩ := c
  cases soi
  · cases r with
    | nil => simp [Cursor.valid] at h
    | cons e r =>
      cases l with
      | nil => simp [Cursor.bwdList, Cursor.key, Cursor.value, Cursor.prev]
      | cons x l => simp [Cursor.bwdList, Cursor.key, Cursor.value, Cursor.prev]
  · simp [Cursor.valid] at h

/-- `Prev` from any position that is not start-of-input lands on the nearest entry to the left
    (from end-of-input: on the last entry) -/
theorem Cursor.prev_bwdList (c : Cursor) (h : c.soi = false) : c.prev.bwdList = c.left := by
  obtain ⟨l, r, soi⟩ := c
  simp only at h; subst h
  cases l with
  | nil => simp [Cursor.prev, Cursor.bwdList]
  | cons x l => simp [Cursor.prev, Cursor.bwdList]

theorem Cursor.last_bwdList (c : Cursor) : c.last.bwdList = c.all.reverse := by
  unfold Cursor.last
  cases h : c.all.reverse with
  | nil => simp [Cursor.bwdList]
  | cons e l => simp [Cursor.bwdList]

theorem Cursor.key_of_fwd {c : Cursor} {e : Entry} {r : List Entry} (h : c.fwdList = e :: r) :
    c.key = e.1 ∧ c.value = e.2 := by
  obtain ⟨l, rr, soi⟩ := c
  cases soi
  · simp only [Cursor.fwdList] at h
    simp at h
    subst h
    simp [Cursor.key, Cursor.value]
  · simp [Cursor.fwdList] at h

theorem Cursor.key_of_invalid {c : Cursor} (h : c.valid = false) : c.key = [] ∧ c.value = [] := by
  obtain ⟨l, r, soi⟩ := c
  cases soi
  · cases r with
    | nil => simp [Cursor.key, Cursor.value]
    | cons e r => simp [Cursor.valid] at h
  · simp [Cursor.key, Cursor.value]

theorem Cursor.key_of_bwd {c : Cursor} {e : Entry} {r : List Entry} (h : c.bwdList = e :: r) :
    c.key = e.1 ∧ c.value = e.2 := by
  obtain ⟨l, rr, soi⟩ := c
  cases soi
  · cases rr with
    | nil => simp [Cursor.bwdList] at h
    | cons x rr =>
      simp only [Cursor.bwdList] at h
      simp at h
      obtain ⟨h1, _⟩ := h
      subst h1
      simp [Cursor.key, Cursor.value]
  · simp [Cursor.bwdList] at h

theorem Cursor.key_of_bwd_nil {c : Cursor} (h : c.bwdList = []) : c.key = [] ∧ c.value = [] := by
  apply Cursor.key_of_invalid
  rw [Cursor.valid_eq_bwd, h]; rfl

theorem Cursor.key_of_fwd_nil {c : Cursor} (h : c.fwdList = []) : c.key = [] ∧ c.value = [] := by
  apply Cursor.key_of_invalid
  rw [Cursor.valid_eq_fwd, h]; rfl

@[simp] theorem Cursor.last_all (c : Cursor) : c.last.all = c.all := by
  unfold Cursor.last
  cases h : c.all.reverse with
  | nil =>
    have : c.all = [] := by simpa using h
    rw [this]; rfl
  | cons e l =>
    have : c.all = (e :: l).reverse := by rw [← h, List.reverse_reverse]
    rw [this]; simp [Cursor.all]

theorem seek_left (s : Store) (k : Bytes) :
    (seek s k).left = (s.takeWhile (fun e => blt e.1 k)).reverse := rfl

end Aurora.Kv
