import Aurora.Model.Depth
namespace Aurora.Props.C22
open Aurora.Topo

/-- clause 1: the depth never exceeds the radius -/
theorem C22_depth_le_radius (p : Params) (bins : Bins) (radius : Nat) :
    recalcDepth p bins radius ≤ radius := by
  unfold recalcDepth
  split
  · omega
  · simp only []
    split <;> split <;> omega

end Aurora.Props.C22
