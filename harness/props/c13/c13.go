// Package c13: correspondence + model-free oracle for property C13
// (cache accounting keeps garbage collection bounded).
package c13

import (
	"bytes"
	"fmt"
	"strings"

	"verifharness/core"
	"verifharness/lsharness"
)

type prop struct{}

func init() { core.Register(prop{}) }

func (prop) ID() string { return "C13" }
func (prop) Rule() string {
	return "histories of 8-45 ops over the 8-address universe and 4 roots: request puts with file context (single and batched), gets in ModeGetRequest with and without root, " +
		"pins/unpins/removals (files with repeated chunks: the same chunk pinned several times under one root), ModeSetSync at low rate, clock changes, reopen, " +
		"and collection runs: `cap 1..6`, scripted pyramids (true layout 70 %, shared chunks left out, foreign chunks, Number 2, unknown file), `gcsel`, 0-3 racing ops " +
		"(among them accesses to the file being evicted), `gcevict`, often a follow-up run; stray gcsel/gcevict/cap lines; fixed regression cases for every known trigger first. " +
		"After every op the result, the trigger flag and the full dump are compared with the Lean model; the oracle recomputes gcSize - ΣGCounter from the dump after every op. " +
		"Non-trivial: >=1 request put with root context, >=1 completed collection run with candidates or >=1 pin/unpin with root context; distinct by op-list hash."
}

var fixed = []core.Case{
	{ID: "fix-known-gc-clamp", NT: true, Ops: strings.Split("put req 80 80:33; put req 80 81:fd83; put req 80 c0:d8; put req 80 40:698f; put req 81 10:48ad; put req 80 41:29; put req 80 81:d9c9; set pin 81 81,10,c0; put up - 41:0f,40:6607; put uppin 40 81:d0ac; put up - 40:89ec; cap 3; pyr 80 81:1,c0:1,40:1,01:1,41:1,10:1; pyr 81 c0:1; pyr 40 81:1,c0:1; gcsel; put up - 20:e7; gcevict", "; ")},
	{ID: "fix-known-gc-recount", NT: true, Ops: strings.Split("put req 40 40:18a0; put req 40 80:4d0b; put req 40 81:09; put req 40 20:3a86; now 10 1; set unpin 40 c0; set unpin - -; cap 0; hasm pin 41,80,20; hasm pin 01,40; put req 40 10:a07a; put uppin 81 41:78; now 30 0; put uppin 40 40:207b; set remove - 01,41; put req 80 01:778d; set unpin 81 80; get req - 20; set unpin 20 20; gcsel; put uppin 80 01:7f,20:83,20:11; cap 4; pyr 80 01:1,20:1; pyr 81 80:1; pyr 40 10:2,81:1,41:1; gcsel; gcevict", "; ")},
	{ID: "fix-batched-req", NT: true, Ops: []string{"put req 80 80:aa", "put req 80 81:bb,c0:cc", "reopen"}},
	{ID: "fix-pin-repeated-chunk", NT: true, Ops: []string{"put req 40 40:01", "put req 80 80:aa", "put req 80 81:bb", "set pin 80 80", "set pin 80 81", "set pin 80 81", "reopen"}},
	{ID: "fix-uppin-root", NT: true, Ops: []string{"put req 80 80:aa", "put req 80 81:bb", "put uppin 80 c0:cc", "reopen"}},
	{ID: "fix-skip-decrement", NT: true, Ops: []string{"put req 80 80:aa", "set pin 80 80", "set pin 80 80", "set unpin 80 80", "set unpin 80 80"}},
	{ID: "fix-all-dirty-gc", NT: true, Ops: []string{"put req 80 80:aa", "put req 80 81:bb", "put req 40 40:01", "pyr 80 81:1", "pyr 40 -", "cap 2", "gcsel", "get req 80 81", "get req 40 40", "gcevict", "reopen"}},
	{ID: "fix-gc-clean", NT: true, Ops: []string{"put req 80 80:aa", "put req 80 81:bb", "put req 40 40:01", "pyr 80 81:1", "pyr 40 -", "cap 2", "gcsel", "gcevict", "gcsel", "gcevict", "reopen"}},
	{ID: "fix-gc-shared-chunk", NT: true, Ops: []string{"put req 80 80:aa", "put req 80 81:bb", "put req 80 c0:cc", "pyr 80 81:1", "cap 2", "gcsel", "gcevict", "reopen"}},
	{ID: "fix-gc-unknown-file", NT: true, Ops: []string{"put req 80 80:aa", "put req 80 81:bb", "cap 1", "gcsel", "gcevict", "reopen"}},
	{ID: "fix-failed-batch-direct-write", NT: true, Ops: []string{"put req 20 20:aa", "put req 20 c0:bb", "set pin 20 20,41", "reopen"}},
	{ID: "fix-sync", NT: true, Ops: []string{"put up - 80:aa", "set sync - 80", "set sync - 80", "set pin 80 80", "reopen"}},
	{ID: "fix-remove-root-entry", NT: true, Ops: []string{"put req 80 80:aa", "put req 80 81:bb", "set remove 80 81", "set remove 80 80", "reopen"}},
	// GCounter-- on the GCounter=0 entry of ModeSetSync wraps to 2^64-1; the next GCounter++ (setGC / setUnpin) wraps back to 0
	{ID: "fix-wrap-increment-put", NT: true, Ops: []string{"put up - 80:aa", "set sync - 80", "set pin 80 80", "put req 80 81:bb", "reopen"}},
	{ID: "fix-wrap-increment-unpin", NT: true, Ops: []string{"put up - 80:aa", "set sync - 80", "set pin 80 80", "set unpin 80 80", "reopen"}},
	// a collection run that quiesces while the wrapped counter is still in the index
	{ID: "fix-wrapped-counter-gc", NT: true, Ops: []string{"put up - 80:aa", "set sync - 80", "set pin 80 80", "put req 40 40:01", "cap 1", "pyr 40 -", "gcsel", "gcevict", "reopen"}},
}

func (prop) Gen(r *core.Rand, tier string) []core.Case {
	n := 500
	if tier == "thorough" {
		n = 12000
	}
	cs := append([]core.Case(nil), fixed...)
	for i := 0; i < n; i++ {
		cfg := lsharness.GenConfig{MinOps: 8, MaxOps: 45, GC: true, Reopen: true, ClockStep: i%3 == 0, Batches: 25,
			Sync: i%4 == 0, BadModes: i%10 == 0, SetDups: i%7 == 0, DirectWrites: 35}
		ops := lsharness.GenHistory(r.Fork(), cfg)
		cs = append(cs, core.Case{ID: fmt.Sprintf("g%d", i), NT: nontrivial(ops), Ops: ops})
	}
	return cs
}

func nontrivial(ops []string) bool {
	reqRoot, gc, pin := 0, 0, 0
	for _, o := range ops {
		var a, b, c string
		fmt.Sscanf(o, "%s %s %s", &a, &b, &c)
		switch {
		case a == "put" && (b == "req" || b == "reqpin") && c != "-":
			reqRoot++
		case a == "gcevict":
			gc++
		case a == "set" && (b == "pin" || b == "unpin") && c != "-":
			pin++
		}
	}
	return reqRoot > 0 && (gc > 0 || pin > 0)
}

// ---- model-free oracle ---------------------------------------------------------------------

type oracle struct{}

func (prop) New() core.Runner {
	return lsharness.NewRunner(lsharness.Options{Oracles: []lsharness.Oracle{&oracle{}}})
}

func delta(d *lsharness.Dump) int64 { return int64(d.GCSize) - int64(d.GCSum()) }

func hasDup(addrs [][]byte) bool {
	for i := range addrs {
		for j := 0; j < i; j++ {
			if bytes.Equal(addrs[i], addrs[j]) {
				return true
			}
		}
	}
	return false
}

// rootGC returns the gc entry the code would look up for root in dump d: key (access ts, bin id, root).
func rootGC(d *lsharness.Dump, root []byte) (cnt uint64, hasAccess, hasEntry bool) {
	ts, ok := d.AccessOf(root)
	if !ok {
		return 0, false, false
	}
	de, ok := d.DataOf(root)
	if !ok {
		return 0, true, false
	}
	for _, g := range d.GC {
		if bytes.Equal(g.Address, root) && g.AccessTimestamp == ts && g.BinID == de.BinID {
			return g.GCounter, true, true
		}
	}
	return 0, true, false
}

func anyZeroCounter(d *lsharness.Dump) bool {
	for _, g := range d.GC {
		if g.GCounter == 0 {
			return true
		}
	}
	return false
}

// anyWrappedCounter: a gc entry whose GCounter is in the upper half of uint64.  A counter counts chunks of one
// file, so such a value only arises by `GCounter--` on 0 (uint64 wrap).
func anyWrappedCounter(d *lsharness.Dump) bool {
	for _, g := range d.GC {
		if g.GCounter >= 1<<63 {
			return true
		}
	}
	return false
}

// Check: the accounting invariant gcSize = Σ GCounter must be *preserved* by every operation
// outside a collection run and by a whole collection run; every op that changes the difference
// is reported under a clause naming the trigger shape.
func (o *oracle) Check(ctx *core.Ctx, ev *lsharness.Event) {
	b, a := ev.Before, ev.After
	db, da := delta(b), delta(a)
	switch ev.Kind {
	case "reopen":
		if ev.Result != "ok" {
			return
		}
		// inv_reopen: the reopened store holds max(gcSize, Σ) (repair only raises); everything else unchanged
		want := b.GCSize
		if s := b.GCSum(); s > want {
			want = s
		}
		if a.GCSize != want {
			ctx.Fail("reopen-recompute", "reopen: gcSize %d -> %d, ΣGCounter=%d (expected %d)", b.GCSize, a.GCSize, b.GCSum(), want)
		}
		if b.GCSize > b.GCSum() {
			ctx.Fail("reopen-keeps-overcount", "reopen: persisted gcSize %d exceeds the recomputed total %d and is not repaired (startup repair only raises)", b.GCSize, b.GCSum())
		}
		return
	case "gcevict":
		if ev.Result == "nogc" || ev.Err != "" {
			return
		}
		target := ev.GCTarget
		if target != ev.GCCapacity*9/10 {
			ctx.Fail("gc-target", "gcTarget() = %d for capacity %d", target, ev.GCCapacity)
		}
		if ev.GCDone && a.GCSize > target {
			ctx.Fail("bounded-gcsize", "collection reported done but gcSize %d > target %d", a.GCSize, target)
		}
		if !ev.GCDone && a.GCSize <= target {
			ctx.Fail("done-flag", "collection reported !done but gcSize %d <= target %d", a.GCSize, target)
		}
		recycled := recycledEntries(b, a)
		forcedZero := len(recycled) == 0 && a.GCSize == 0 && len(a.GC) > 0
		if ev.GCDone && a.GCSum() > ev.GCCapacity {
			switch {
			case forcedZero:
				ctx.Fail("bounded-sum-forced-zero", "collection recycled nothing, forced gcSize to 0 and reported done with ΣGCounter=%d > capacity %d", a.GCSum(), ev.GCCapacity)
			case anyWrappedCounter(a):
				// a GCounter that wrapped below zero (GCounter-- on a GCounter=0 entry left by ModeSetSync) is alone
				// above every capacity; the signed difference gcSize-Σ is meaningless here, so this comes first
				ctx.Fail("bounded-sum-wrapped-counter", "collection quiesced (done) with a gc entry whose GCounter wrapped below zero (GCounter-- on a GCounter=0 entry left by ModeSetSync): ΣGCounter=%d > capacity %d (gcSize=%d)", a.GCSum(), ev.GCCapacity, a.GCSize)
			case db < 0 || da < 0:
				ctx.Fail("bounded-sum-undercount", "collection quiesced (done) with ΣGCounter=%d > capacity %d because gcSize undercounts Σ (before the run %d vs %d, after it %d vs %d)", a.GCSum(), ev.GCCapacity, b.GCSize, b.GCSum(), a.GCSize, a.GCSum())
			default:
				ctx.Fail("bounded-sum", "collection quiesced (done) with ΣGCounter=%d > capacity %d (gcSize=%d)", a.GCSum(), ev.GCCapacity, a.GCSize)
			}
		}
		if da != db {
			// what the run subtracted vs. what the recycled entries had recorded
			var recorded, evicted uint64
			faithful := true
			for _, g := range recycled {
				recorded += g.GCounter
				n := uint64(1) // the root
				seen := map[string]bool{}
				for _, c := range ev.Pyramids[string(g.Address)] {
					if seen[string(c.Addr)] {
						faithful = false // a cid listed twice: not a pyramid chunkinfo can produce
					}
					if _, ok := b.DataOf(c.Addr); ok && !seen[string(c.Addr)] && b.PinOf(c.Addr) <= uint64(c.Num) {
						n++
					}
					seen[string(c.Addr)] = true
				}
				evicted += n
				if n != g.GCounter {
					faithful = false
				}
			}
			switch {
			case anyZeroCounter(b):
				ctx.Fail("inv-gc-zero-counter-entry", "collection run with a GCounter=0 entry (ModeSetSync): gcSize-Σ %d -> %d", db, da)
			case forcedZero:
				ctx.Fail("inv-gc-nothing-recycled-forces-zero", "collection run recycled no file (all candidates dirty or unknown to chunkinfo) and forced gcSize to 0 while %d gc entries (Σ=%d) remain", len(a.GC), a.GCSum())
			case len(recycled) == 0:
				ctx.Fail("inv-gc-nothing-recycled-forces-zero", "collection run recycled no file and forced gcSize %d -> 0 (Σ=%d)", b.GCSize, a.GCSum())
			case !faithful:
				ctx.Fail("inv-gc-pyramid-count-mismatch", "eviction removed %d chunks for files whose gc entries recorded %d (pyramid reported by chunkinfo lists other chunks than were counted: shared / pinned / uploaded chunks): gcSize %d -> %d, Σ %d -> %d", evicted, recorded, b.GCSize, a.GCSize, b.GCSum(), a.GCSum())
			case b.GCSize < recorded:
				ctx.Fail("inv-gc-clamp", "collected count %d exceeds gcSize %d (undercount from an earlier defect): gcSize clamped to 0, Σ %d -> %d", evicted, b.GCSize, b.GCSum(), a.GCSum())
			default:
				ctx.Fail("inv-gc-recount", "collection run: gcSize %d -> %d, Σ %d -> %d, recycled entries recorded %d, evicted %d", b.GCSize, a.GCSize, b.GCSum(), a.GCSum(), recorded, evicted)
			}
		}
		return
	}
	if da == db {
		return
	}
	// an ordinary operation changed gcSize - Σ
	root := ev.Root
	multi := len(ev.Addrs) >= 2
	desc := fmt.Sprintf("%s %s root=%s n=%d: gcSize %d -> %d, Σ %d -> %d", ev.Kind, ev.Mode, showRoot(root), len(ev.Addrs), b.GCSize, a.GCSize, b.GCSum(), a.GCSum())
	switch {
	case anyZeroCounter(b) || (ev.Kind == "set" && ev.Mode == "sync"):
		ctx.Fail("inv-sync-zero-counter", "ModeSetSync writes gc entries with GCounter=0 but counts them in gcSize (and later ops mis-handle them): %s", desc)
	case ev.Err != "":
		ctx.Fail("inv-failed-batch-keeps-direct-write", "a failed multi-address call dropped its batch but kept the direct gcIndex.Put of an earlier address: %s", desc)
	case ev.Kind == "put" && ev.Mode == "uppin":
		ctx.Fail("inv-uppin-discards-change", "ModePutUploadPin under a root context changes the root's gc entry but discards setPin's gcSizeChange: %s", desc)
	case multi && root != nil:
		ctx.Fail("inv-batched-call-root", "a call with several addresses under one root context reads the root's gc entry from the database for every address, never from its own batch: %s", desc)
	case (ev.Kind == "set" && ev.Mode == "pin") || (ev.Kind == "put" && ev.Mode == "reqpin"):
		cnt, acc, ent := rootGC(b, root)
		switch {
		case root != nil && acc && !ent && b.GCSize == 0:
			// would be the silent skip, but then the difference does not change; unreachable
			ctx.Fail("inv-pin-other", "%s", desc)
		case root != nil && acc && !ent:
			ctx.Fail("inv-pin-no-gc-entry", "setPin decrements gcSize although the root has no gc entry left (file with a repeated chunk / more pins than cached chunks): %s", desc)
		case root != nil && ent && b.GCSize == 0:
			ctx.Fail("inv-silent-skip", "incGCSizeInBatch silently skipped a decrement larger than gcSize (entry GCounter=%d): %s", cnt, desc)
		default:
			ctx.Fail("inv-pin-other", "%s", desc)
		}
	case ev.Kind == "set" && (ev.Mode == "remove" || ev.Mode == "unpin") && b.GCSize == 0 && a.GCSize == 0 && a.GCSum() < b.GCSum():
		ctx.Fail("inv-silent-skip", "incGCSizeInBatch silently skipped a decrement larger than gcSize: %s", desc)
	default:
		ctx.Fail("inv-step", "%s", desc)
	}
}

// recycledEntries: gc entries present before the run and gone after it.
func recycledEntries(b, a *lsharness.Dump) []lsharness.GCEntry {
	var out []lsharness.GCEntry
	for _, g := range b.GC {
		found := false
		for _, h := range a.GC {
			if bytes.Equal(g.Address, h.Address) && g.AccessTimestamp == h.AccessTimestamp && g.BinID == h.BinID {
				found = true
			}
		}
		if !found {
			out = append(out, g)
		}
	}
	return out
}

func showRoot(r []byte) string {
	if r == nil {
		return "-"
	}
	return lsharness.ShowAddr(r)
}
