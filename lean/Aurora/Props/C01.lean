import Aurora.Lemmas.Upload
/-! # C01 — placeholder (theorems follow) -/
namespace Aurora.HashTrie
open Aurora.Bmt (Bytes)
open Aurora.Tree

/-- the upload path of C01 shares C02's main theorem: the returned reference is the format's tree hash -/
theorem C01_upload_ref (cref : Bytes → Bytes → Bytes) (C B : Nat) (hC : 0 < C) (hB : 2 ≤ B) (segs : List Bytes)
    (hlim : (leafData C segs.flatten).length < B ^ 7) :
    (upload cref C B segs).2 = Spec.root cref C B segs.flatten :=
  upload_eq_spec cref C B hC hB segs hlim

end Aurora.HashTrie
