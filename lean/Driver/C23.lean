import Driver.KadShared
/-! Driver for C23: the shared Kad model driver (op lines: harness/kadh/kadh.go). -/
namespace Driver.C23
def handler : Driver.Handler := Driver.KadShared.handler
end Driver.C23
