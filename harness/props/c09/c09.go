// Package c09: correspondence + oracle for chunk traversal (property C09):
// pkg/traversal (Traverse / GetPyramid / GetChunkHashes), joiner.IterateChunkAddresses,
// manifest.IterateAddresses and pinning.CreatePin over the REAL upload pipeline / manifest / loadsave.
package c09

import (
	"bytes"
	"context"
	"encoding/binary"
	"encoding/hex"
	"fmt"
	"io"
	"os"
	"sort"
	"strconv"
	"strings"
	"sync"

	"github.com/gauss-project/aurorafs/pkg/boson"
	encstore "github.com/gauss-project/aurorafs/pkg/encryption/store"
	"github.com/gauss-project/aurorafs/pkg/file/loadsave"
	"github.com/gauss-project/aurorafs/pkg/file/pipeline"
	"github.com/gauss-project/aurorafs/pkg/file/pipeline/builder"
	"github.com/gauss-project/aurorafs/pkg/manifest"
	"github.com/gauss-project/aurorafs/pkg/pinning"
	statemock "github.com/gauss-project/aurorafs/pkg/statestore/mock"
	"github.com/gauss-project/aurorafs/pkg/storage"
	"github.com/gauss-project/aurorafs/pkg/traversal"

	"verifharness/core"
)

type prop struct{}

func init() { core.Register(prop{}) }

const C = boson.ChunkSize

func (prop) ID() string { return "C09" }
func (prop) Rule() string {
	return "cases: 1-3 objects, each followed by traverse / pyramid / hashes / pin ops. Objects: `file` (plain or encrypted upload through builder.NewPipelineBuilder; sizes 0,1,31..33,4095..4097,C-1,C,C+1,2C-1..2C+1,3C+5, random up to 40 chunks; " +
		"thorough adds one encrypted 4097-chunk file (three levels, periodic content; plus a plain 8193-chunk one when VERIF_C09_GIANT=1)) and `dir` (manifest.NewDefaultManifest over loadsave: 1-40 files, paths over {a,b,c,/,.} with shared prefixes, nesting and some >30-byte paths, " +
		"file sizes mostly <2 KiB plus a few around C and 2C, optional '/' root entry with zero address, plain or encrypted). A smaller malformed stream traverses unknown / odd-length references and unknown ids. " +
		"Non-trivial: some object has more than one chunk written and at least one traversal op ran on it; distinct by op-list hash."
}

// ---------------------------------------------------------------- store

type memStore struct {
	mu   sync.Mutex
	m    map[string][]byte
	log  []string // addresses put since the last resetLog (in order, with repeats)
	pins map[string]bool
	miss int
}

func newStore() *memStore { return &memStore{m: map[string][]byte{}, pins: map[string]bool{}} }

func (s *memStore) Put(_ context.Context, _ storage.ModePut, chs ...boson.Chunk) ([]bool, error) {
	s.mu.Lock()
	defer s.mu.Unlock()
	ex := make([]bool, len(chs))
	for i, c := range chs {
		k := string(c.Address().Bytes())
		if _, ok := s.m[k]; ok {
			ex[i] = true
		} else {
			s.m[k] = append([]byte(nil), c.Data()...)
		}
		s.log = append(s.log, k)
	}
	return ex, nil
}
func (s *memStore) Get(_ context.Context, _ storage.ModeGet, a boson.Address) (boson.Chunk, error) {
	s.mu.Lock()
	defer s.mu.Unlock()
	d, ok := s.m[string(a.Bytes())]
	if !ok {
		return nil, storage.ErrNotFound
	}
	return boson.NewChunk(boson.NewAddress(append([]byte(nil), a.Bytes()...)), d), nil // stored copy is never mutated by readers
}
func (s *memStore) GetMulti(ctx context.Context, m storage.ModeGet, as ...boson.Address) ([]boson.Chunk, error) {
	var out []boson.Chunk
	for _, a := range as {
		c, err := s.Get(ctx, m, a)
		if err != nil {
			return nil, err
		}
		out = append(out, c)
	}
	return out, nil
}
func (s *memStore) Has(_ context.Context, _ storage.ModeHas, a boson.Address) (bool, error) {
	s.mu.Lock()
	defer s.mu.Unlock()
	_, ok := s.m[string(a.Bytes())]
	return ok, nil
}
func (s *memStore) HasMulti(ctx context.Context, m storage.ModeHas, as ...boson.Address) ([]bool, error) {
	out := make([]bool, len(as))
	for i, a := range as {
		out[i], _ = s.Has(ctx, m, a)
	}
	return out, nil
}

// Set behaves like localstore for pinning: a chunk that is not stored cannot be pinned.
func (s *memStore) Set(_ context.Context, mode storage.ModeSet, as ...boson.Address) error {
	s.mu.Lock()
	defer s.mu.Unlock()
	for _, a := range as {
		k := string(a.Bytes())
		if _, ok := s.m[k]; !ok {
			s.miss++
			return storage.ErrNotFound
		}
		if mode == storage.ModeSetPin {
			s.pins[k] = true
		}
	}
	return nil
}
func (s *memStore) Close() error { return nil }

// ---------------------------------------------------------------- helpers

type periodicReader struct {
	base []byte
	n    int64
	off  int64
}

func (p *periodicReader) Read(b []byte) (int, error) {
	if p.off >= p.n {
		return 0, io.EOF
	}
	k := 0
	for k < len(b) && p.off < p.n {
		i := int(p.off % int64(len(p.base)))
		c := copy(b[k:], p.base[i:])
		if int64(c) > p.n-p.off {
			c = int(p.n - p.off)
		}
		k += c
		p.off += int64(c)
	}
	return k, nil
}

// srcReader: g:<seed>:<n> or p:<seed>:<n>:<period> or h:<hex>, streamed (no n-byte buffer for periodic content).
func srcReader(s string) (io.Reader, int64, bool) {
	f := strings.Split(s, ":")
	if len(f) == 4 && f[0] == "p" {
		seed, e1 := strconv.ParseUint(f[1], 10, 64)
		n, e2 := strconv.ParseInt(f[2], 10, 64)
		per, e3 := strconv.Atoi(f[3])
		if e1 != nil || e2 != nil || e3 != nil || n < 0 || per <= 0 || per > 1<<26 {
			return nil, 0, false
		}
		return &periodicReader{base: core.GenBytes(seed, per, 0), n: n}, n, true
	}
	b, ok := core.ParseSrc(s)
	if !ok {
		return nil, 0, false
	}
	return bytes.NewReader(b), int64(len(b)), true
}

type fnv struct{ h uint64 }

func newFnv() *fnv { return &fnv{14695981039346656037} }
func (f *fnv) add(b []byte) {
	for _, x := range b {
		f.h ^= uint64(x)
		f.h *= 1099511628211
	}
}
func (f *fnv) addItem(b []byte) { f.add([]byte{byte(len(b))}); f.add(b) }
func (f *fnv) String() string   { return fmt.Sprintf("%016x", f.h) }

func digestSorted(items [][]byte) string {
	cp := append([][]byte(nil), items...)
	sort.Slice(cp, func(i, j int) bool { return bytes.Compare(cp[i], cp[j]) < 0 })
	f := newFnv()
	for _, x := range cp {
		f.addItem(x)
	}
	return f.String()
}
func digestSeq(items [][]byte) string {
	f := newFnv()
	for _, x := range items {
		f.addItem(x)
	}
	return f.String()
}

// ---------------------------------------------------------------- ground truth (model-free): follow references

type gchunk struct {
	addr    []byte
	span    uint64
	payload []byte // decrypted, padding stripped
}

// walkTree follows the references below ref (a chunk is intermediate iff its span exceeds its payload length).
// It returns the visited chunks (each address once) and, when collect is set, the joined content.
func (rn *runner) walkTree(ref []byte, seen map[string]bool, out *[]gchunk, collect bool, content *[]byte) error {
	g := encstore.New(rn.s)
	ch, err := g.Get(rn.ctx, storage.ModeGetLookup, boson.NewAddress(ref))
	if err != nil {
		return err
	}
	d := ch.Data()
	if len(d) < 8 {
		return fmt.Errorf("short chunk")
	}
	span := binary.LittleEndian.Uint64(d[:8])
	payload := d[8:]
	k := string(ch.Address().Bytes())
	first := !seen[k]
	if first {
		seen[k] = true
		*out = append(*out, gchunk{addr: ch.Address().Bytes(), span: span, payload: payload})
	}
	if span <= uint64(len(payload)) {
		if collect {
			*content = append(*content, payload...)
		}
		return nil
	}
	if !first && !collect {
		return nil // same subtree already visited (periodic content)
	}
	rl := len(ref)
	for c := 0; c+rl <= len(payload); c += rl {
		if err := rn.walkTree(payload[c:c+rl], seen, out, collect, content); err != nil {
			return err
		}
	}
	return nil
}

// own parser of a mantaray 0.2 node blob (independent of the library's UnmarshalBinary)
type mfork struct {
	prefix []byte
	typ    byte
	ref    []byte
}

func parseNode(blob []byte) (entry []byte, forks []mfork, err error) {
	if len(blob) < 64 {
		return nil, nil, fmt.Errorf("short node")
	}
	d := append([]byte(nil), blob...)
	for i := 32; i < len(d); i++ {
		d[i] ^= blob[i%32]
	}
	rs := int(d[63])
	off := 64
	if len(d) < off+rs+32 {
		return nil, nil, fmt.Errorf("short node body")
	}
	entry = d[off : off+rs]
	off += rs
	idx := d[off : off+32]
	off += 32
	for b := 0; b < 256; b++ {
		if idx[b/8]>>(uint(b)%8)&1 == 0 {
			continue
		}
		if len(d) < off+32+rs {
			return nil, nil, fmt.Errorf("short fork")
		}
		typ := d[off]
		pl := int(d[off+1])
		if pl == 0 || pl > 30 {
			return nil, nil, fmt.Errorf("prefix length")
		}
		f := mfork{prefix: d[off+2 : off+2+pl], typ: typ, ref: d[off+32 : off+32+rs]}
		off += 32 + rs
		if typ&16 != 0 {
			if len(d) < off+2 {
				return nil, nil, fmt.Errorf("short meta")
			}
			ms := int(binary.BigEndian.Uint16(d[off : off+2]))
			off += 2 + ms
		}
		forks = append(forks, f)
	}
	return entry, forks, nil
}

// ---------------------------------------------------------------- runner

type obj struct {
	ref     []byte
	written map[string]bool
	dir     bool
	multi   bool
}

type runner struct {
	ctx  context.Context
	s    *memStore
	objs map[string]*obj
	tr   traversal.Traverser
}

func (prop) New() core.Runner {
	s := newStore()
	return &runner{ctx: context.Background(), s: s, objs: map[string]*obj{}, tr: traversal.New(s)}
}
func (*runner) Close() {}

func hx(b []byte) string { return core.Hex(b) }

func (rn *runner) upload(r io.Reader, enc bool) ([]byte, error) {
	p := builder.NewPipelineBuilder(rn.ctx, rn.s, storage.ModePutUpload, enc)
	a, err := builder.FeedPipeline(rn.ctx, p, r)
	if err != nil {
		return nil, err
	}
	return a.Bytes(), nil
}

// chunkTokens: annotation tokens for the chunks below ref (payload only for intermediate chunks).
func (rn *runner) chunkTokens(ctx *core.Ctx, ref []byte, seen map[string]bool, collect bool) ([]byte, bool) {
	var out []gchunk
	var content []byte
	if err := rn.walkTree(ref, seen, &out, collect, &content); err != nil {
		ctx.Fail("ground-walk", "cannot follow the references below %x: %v", ref, err)
		return nil, false
	}
	for _, g := range out {
		if g.span > uint64(len(g.payload)) {
			ctx.Annotate(fmt.Sprintf("c:%s:%d:%d:%s", hx(g.addr), g.span, len(g.payload), hx(g.payload)))
		} else {
			ctx.Annotate(fmt.Sprintf("c:%s:%d:%d", hx(g.addr), g.span, len(g.payload)))
		}
	}
	return content, true
}

func (rn *runner) Step(ctx *core.Ctx, op []string) string {
	switch {
	case len(op) == 4 && op[0] == "file":
		enc := op[2] == "1"
		if op[2] != "0" && op[2] != "1" {
			return "bad-op"
		}
		r, n, ok := srcReader(op[3])
		if !ok {
			return "bad-op"
		}
		rn.s.log = nil
		ref, err := rn.upload(r, enc)
		if err != nil {
			ctx.Fail("upload-error", "upload failed: %v", err)
			return "err"
		}
		o := &obj{ref: ref, written: map[string]bool{}, multi: n > C}
		for _, k := range rn.s.log {
			o.written[k] = true
		}
		rn.objs[op[1]] = o
		seen := map[string]bool{}
		ctx.Annotate("ref:" + hx(ref))
		if _, ok := rn.chunkTokens(ctx, ref, seen, false); ok {
			for k := range o.written {
				if !seen[k] {
					ctx.Fail("written-unreachable", "chunk %x was written but is not reachable from the returned reference", k)
					break
				}
			}
		}
		return fmt.Sprintf("ok %d", len(ref))
	case len(op) == 5 && op[0] == "dir":
		return rn.dir(ctx, op)
	case len(op) == 2 && op[0] == "travref":
		b, err := core.UnHex(op[1])
		if err != nil {
			return "bad-op"
		}
		n := 0
		if err := rn.tr.Traverse(rn.ctx, boson.NewAddress(b), func(boson.Address) error { n++; return nil }); err != nil {
			return "err"
		}
		if _, ok := rn.s.m[string(b[:min(32, len(b))])]; !ok {
			ctx.Fail("traverse-unknown-ok", "Traverse of a reference that was never written succeeded (%d addresses)", n)
		}
		return fmt.Sprintf("ok n=%d", n)
	}
	if len(op) != 2 {
		return "bad-op"
	}
	switch op[0] {
	case "traverse", "pyramid", "hashes", "pin":
	default:
		return "bad-op"
	}
	o := rn.objs[op[1]]
	if o == nil {
		return "noobj"
	}
	addr := boson.NewAddress(o.ref)
	switch op[0] {
	case "traverse":
		var rep [][]byte
		if err := rn.tr.Traverse(rn.ctx, addr, func(a boson.Address) error {
			rep = append(rep, append([]byte(nil), a.Bytes()...))
			return nil
		}); err != nil {
			ctx.Fail("traverse-error", "Traverse failed: %v", err)
			return "err"
		}
		rn.checkSubset(ctx, "traverse", rep, o)
		rn.checkCover(ctx, "traverse-missing", [][][]byte{rep}, o)
		first := "-"
		if len(rep) > 0 {
			first = hx(rep[0])
		}
		seq := "-"
		if !o.dir {
			seq = digestSeq(rep)
		}
		return fmt.Sprintf("ok n=%d first=%s set=%s seq=%s", len(rep), first, digestSorted(rep), seq)
	case "pyramid":
		py, err := rn.tr.GetPyramid(rn.ctx, addr)
		if err != nil {
			ctx.Fail("pyramid-error", "GetPyramid failed: %v", err)
			return "err"
		}
		var keys [][]byte
		for k, v := range py {
			b, err := hex.DecodeString(k)
			if err != nil {
				ctx.Fail("pyramid-key", "pyramid key %q is not hex", k)
				continue
			}
			keys = append(keys, b)
			if d, ok := rn.s.m[string(b)]; ok && len(o.ref) == 32 && !bytes.Equal(d, v) {
				ctx.Fail("pyramid-value", "pyramid value of %s differs from the stored chunk", k)
			}
		}
		rn.checkSubset(ctx, "pyramid", keys, o)
		return fmt.Sprintf("ok n=%d set=%s", len(keys), digestSorted(keys))
	case "hashes":
		hs, _, err := rn.tr.GetChunkHashes(rn.ctx, addr, nil)
		if err != nil {
			ctx.Fail("hashes-error", "GetChunkHashes failed: %v", err)
			return "err"
		}
		f := newFnv()
		tot := 0
		var all [][]byte
		for _, l := range hs {
			f.add([]byte{0xfe})
			for _, x := range l {
				f.addItem(x)
				all = append(all, x)
				tot++
			}
		}
		rn.checkSubset(ctx, "data", all, o)
		// data chunks and pyramid together must cover everything written
		py, err := rn.tr.GetPyramid(rn.ctx, addr)
		if err == nil {
			var keys [][]byte
			for k := range py {
				if b, err := hex.DecodeString(k); err == nil {
					keys = append(keys, b)
				}
			}
			rn.checkCover(ctx, "cover-missing", [][][]byte{all, keys}, o)
		}
		return fmt.Sprintf("ok files=%d n=%d seq=%s", len(hs), tot, f.String())
	default: // pin
		rn.s.pins = map[string]bool{}
		rn.s.miss = 0
		ps := pinning.NewService(rn.s, statemock.NewStateStore(), rn.tr)
		if err := ps.CreatePin(rn.ctx, addr, true); err != nil {
			ctx.Fail("pin-error", "CreatePin failed: %v", err)
			return "err"
		}
		for k := range o.written {
			if !rn.s.pins[k] {
				ctx.Fail("pin-missing", "CreatePin(traverse) succeeded but written chunk %x is not pinned (%d pinned, %d Set calls on unknown addresses)", k, len(rn.s.pins), rn.s.miss)
				break
			}
		}
		return fmt.Sprintf("ok pinned=%d missing=%d", len(rn.s.pins), rn.s.miss)
	}
}

func min(a, b int) int {
	if a < b {
		return a
	}
	return b
}

// checkSubset: every reported item is the address of a chunk written for the object.
func (rn *runner) checkSubset(ctx *core.Ctx, what string, items [][]byte, o *obj) {
	for _, a := range items {
		if o.written[string(a)] {
			continue
		}
		if len(a) == 64 && o.written[string(a[:32])] {
			ctx.Fail(what+"-encrypted-ref", "%s reports the 64-byte reference %x... (address ‖ decryption key) instead of the 32-byte chunk address", what, a[:8])
		} else {
			ctx.Fail(what+"-outside", "%s reports %x which is not a chunk written for this object", what, a)
		}
		return
	}
}

func (rn *runner) checkCover(ctx *core.Ctx, clause string, lists [][][]byte, o *obj) {
	got := map[string]bool{}
	for _, l := range lists {
		for _, a := range l {
			got[string(a)] = true
		}
	}
	for k := range o.written {
		if !got[k] {
			ctx.Fail(clause, "written chunk %x is not reported (%d written, %d distinct reported)", k, len(o.written), len(got))
			return
		}
	}
}

// dir <id> <enc> <root 0|1> <pathhex=src,pathhex=src,...>
func (rn *runner) dir(ctx *core.Ctx, op []string) string {
	enc := op[2] == "1"
	if (op[2] != "0" && op[2] != "1") || (op[3] != "0" && op[3] != "1") {
		return "bad-op"
	}
	type ent struct {
		path string
		src  string
	}
	var ents []ent
	for _, e := range strings.Split(op[4], ",") {
		kv := strings.SplitN(e, "=", 2)
		if len(kv) != 2 {
			return "bad-op"
		}
		p, err := core.UnHex(kv[0])
		if err != nil || len(p) == 0 {
			return "bad-op"
		}
		if _, _, ok := srcReader(kv[1]); !ok {
			return "bad-op"
		}
		ents = append(ents, ent{string(p), kv[1]})
	}
	ls := loadsave.New(rn.s, func() pipeline.Interface {
		return builder.NewPipelineBuilder(rn.ctx, rn.s, storage.ModePutUpload, enc)
	})
	m, err := manifest.NewDefaultManifest(ls, enc)
	if err != nil {
		return "err"
	}
	o := &obj{written: map[string]bool{}, dir: true, multi: len(ents) > 1}
	fileChunks := map[string][]string{} // path -> chunks written for the file finally mapped there
	for i, e := range ents {
		r, n, _ := srcReader(e.src)
		rn.s.log = nil
		ref, err := rn.upload(r, enc)
		if err != nil {
			ctx.Fail("upload-error", "upload failed: %v", err)
			return "err"
		}
		if n > C {
			o.multi = true
		}
		fileChunks[e.path] = append([]string(nil), rn.s.log...)
		meta := map[string]string{manifest.EntryMetadataFilenameKey: fmt.Sprintf("f%d", i), manifest.EntryMetadataContentTypeKey: "text/plain"}
		if err := m.Add(rn.ctx, e.path, manifest.NewEntry(boson.NewAddress(ref), meta)); err != nil {
			ctx.Fail("manifest-add-error", "Add(%q) failed: %v", e.path, err)
			return "err"
		}
	}
	if op[3] == "1" {
		if err := m.Add(rn.ctx, manifest.RootPath, manifest.NewEntry(boson.NewAddress(make([]byte, 32)), map[string]string{manifest.WebsiteIndexDocumentSuffixKey: "index.html"})); err != nil {
			return "err" // (encrypted manifests reject the 32-byte zero entry)
		}
	}
	rn.s.log = nil
	root, err := m.Store(rn.ctx)
	if err != nil {
		ctx.Fail("manifest-store-error", "Store failed: %v", err)
		return "err"
	}
	for _, k := range rn.s.log {
		o.written[k] = true
	}
	for _, l := range fileChunks {
		for _, k := range l {
			o.written[k] = true
		}
	}
	o.ref = root.Bytes()
	rn.objs[op[1]] = o
	ctx.Annotate("ref:" + hx(o.ref))
	seen := map[string]bool{}
	zero := make([]byte, 32)
	var parse func(ref []byte, typ byte, depth int) bool
	parse = func(ref []byte, typ byte, depth int) bool {
		if depth > 300 {
			return false
		}
		blob, ok := rn.chunkTokens(ctx, ref, seen, true)
		if !ok {
			return false
		}
		entry, forks, err := parseNode(blob)
		if err != nil {
			ctx.Fail("ground-parse", "cannot parse manifest node %x: %v", ref, err)
			return false
		}
		var fs []string
		for _, f := range forks {
			fs = append(fs, fmt.Sprintf("%s~%d~%s", hx(f.prefix), f.typ, hx(f.ref)))
		}
		ft := "-"
		if len(fs) > 0 {
			ft = strings.Join(fs, ";")
		}
		ctx.Annotate(fmt.Sprintf("n:%s:%d:%s:%s", hx(ref), typ, hx(entry), ft))
		if typ&2 != 0 && len(entry) > 0 && !bytes.Equal(entry, zero) {
			if _, ok := rn.chunkTokens(ctx, entry, seen, false); !ok {
				return false
			}
		}
		for _, f := range forks {
			if !parse(f.ref, f.typ, depth+1) {
				return false
			}
		}
		return true
	}
	if parse(o.ref, 0, 0) {
		for k := range o.written {
			if !seen[k] {
				ctx.Fail("written-unreachable", "chunk %x was written but is not reachable from the manifest reference", k)
				break
			}
		}
	}
	return fmt.Sprintf("ok %d", len(o.ref))
}

// ---------------------------------------------------------------- generator

// fileSize draws a size; *budget (in chunks) bounds the total hashing work of a run.
func fileSize(r *core.Rand, big bool, budget *int) int {
	n := fileSize0(r, big)
	k := (n + C - 1) / C
	if k > *budget {
		return r.Pick([]int{0, 1, 31, 32, 33, 4095, 4096, 4097, 70000})
	}
	*budget -= k
	return n
}

func fileSize0(r *core.Rand, big bool) int {
	switch r.Intn(8) {
	case 0:
		return r.Pick([]int{0, 1, 31, 32, 33, 4095, 4096, 4097})
	case 1, 2:
		return r.Pick([]int{C - 1, C, C + 1})
	case 3, 4:
		return r.Pick([]int{2*C - 1, 2 * C, 2*C + 1, 3*C + 5})
	case 5:
		if big {
			return r.Range(4, 14)*C + r.Pick([]int{-1, 0, 1, 777})
		}
		return r.Range(1, 5*C)
	default:
		return r.Range(1, 5*C)
	}
}

func src(r *core.Rand, n int) string {
	if n <= 24 {
		return "h:" + core.Hex(r.Bytes(n))
	}
	if n > 70000 {
		return fmt.Sprintf("p:%d:%d:%d", r.Intn(1000), n, r.Pick([]int{997, 4096, C, C / 2, 100003}))
	}
	return fmt.Sprintf("g:%d:%d", r.Intn(1000), n)
}

func genPath(r *core.Rand, pool []string) string {
	al := "abc/."
	mk := func(n int) string {
		b := make([]byte, n)
		for i := range b {
			b[i] = al[r.Intn(len(al))]
		}
		return string(b)
	}
	var p string
	switch {
	case len(pool) > 0 && r.Chance(50): // extend / share a prefix of an existing path
		q := pool[r.Intn(len(pool))]
		p = q[:r.Range(0, len(q))] + mk(r.Range(1, 6))
	case r.Chance(15): // longer than the 30-byte fork prefix limit
		p = mk(r.Range(31, 70))
	default:
		p = mk(r.Range(1, 12))
	}
	p = strings.TrimLeft(p, "/")
	for strings.HasSuffix(p, "/") {
		p = p[:len(p)-1] + "a"
	}
	if p == "" {
		p = "a"
	}
	return p
}

func obsOps(r *core.Rand, id string) []string {
	ops := []string{"traverse " + id, "pyramid " + id, "hashes " + id, "pin " + id}
	r2 := r.Intn(4)
	ops[0], ops[r2] = ops[r2], ops[0]
	if r.Chance(25) {
		ops = ops[:3]
	}
	return ops
}

func (prop) Gen(r *core.Rand, tier string) []core.Case {
	n, budget := 28, 50
	if tier == "thorough" {
		n, budget = 200, 700
	}
	var cs []core.Case
	cs = append(cs,
		core.Case{ID: "fix-enc-multichunk", NT: true, Ops: []string{fmt.Sprintf("file e 1 p:5:%d:4096", 2*C+5), "traverse e", "pyramid e", "hashes e", "pin e"}},
		core.Case{ID: "fix-plain-multichunk", NT: true, Ops: []string{fmt.Sprintf("file f 0 p:5:%d:4096", 2*C+5), "traverse f", "pyramid f", "hashes f", "pin f"}},
		core.Case{ID: "fix-single", NT: false, Ops: []string{"file a 0 h:-", "traverse a", "pyramid a", "hashes a", "pin a", "file b 1 g:3:100", "traverse b", "pyramid b", "hashes b", "pin b"}},
		core.Case{ID: "fix-dir", NT: true, Ops: []string{fmt.Sprintf("dir d 0 1 %s=g:1:10,%s=g:2:20,%s=p:3:%d:997,%s=g:4:5", core.Hex([]byte("a")), core.Hex([]byte("ab")), core.Hex([]byte("img/x.png")), C+1, core.Hex([]byte("img/y.png"))),
			"traverse d", "pyramid d", "hashes d", "pin d"}},
		core.Case{ID: "fix-dir-enc", NT: true, Ops: []string{fmt.Sprintf("dir d 1 0 %s=g:1:10,%s=p:3:%d:997", core.Hex([]byte("a/b")), core.Hex([]byte("a/c")), C+1), "traverse d", "pyramid d", "hashes d", "pin d"}},
		core.Case{ID: "fix-malformed", NT: false, Ops: []string{"traverse nope", "travref " + strings.Repeat("ab", 32), "travref " + strings.Repeat("ab", 64), "travref abcd", "travref -", "file x 2 h:00", "dir d 0 0 zz"}},
	)
	if tier == "thorough" {
		// three-level trees (the only ones with intermediate chunks below the root): 1 GiB encrypted;
		// the 2 GiB plain one only on request (VERIF_C09_GIANT=1), it needs ~10 GiB and many minutes
		cs = append(cs, core.Case{ID: "big-enc-3level", NT: true, Ops: []string{fmt.Sprintf("file f 1 p:9:%d:%d", 4097*C+17, C), "traverse f", "pyramid f", "hashes f", "pin f"}})
		if os.Getenv("VERIF_C09_GIANT") == "1" {
			cs = append(cs, core.Case{ID: "big-plain-3level", NT: true, Ops: []string{fmt.Sprintf("file f 0 p:9:%d:%d", 8193*C+17, C), "traverse f", "pyramid f", "hashes f", "pin f"}})
		}
	}
	for i := 0; i < n; i++ {
		c := core.Case{ID: fmt.Sprintf("g%d", i)}
		nobj := r.Range(1, 3)
		for k := 0; k < nobj; k++ {
			id := fmt.Sprintf("o%d", k)
			enc := r.Intn(2)
			if r.Chance(55) {
				sz := fileSize(r, true, &budget)
				c.Ops = append(c.Ops, fmt.Sprintf("file %s %d %s", id, enc, src(r, sz)))
				if sz > C {
					c.NT = true
				}
			} else {
				nf := r.Range(1, 12)
				if r.Chance(20) {
					nf = r.Range(13, 40)
				}
				var pool []string
				seenP := map[string]bool{}
				var ents []string
				bigs := 0
				for j := 0; j < nf; j++ {
					p := genPath(r, pool)
					if seenP[p] && !r.Chance(10) { // a few overwrites stay
						continue
					}
					seenP[p] = true
					pool = append(pool, p)
					sz := r.Range(0, 2000)
					if r.Chance(12) && bigs < 3 {
						sz = fileSize(r, false, &budget)
						bigs++
					}
					if r.Chance(10) && j > 0 { // identical content under two paths
						sz = 77
					}
					if sz == 77 {
						ents = append(ents, core.Hex([]byte(p))+"=g:7:77")
					} else {
						ents = append(ents, core.Hex([]byte(p))+"="+src(r, sz))
					}
				}
				root := 0
				if enc == 0 && r.Chance(40) {
					root = 1
				}
				c.Ops = append(c.Ops, fmt.Sprintf("dir %s %d %d %s", id, enc, root, strings.Join(ents, ",")))
				if len(ents) > 1 {
					c.NT = true
				}
			}
			c.Ops = append(c.Ops, obsOps(r, id)...)
		}
		if r.Chance(10) {
			c.Ops = append(c.Ops, "traverse o9", "travref "+core.Hex(r.Bytes(r.Pick([]int{32, 64, 31, 65}))))
		}
		cs = append(cs, c)
	}
	return cs
}
