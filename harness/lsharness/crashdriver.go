// Package lsharness is the shared Go side of the localstore checks (C11, C13, C14; reusable by
// C12/C15/C16/C17): a write-logging shed driver, a scripted chunkinfo fake, a Runner that executes
// the localstore line protocol (see lean/Driver/Localstore.lean) against the real
// pkg/localstore, canonical dumps, and a configurable history generator.
package lsharness

import (
	"fmt"
	"sync"

	"github.com/gauss-project/aurorafs/pkg/shed"
	"github.com/gauss-project/aurorafs/pkg/shed/driver"
	sldb "github.com/gauss-project/aurorafs/pkg/shed/leveldb"
)

// DriverName is the name under which the write-logging driver is registered with shed.
const DriverName = "verif-crash"

// KV is one key/value operation reaching the storage driver.
type KV struct {
	Key, Value []byte
	Del        bool
}

// LoggedWrite is one driver write: a direct Put/Delete (Batch=false, one op) or a batch Commit.
type LoggedWrite struct {
	Batch bool
	Ops   []KV
}

// Store is the durable content of one database as the ordered list of committed driver writes.
// Opening the driver on a Store rebuilds a fresh in-memory leveldb from the list ("disk image")
// and appends every further committed write.
type Store struct {
	mu  sync.Mutex
	Log []LoggedWrite
}

// Prefix returns a new Store holding only the first n writes (the disk image after a crash
// right after the n-th driver write).
func (s *Store) Prefix(n int) *Store {
	s.mu.Lock()
	defer s.mu.Unlock()
	return &Store{Log: append([]LoggedWrite(nil), s.Log[:n]...)}
}

// Len is the number of committed driver writes so far.
func (s *Store) Len() int {
	s.mu.Lock()
	defer s.mu.Unlock()
	return len(s.Log)
}

func (s *Store) append(w LoggedWrite) {
	s.mu.Lock()
	s.Log = append(s.Log, w)
	s.mu.Unlock()
}

var (
	regMu  sync.Mutex
	reg    = map[string]*Store{}
	regSeq int
)

// Bind registers a Store and returns the dsn (the `path` argument of localstore.New) under
// which the driver finds it.
func Bind(s *Store) string {
	regMu.Lock()
	defer regMu.Unlock()
	regSeq++
	dsn := fmt.Sprintf("verif-store-%d", regSeq)
	reg[dsn] = s
	return dsn
}

// Unbind forgets a dsn.
func Unbind(dsn string) {
	regMu.Lock()
	delete(reg, dsn)
	regMu.Unlock()
}

type crashDriver struct{}

func init() { shed.Register(DriverName, crashDriver{}) }

// small buffers: thousands of databases are opened per run
const innerOptions = `{"WriteBuffer":262144,"BlockCacheCapacity":1048576,"OpenFilesCacheCapacity":16}`

// Open builds a fresh in-memory leveldb (the repository's own leveldb shed driver), replays the
// Store's log into it and returns a wrapper that logs every further committed write.
func (crashDriver) Open(dsn, _ string) (driver.DB, error) {
	regMu.Lock()
	st := reg[dsn]
	regMu.Unlock()
	if st == nil {
		return nil, fmt.Errorf("verif-crash: unknown store %q", dsn)
	}
	in, err := sldb.Driver{}.Open("", innerOptions)
	if err != nil {
		return nil, err
	}
	inner, ok := in.(driver.BatchDB)
	if !ok {
		return nil, fmt.Errorf("verif-crash: inner driver does not batch")
	}
	st.mu.Lock()
	log := append([]LoggedWrite(nil), st.Log...)
	st.mu.Unlock()
	for _, w := range log {
		if w.Batch {
			b := inner.NewBatch()
			for _, op := range w.Ops {
				if op.Del {
					_ = b.Delete(driver.Key{Data: op.Key})
				} else {
					_ = b.Put(driver.Key{Data: op.Key}, driver.Value{Data: op.Value})
				}
			}
			if err := b.Commit(); err != nil {
				return nil, err
			}
			continue
		}
		for _, op := range w.Ops {
			if op.Del {
				err = inner.Delete(driver.Key{Data: op.Key})
			} else {
				err = inner.Put(driver.Key{Data: op.Key}, driver.Value{Data: op.Value})
			}
			if err != nil {
				return nil, err
			}
		}
	}
	return &crashDB{BatchDB: inner, st: st}, nil
}

// crashDB wraps the leveldb driver.  Schema bookkeeping (InitSchema/CreateField/CreateIndex) goes
// to the embedded driver unlogged: it is deterministic and re-created identically by every New.
type crashDB struct {
	driver.BatchDB
	st *Store
}

func cpb(b []byte) []byte { return append([]byte(nil), b...) }

func (c *crashDB) Put(k driver.Key, v driver.Value) error {
	if err := c.BatchDB.Put(k, v); err != nil {
		return err
	}
	c.st.append(LoggedWrite{Ops: []KV{{Key: cpb(k.Data), Value: cpb(v.Data)}}})
	return nil
}

func (c *crashDB) Delete(k driver.Key) error {
	if err := c.BatchDB.Delete(k); err != nil {
		return err
	}
	c.st.append(LoggedWrite{Ops: []KV{{Key: cpb(k.Data), Del: true}}})
	return nil
}

func (c *crashDB) NewBatch() driver.Batching {
	return &crashBatch{inner: c.BatchDB.NewBatch(), st: c.st}
}

type crashBatch struct {
	inner driver.Batching
	st    *Store
	ops   []KV
}

func (b *crashBatch) Put(k driver.Key, v driver.Value) error {
	b.ops = append(b.ops, KV{Key: cpb(k.Data), Value: cpb(v.Data)})
	return b.inner.Put(k, v)
}

func (b *crashBatch) Delete(k driver.Key) error {
	b.ops = append(b.ops, KV{Key: cpb(k.Data), Del: true})
	return b.inner.Delete(k)
}

func (b *crashBatch) Commit() error {
	if err := b.inner.Commit(); err != nil {
		return err
	}
	b.st.append(LoggedWrite{Batch: true, Ops: b.ops})
	return nil
}
