import Aurora.Lemmas.Localstore
/-!
C13 — Cache accounting keeps garbage collection bounded.

`Inv s := s.db.gcSize = Σ GCounter` (outside a collection run).  The unchanged code does NOT keep
this invariant for every operation: each failing trigger has its own `_counterexample` theorem
(a concrete reachable history, replayed on the real code by the harness' `fix-…` cases and reported
under its own oracle clause / known-findings line), and the invariant is proved `_partial` under
explicit decidable guards that exclude exactly those triggers.
-/
namespace Aurora.Localstore

/-- the accounting invariant: the persisted counter equals the recomputed total -/
def Inv (s : State) : Prop := s.db.gcSize = gcSum s.db.gc

instance (s : State) : Decidable (Inv s) := by unfold Inv; infer_instance

/-- the full statement of the invariant clause (false on the unchanged code, see the counterexamples) -/
def C13_inv_step_full : Prop :=
  ∀ (po : Addr → Nat) (s : State) (op : Op), Reachable po s → s.gcRunning = false → Inv s →
    (step po s op).gcRunning = false → Inv (step po s op)

/-- the full statement of the reopen clause -/
def C13_inv_reopen_full : Prop :=
  ∀ (s : State), s.gcRunning = false → Inv (reopen s).st

/-- the full statement of the boundedness clause -/
def C13_bounded_full : Prop :=
  ∀ (po : Addr → Nat) (s : State) (pyr : Addr → Option (List (Addr × Nat))) (n : Nat) (v : List Addr),
    Reachable po s → s.runTarget = gcTarget s.capacity → (gcEvict s pyr).out = .gcDone n true v →
    gcSum (gcEvict s pyr).st.db.gc ≤ s.capacity

/-! ## what holds -/

/-- `inv_init`: a fresh store satisfies the invariant. -/
theorem C13_inv_init (cap : Nat) : Inv (init cap) := by rfl

/-- reopening never touches the gc index … -/
theorem C13_reopen_gc (s : State) (h : s.gcRunning = false) : (reopen s).st.db.gc = s.db.gc := by
  unfold reopen openDb openWrites
  simp only [h]
  by_cases h1 : s.db.schema <;> by_cases h2 : s.db.gcSize < gcSum s.db.gc % two64 <;>
    simp [h1, h2, applyLog, applyDW, applyW]

/-- … and sets the counter to `max(gcSize, Σ mod 2^64)`: the startup repair only raises. -/
theorem C13_reopen_gcSize (s : State) (h : s.gcRunning = false) :
    (reopen s).st.db.gcSize = max s.db.gcSize (gcSum s.db.gc % two64) := by
  unfold reopen openDb openWrites
  simp only [h]
  by_cases h1 : s.db.schema <;> by_cases h2 : s.db.gcSize < gcSum s.db.gc % two64 <;>
    simp [h1, h2, applyLog, applyDW, applyW] <;> omega

/-- `inv_reopen` (partial): `reopen` yields exactly the recomputed total whenever the persisted
counter did not exceed it (missing for the full clause: an over-count is never repaired, see
`C13_inv_reopen_counterexample`) and the total fits a uint64. -/
theorem C13_inv_reopen_partial (s : State) (h : s.gcRunning = false)
    (hfit : gcSum s.db.gc < two64) (hle : s.db.gcSize ≤ gcSum s.db.gc) : Inv (reopen s).st := by
  unfold Inv
  rw [C13_reopen_gc s h, C13_reopen_gcSize s h, Nat.mod_eq_of_lt hfit]
  omega

example : ∃ s : State, s.gcRunning = false ∧ gcSum s.db.gc < two64 ∧ s.db.gcSize ≤ gcSum s.db.gc ∧ ¬ Inv s :=
  ⟨{ db := { gc := [(⟨1, 1, 1⟩, 3)], gcSize := 1 } }, by decide⟩

/-- the reopened counter is never below the recomputed total (the "at least" of C14). -/
theorem C13_reopen_ge (s : State) (h : s.gcRunning = false) (hfit : gcSum s.db.gc < two64) :
    gcSum (reopen s).st.db.gc ≤ (reopen s).st.db.gcSize := by
  rw [C13_reopen_gc s h, C13_reopen_gcSize s h, Nat.mod_eq_of_lt hfit]
  omega

theorem applyLog_gcSizePut_last (db : Db) (l : List DW) (b : List Write) (n : Nat) :
    (applyLog db (l ++ [DW.batch (b ++ [Write.gcSizePut n])])).gcSize = n := by
  rw [applyLog_append]
  simp [applyDW, applyBatch_append, applyW]

/-- `bounded_after_quiescence`, counter part (full): a collection run that reports `done` leaves
`gcSize ≤ gcTarget capacity ≤ capacity`, for every state, pyramid script and racing history (`ht`: the
capacity was not changed while the run was in progress — `gcSelect` stores `gcTarget capacity`). -/
theorem C13_bounded_gcSize (s : State) (pyr : Addr → Option (List (Addr × Nat))) (n : Nat) (v : List Addr)
    (h : (gcEvict s pyr).out = .gcDone n true v) (ht : s.runTarget = gcTarget s.capacity) :
    (gcEvict s pyr).st.db.gcSize ≤ gcTarget s.capacity ∧ gcTarget s.capacity ≤ s.capacity := by
  refine ⟨?_, by unfold gcTarget; omega⟩
  rw [← ht]
  unfold gcEvict at h ⊢
  by_cases hr : s.gcRunning
  · simp only [hr, Bool.not_true, Bool.false_eq_true, if_false] at h ⊢
    simp only [Tx.inBatch] at h ⊢
    rw [applyLog_gcSizePut_last]
    simp at h
    simp only [List.isEmpty_iff]
    omega
  · simp [hr] at h

/-- `bounded_after_quiescence` (partial): if the run re-establishes the invariant, the recorded
total Σ GCounter is within the capacity.  Missing for the full clause: the runs that break the
invariant (`C13_bounded_counterexample`). -/
theorem C13_bounded_after_quiescence_partial (s : State) (pyr : Addr → Option (List (Addr × Nat)))
    (n : Nat) (v : List Addr) (h : (gcEvict s pyr).out = .gcDone n true v) (ht : s.runTarget = gcTarget s.capacity)
    (hinv : Inv (gcEvict s pyr).st) : gcSum (gcEvict s pyr).st.db.gc ≤ s.capacity := by
  have := C13_bounded_gcSize s pyr n v h ht
  unfold Inv at hinv
  omega

/-! ## concrete histories (all addresses are small numbers; `po = 0` everywhere) -/

def po0 : Addr → Nat := fun _ => 0
def runOps (s : State) (ops : List Op) : State := ops.foldl (step po0) s
def s0 : State := init 1000000

theorem reachable_runOps (ops : List Op) (s : State) (h : Reachable po0 s) : Reachable po0 (runOps s ops) := by
  induction ops generalizing s with
  | nil => exact h
  | cons op ops ih => exact ih _ (Reachable.step op h)

/-- file with root 1 and chunk 2 cached one at a time: the invariant holds (non-vacuity of the guards) -/
def sFile : State := runOps s0 [.put .request (some 1) [(1, [])], .put .request (some 1) [(2, [])]]
example : Inv sFile ∧ sFile.db.gcSize = 2 := by decide

/-! ## counterexamples: one per trigger -/

/-- trigger `inv-batched-call-root`: a request put of two new chunks in ONE call under a root context
(each `setGC` reads `GCounter` from the database, not from the batch). -/
theorem C13_inv_step_batched_counterexample :
    Inv sFile ∧ ¬ Inv (step po0 sFile (.put .request (some 1) [(3, []), (4, [])])) := by decide

/-- trigger `inv-pin-no-gc-entry`: pins of a file with a repeated chunk — the third `setPin` under
root 1 finds no gc entry for the root but still subtracts 1 (another file keeps gcSize > 0). -/
theorem C13_inv_step_pin_repeated_counterexample :
    let s := runOps sFile [.put .request (some 5) [(5, [])], .set .pin (some 1) [1], .set .pin (some 1) [2]]
    Inv s ∧ ¬ Inv (step po0 s (.set .pin (some 1) [2])) := by decide

/-- trigger `inv-uppin-discards-change`: `ModePutUploadPin` under a root context lowers the root's
gc entry but drops the `gcSizeChange` returned by `setPin`. -/
theorem C13_inv_step_uppin_counterexample :
    Inv sFile ∧ ¬ Inv (step po0 sFile (.put .uploadPin (some 1) [(3, [])])) := by decide

/-- trigger `inv-sync-zero-counter`: `ModeSetSync` writes a gc entry with `GCounter = 0` and adds 1 to gcSize. -/
theorem C13_inv_step_sync_counterexample :
    let s := runOps s0 [.put .upload none [(1, [])]]
    Inv s ∧ ¬ Inv (step po0 s (.set .sync none [1])) := by decide

/-- trigger `inv-silent-skip`: with `gcSize` already below Σ (after an earlier defect) a decrement larger
than `gcSize` is silently skipped, so `gcSize − Σ` changes again. -/
theorem C13_silent_skip_counterexample :
    let s := runOps sFile [.put .request (some 5) [(5, [])], .set .pin (some 1) [1], .set .pin (some 1) [2],
                           .set .pin (some 1) [2]]
    let s' := step po0 s (.set .remove (some 5) [5])
    s.db.gcSize = 0 ∧ gcSum s.db.gc = 1 ∧ s'.db.gcSize = 0 ∧ gcSum s'.db.gc = 0 := by decide

/-- trigger `inv-failed-batch-keeps-direct-write`: a multi-address pin that fails on its second address
keeps the direct `gcIndex.Put` done for the first one, and drops the batch with the gcSize update. -/
theorem C13_inv_step_failed_batch_counterexample :
    Inv sFile ∧ (run po0 sFile (.set .pin (some 1) [1, 7])).out = .err .notFound ∧
    ¬ Inv (step po0 sFile (.set .pin (some 1) [1, 7])) := by decide

/-- the pyramid script used below: file 1 consists of root 1 and chunk 2 -/
def pyrTrue : List (Addr × Option (List (Addr × Nat))) := [(1, some [(2, 1)]), (5, some [])]

/-- a faithful collection run keeps the invariant (non-vacuity) … -/
example :
    let s := runOps sFile [.put .request (some 5) [(5, [])], .setCapacity 2, .gcSelect]
    Inv s ∧ Inv (step po0 s (.gcEvict pyrTrue)) ∧ (step po0 s (.gcEvict pyrTrue)).db.gcSize = 1 := by decide

/-- trigger `inv-gc-nothing-recycled-forces-zero`: every candidate is dirty (accessed between
selection and eviction) — nothing is recycled, yet `gcSize` is forced to 0 while the entries stay. -/
theorem C13_inv_gc_all_dirty_counterexample :
    let s := runOps sFile [.put .request (some 5) [(5, [])], .setCapacity 2, .gcSelect,
                           .get .request (some 1) 2, .get .request (some 5) 5]
    Inv s ∧ ¬ Inv (step po0 s (.gcEvict pyrTrue)) ∧ (step po0 s (.gcEvict pyrTrue)).db.gcSize = 0 := by decide

/-- trigger `inv-gc-pyramid-count-mismatch`: chunkinfo leaves a shared chunk out of the pyramid; the
evicted count is smaller than the recycled entry's `GCounter`. -/
theorem C13_inv_gc_shared_chunk_counterexample :
    let s := runOps sFile [.put .request (some 1) [(3, [])], .setCapacity 2, .gcSelect]
    Inv s ∧ ¬ Inv (step po0 s (.gcEvict pyrTrue)) := by decide

/-- `¬ C13_inv_step_full`, from the batched-put witness. -/
theorem C13_inv_step_counterexample : ¬ C13_inv_step_full := by
  intro h
  have hr : Reachable po0 sFile := reachable_runOps _ _ (Reachable.init _)
  exact C13_inv_step_batched_counterexample.2
    (h po0 sFile (.put .request (some 1) [(3, []), (4, [])]) hr (by decide)
      C13_inv_step_batched_counterexample.1 (by decide))

/-- trigger `reopen-keeps-overcount`: the startup repair only raises, an over-count survives reopening. -/
theorem C13_inv_reopen_counterexample : ¬ C13_inv_reopen_full := by
  intro h
  exact absurd (h { db := { gcSize := 1 } } rfl) (by decide)

/-- the over-count of the previous theorem is reachable (shared-chunk eviction), it is not an artefact. -/
theorem C13_overcount_reachable :
    let s := runOps sFile [.put .request (some 1) [(3, [])], .setCapacity 2, .gcSelect, .gcEvict pyrTrue]
    s.gcRunning = false ∧ gcSum s.db.gc < s.db.gcSize ∧ ¬ Inv (reopen s).st := by decide

/-- trigger `bounded-sum-forced-zero`: after the all-dirty run `done = true` is reported although
Σ GCounter = 3 exceeds the capacity 2. -/
theorem C13_bounded_counterexample : ¬ C13_bounded_full := by
  intro h
  have hr : Reachable po0 (runOps sFile [.put .request (some 5) [(5, [])], .setCapacity 2, .gcSelect,
      .get .request (some 1) 2, .get .request (some 5) 5]) := reachable_runOps _ _ (reachable_runOps _ _ (Reachable.init _))
  have := h po0 _ (pyrFun pyrTrue) 3 [1] hr (by decide) (by decide)
  revert this
  decide

end Aurora.Localstore
