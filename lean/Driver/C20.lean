import Driver.Util
import Aurora.Model.Proximity
/-! Driver for C20: runs the proximity / distance model on the op lines of the harness. -/
namespace Driver.C20
open Aurora.Proximity

def toBytes (l : List UInt8) : List Byte := l.map (fun b => BitVec.ofNat 8 b.toNat)

def step (_ : Unit) (op : List String) : Unit × String :=
  match op with
  | ["prox", a, b] =>
    match Driver.hexToBytes a, Driver.hexToBytes b with
    | some a, some b => ((), toString (proximity (toBytes a) (toBytes b)))
    | _, _ => ((), "bad-op")
  | ["eprox", a, b] =>
    match Driver.hexToBytes a, Driver.hexToBytes b with
    | some a, some b => ((), toString (extendedProximity (toBytes a) (toBytes b)))
    | _, _ => ((), "bad-op")
  | ["dist", a, b] =>
    match Driver.hexToBytes a, Driver.hexToBytes b with
    | some a, some b =>
      match distance (toBytes a) (toBytes b) with
      | some d => ((), toString d)
      | none => ((), "err")
    | _, _ => ((), "bad-op")
  | ["cmp", a, x, y] =>
    match Driver.hexToBytes a, Driver.hexToBytes x, Driver.hexToBytes y with
    | some a, some x, some y =>
      match distanceCmp (toBytes a) (toBytes x) (toBytes y) with
      | some d => ((), toString d)
      | none => ((), "err")
    | _, _, _ => ((), "bad-op")
  | ["closer", a, x, y] =>
    match Driver.hexToBytes a, Driver.hexToBytes x, Driver.hexToBytes y with
    | some a, some x, some y =>
      match closer (toBytes a) (toBytes x) (toBytes y) with
      | some d => ((), Driver.boolStr d)
      | none => ((), "err")
    | _, _, _ => ((), "bad-op")
  | _ => ((), "bad-op")

def handler : Driver.Handler := { σ := Unit, init := (), step := step }

end Driver.C20
