/-
Model of /repo/pkg/accounting/accounting.go (property C32): per-peer unpaid traffic with the
settlement layer's answers as oracle arguments.
  getAccountingPeer : creates the record on first use with `settlement.RetrieveTraffic(peer)`
  Reserve / Credit / Debit / NotifyPayment
Amounts of Reserve/Credit/Debit are Go `uint64` (`Nat` here); balances are `Int` (*big.Int).
Core Lean only.  The lock discipline is not part of this file: see `Aurora/Model/LockSetProg.lean`
and the generated `Aurora/Generated/AccountingLocks.lean`.
-/
namespace Aurora.Accounting

structure Cfg where
  tolerance : Int     -- paymentTolerance
  threshold : Int     -- paymentThreshold

/-- `unpaid p = none` : no accountingPeer record yet -/
structure St where
  unpaid : Nat → Option Int

def init : St := ⟨fun _ => none⟩

def set (st : St) (p : Nat) (v : Int) : St := ⟨fun x => if x = p then some v else st.unpaid x⟩

/-- `getAccountingPeer`: `rt` is what `settlement.RetrieveTraffic` would answer (`none` = error);
    it is consulted only when the record does not exist yet. -/
def getPeer (st : St) (p : Nat) (rt : Option Int) : Option (St × Int) :=
  match st.unpaid p with
  | some u => some (st, u)
  | none => match rt with
    | some r => some (set st p r, r)
    | none => none

inductive ReserveOut | err | low | ok
deriving DecidableEq, Repr

/-- `Reserve(peer, amt)`; `av` = `settlement.AvailableBalance()` (`none` = error) -/
def reserve (st : St) (p amt : Nat) (rt av : Option Int) : St × ReserveOut :=
  match getPeer st p rt with
  | none => (st, .err)
  | some (st1, u) =>
    match av with
    | none => (st1, .err)
    | some a => if a < u + amt then (st1, .low) else (st1, .ok)

structure CreditOut where
  ok : Bool           -- false = error returned
  pays : Nat          -- number of payment requests enqueued on payChan
deriving DecidableEq, Repr

/-- `Credit(ctx, peer, amt)`; `putErr` = `settlement.PutRetrieveTraffic` fails.  Note the order in the
    code: the unpaid balance is raised *before* the settlement call, and stays raised on error. -/
def credit (cfg : Cfg) (st : St) (p amt : Nat) (rt : Option Int) (putErr : Bool) : St × CreditOut :=
  match getPeer st p rt with
  | none => (st, ⟨false, 0⟩)
  | some (st1, u) =>
    let u' := u + amt
    let st2 := set st1 p u'
    if putErr then (st2, ⟨false, 0⟩)
    else if cfg.threshold ≤ u' then (st2, ⟨true, 1⟩) else (st2, ⟨true, 0⟩)

inductive DebitRes | err | blocked | ok
deriving DecidableEq, Repr

structure DebitOut where
  res : DebitRes
  put : Option Nat    -- amount handed to settlement.PutTransferTraffic, if it was called
deriving DecidableEq, Repr

/-- `Debit(peer, amt)`; `tt` = `settlement.TransferTraffic(peer)` (unsettled served traffic) -/
def debit (cfg : Cfg) (st : St) (p amt : Nat) (rt tt : Option Int) (putErr : Bool) : St × DebitOut :=
  match getPeer st p rt with
  | none => (st, ⟨.err, none⟩)
  | some (st1, _) =>
    match tt with
    | none => (st1, ⟨.err, none⟩)
    | some t =>
      if cfg.tolerance ≤ t then (st1, ⟨.blocked, none⟩)
      else if putErr then (st1, ⟨.err, some amt⟩) else (st1, ⟨.ok, some amt⟩)

/-- the arithmetic of `NotifyPayment` -/
def payDown (u amt : Int) : Int := if u ≤ 0 then u else if u < amt then 0 else u - amt

/-- `NotifyPayment(peer, amt)`; `false` = error (record could not be created) -/
def notify (st : St) (p : Nat) (amt : Int) (rt : Option Int) : St × Bool :=
  match getPeer st p rt with
  | none => (st, false)
  | some (st1, u) => (set st1 p (payDown u amt), true)

/-- reading the unpaid balance (the harness measures it through `Reserve`; creates the record) -/
def peek (st : St) (p : Nat) (rt : Option Int) : St × Option Int :=
  match getPeer st p rt with
  | none => (st, none)
  | some (st1, u) => (st1, some u)

inductive Op where
  | reserve (p amt : Nat) (rt av : Option Int)
  | credit (p amt : Nat) (rt : Option Int) (putErr : Bool)
  | debit (p amt : Nat) (rt tt : Option Int) (putErr : Bool)
  | notify (p : Nat) (amt : Int) (rt : Option Int)
  | peek (p : Nat) (rt : Option Int)
deriving Repr

def Op.peer : Op → Nat
  | .reserve p .. | .credit p .. | .debit p .. | .notify p .. | .peek p .. => p

def Op.rt : Op → Option Int
  | .reserve _ _ rt _ | .credit _ _ rt _ | .debit _ _ rt _ _ | .notify _ _ rt | .peek _ rt => rt

def step (cfg : Cfg) (st : St) : Op → St
  | .reserve p amt rt av => (reserve st p amt rt av).1
  | .credit p amt rt pe => (credit cfg st p amt rt pe).1
  | .debit p amt rt tt pe => (debit cfg st p amt rt tt pe).1
  | .notify p amt rt => (notify st p amt rt).1
  | .peek p rt => (peek st p rt).1

def run (cfg : Cfg) (st : St) (ops : List Op) : St := ops.foldl (step cfg) st

/-- the specification: credits minus payments, folded in order with truncated subtraction,
    starting from the settlement layer's figure at first contact -/
def opening (u rt : Option Int) : Option Int :=
  match u with
  | some v => some v
  | none => rt

def specStep (u : Option Int) (op : Op) : Option Int :=
  match opening u op.rt with
  | none => none
  | some v =>
    match op with
    | .credit _ amt _ _ => some (v + amt)
    | .notify _ amt _ => some (if v - amt < 0 then 0 else v - amt)
    | _ => some v

end Aurora.Accounting
