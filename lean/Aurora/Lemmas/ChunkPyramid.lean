import Aurora.Model.ChunkPyramid
import Aurora.Lemmas.Pinning
/-!
Helper lemmas for C16 / C12 (`Aurora/Props/C16.lean`): reference counts of the pyramid table
under `putChunk` / `delChunk` folds and the invariant
`refcount c = number of registered files that contain c`.
-/
namespace Aurora.ChunkPyramid
open Aurora.Pinning (cnt inc cnt_inc lookup_map_upd lookup_filter_ne)

theorem refc_eq_cnt (m : List (Addr × Nat)) (a : Addr) : refc m a = cnt m a := rfl
theorem putChunk_eq_inc (m : List (Addr × Nat)) (a : Addr) : putChunk m a = inc m a := rfl

theorem refc_putChunk (m : List (Addr × Nat)) (a c : Addr) :
    refc (putChunk m a) c = if c = a then refc m a + 1 else refc m c := by
  simp only [refc_eq_cnt, putChunk_eq_inc, cnt_inc]

theorem refc_delChunk (m : List (Addr × Nat)) (a c : Addr) :
    refc (delChunk m a) c = if c = a then refc m a - 1 else refc m c := by
  unfold delChunk
  by_cases h : refc m a > 1
  · simp only [h, if_true]
    unfold refc
    rw [lookup_map_upd m a c (fun v => v - 1)]
    by_cases hc : c = a
    · subst hc
      cases hl : m.lookup c with
      | none => simp [hl]
      | some v => simp [hl]
    · simp [hc]
  · simp only [h, if_false]
    unfold refc
    rw [lookup_filter_ne]
    by_cases hc : c = a
    · subst hc
      simp only [if_true, Option.getD_none]
      unfold refc at h
      omega
    · simp [hc]

theorem refc_foldl_putChunk (l : List Addr) (hn : l.Nodup) (m : List (Addr × Nat)) (c : Addr) :
    refc (l.foldl putChunk m) c = refc m c + (if c ∈ l then 1 else 0) := by
  induction l generalizing m with
  | nil => simp
  | cons a l ih =>
    have hnd := List.nodup_cons.mp hn
    simp only [List.foldl]
    rw [ih hnd.2, refc_putChunk]
    by_cases hca : c = a
    · subst hca
      have : c ∉ l := hnd.1
      simp [this]
    · by_cases hcl : c ∈ l
      · simp [hca, hcl]
      · simp [hca, hcl]

theorem refc_foldl_delChunk (l : List Addr) (hn : l.Nodup) (m : List (Addr × Nat)) (c : Addr) :
    refc (l.foldl delChunk m) c = refc m c - (if c ∈ l then 1 else 0) := by
  induction l generalizing m with
  | nil => simp
  | cons a l ih =>
    have hnd := List.nodup_cons.mp hn
    simp only [List.foldl]
    rw [ih hnd.2, refc_delChunk]
    by_cases hca : c = a
    · subst hca
      have : c ∉ l := hnd.1
      simp [this]
    · by_cases hcl : c ∈ l
      · simp [hca, hcl]
      · simp [hca, hcl]

theorem mem_dedup (l : List Addr) (a : Addr) : a ∈ dedup l ↔ a ∈ l := by
  induction l with
  | nil => simp [dedup]
  | cons b l ih =>
    simp only [dedup, List.mem_cons, List.mem_filter, ih]
    constructor
    · rintro (h | ⟨h, _⟩)
      · exact Or.inl h
      · exact Or.inr h
    · rintro (h | h)
      · exact Or.inl h
      · by_cases hab : a = b
        · exact Or.inl hab
        · exact Or.inr ⟨h, by simpa using hab⟩

theorem dedup_nodup (l : List Addr) : (dedup l).Nodup := by
  induction l with
  | nil => simp [dedup]
  | cons b l ih =>
    simp only [dedup]
    apply List.nodup_cons.mpr
    refine ⟨?_, ih.filter _⟩
    intro h
    have := (List.mem_filter.mp h).2
    simp at this

theorem cids_nodup (f : FileS) : f.cids.Nodup := dedup_nodup _
theorem hashOnly_nodup (f : FileS) : f.hashOnly.Nodup := (dedup_nodup _).filter _

/-- distinct chunks of a file: data chunks, then pyramid keys that are not data chunks -/
def chunksOf (f : FileS) : List Addr := f.cids ++ f.hashOnly

theorem chunksOf_nodup (f : FileS) : (chunksOf f).Nodup := by
  unfold chunksOf
  apply List.nodup_append.mpr
  refine ⟨dedup_nodup _, (dedup_nodup _).filter _, ?_⟩
  intro a ha b hb hab
  subst hab
  have := (List.mem_filter.mp hb).2
  simp at this
  exact this ha

theorem mem_chunksOf (f : FileS) (c : Addr) : c ∈ chunksOf f ↔ (c ∈ f.cids ∨ c ∈ f.hashOnly) := by
  simp [chunksOf]

theorem cids_hashOnly_disjoint (f : FileS) (c : Addr) (h1 : c ∈ f.cids) (h2 : c ∈ f.hashOnly) : False := by
  have := (List.mem_filter.mp h2).2
  simp at this
  exact this h1

/-- number of files of the registry that contain chunk `c` -/
def uses (reg : List FileS) (c : Addr) : Nat := (reg.filter (fun f => (chunksOf f).contains c)).length

/-- the pyramid table agrees with a registry of files -/
structure WF (reg : List FileS) (s : State) : Prop where
  refs : ∀ c, refc s.chunk c = uses reg c
  regd : ∀ r, s.registered r = true ↔ ∃ f ∈ reg, f.root = r
  uniq : (reg.map (·.root)).Nodup

theorem lookup_append_self_isSome (l : List (Addr × (Nat × Nat))) (r : Addr) (v : Nat × Nat) :
    ((l ++ [(r, v)]).lookup r).isSome = true := by
  induction l with
  | nil => simp [List.lookup]
  | cons e l ih =>
    obtain ⟨k, w⟩ := e
    by_cases hk : r = k
    · subst hk; simp [List.lookup]
    · have : (r == k) = false := by simpa using hk
      simp only [List.cons_append, List.lookup, this]; exact ih

theorem lookup_filter_append_ne (l : List (Addr × (Nat × Nat))) (root r : Addr) (v : Nat × Nat)
    (h : r ≠ root) :
    ((l.filter (fun e => e.1 != root)) ++ [(root, v)]).lookup r = l.lookup r := by
  have hr : (r == root) = false := by simpa using h
  induction l with
  | nil => simp [List.lookup, hr]
  | cons e l ih =>
    obtain ⟨k, w⟩ := e
    by_cases hk : k = root
    · subst hk
      simp only [List.filter, bne_self_eq_false, List.lookup, hr]
      exact ih
    · have hk' : (k != root) = true := by simpa using hk
      simp only [List.filter, hk', List.cons_append, List.lookup]
      by_cases hrk : r = k
      · subst hrk; simp
      · have : (r == k) = false := by simpa using hrk
        simp only [this]; exact ih

theorem registered_update (s : State) (f : FileS) (r : Addr) :
    (updateChunkPyramid s f).registered r = (decide (r = f.root) || s.registered r) := by
  unfold updateChunkPyramid State.registered
  simp only
  by_cases h : r = f.root
  · rw [h, lookup_append_self_isSome]; simp
  · rw [lookup_filter_append_ne _ _ _ _ h]; simp [h]

theorem registered_del (s : State) (root r : Addr) :
    ((s.hashData.filter (fun e => e.1 != root)).lookup r).isSome =
      (decide (r ≠ root) && s.registered r) := by
  unfold State.registered
  induction s.hashData with
  | nil => simp
  | cons e l ih =>
    obtain ⟨k, w⟩ := e
    by_cases hk : k = root
    · subst hk
      simp only [List.filter, bne_self_eq_false, List.lookup]
      by_cases hr : r = k
      · subst hr; simp [ih]
      · have : (r == k) = false := by simpa using hr
        simp only [this]; exact ih
    · have hk' : (k != root) = true := by simpa using hk
      simp only [List.filter, hk', List.lookup]
      by_cases hr : r = k
      · subst hr; simp [hk]
      · have : (r == k) = false := by simpa using hr
        simp only [this]; exact ih

theorem uses_append (reg : List FileS) (f : FileS) (c : Addr) :
    uses (reg ++ [f]) c = uses reg c + (if c ∈ chunksOf f then 1 else 0) := by
  unfold uses
  rw [List.filter_append, List.length_append]
  by_cases h : c ∈ chunksOf f
  · simp [List.filter, h]
  · simp [List.filter, h]

theorem uses_filter_root (reg : List FileS) (f : FileS) (c : Addr)
    (hn : (reg.map (·.root)).Nodup) (hf : f ∈ reg) :
    uses (reg.filter (fun g => g.root != f.root)) c + (if c ∈ chunksOf f then 1 else 0) = uses reg c := by
  induction reg with
  | nil => simp at hf
  | cons g reg ih =>
    simp only [List.map_cons] at hn
    have hnd := List.nodup_cons.mp hn
    by_cases hg : g = f
    · subst hg
      have hfil : reg.filter (fun x => x.root != g.root) = reg := by
        apply List.filter_eq_self.mpr
        intro x hx
        have : x.root ≠ g.root := fun e => hnd.1 (e ▸ List.mem_map_of_mem hx)
        simpa using this
      unfold uses
      by_cases hc : c ∈ chunksOf g
      · simp [List.filter, hfil, hc]
      · simp [List.filter, hfil, hc]
    · have hf' : f ∈ reg := by
        cases hf with
        | head => exact absurd rfl hg
        | tail _ h => exact h
      have hroot : g.root ≠ f.root := fun e => hnd.1 (e ▸ List.mem_map_of_mem hf')
      have hroot' : (g.root != f.root) = true := by simpa using hroot
      have := ih hnd.2 hf'
      unfold uses at this ⊢
      by_cases hcg : (chunksOf g).contains c = true
      · simp only [List.filter, hroot', hcg, List.length_cons] at this ⊢; omega
      · have hcg' : (chunksOf g).contains c = false := by simpa using hcg
        simp only [List.filter, hroot', hcg'] at this ⊢; omega

/-- registering an unregistered file -/
theorem wf_register (reg : List FileS) (s : State) (f : FileS) (h : WF reg s)
    (hnew : s.registered f.root = false) : WF (reg ++ [f]) (ensure s f) := by
  have hnot : ∀ g ∈ reg, g.root ≠ f.root := by
    intro g hg e
    have := (h.regd f.root).mpr ⟨g, hg, e⟩
    rw [hnew] at this; exact absurd this (by simp)
  unfold ensure
  simp only [hnew, Bool.false_eq_true, if_false]
  refine ⟨?_, ?_, ?_⟩
  · intro c
    show refc (f.hashOnly.foldl putChunk (f.cids.foldl putChunk s.chunk)) c = _
    rw [refc_foldl_putChunk f.hashOnly (hashOnly_nodup f), refc_foldl_putChunk f.cids (cids_nodup f),
      h.refs c, uses_append]
    by_cases h1 : c ∈ f.cids
    · have h2 : c ∉ f.hashOnly := fun h2 => cids_hashOnly_disjoint f c h1 h2
      have : c ∈ chunksOf f := (mem_chunksOf f c).mpr (Or.inl h1)
      simp [h1, h2, this]
    · by_cases h2 : c ∈ f.hashOnly
      · have : c ∈ chunksOf f := (mem_chunksOf f c).mpr (Or.inr h2)
        simp [h1, h2, this]
      · have : c ∉ chunksOf f := fun h3 => by
          rcases (mem_chunksOf f c).mp h3 with h4 | h4
          · exact h1 h4
          · exact h2 h4
        simp [h1, h2, this]
  · intro r
    rw [registered_update]
    constructor
    · intro hr
      by_cases hrf : r = f.root
      · exact ⟨f, by simp, hrf.symm⟩
      · simp [hrf] at hr
        obtain ⟨g, hg, hgr⟩ := (h.regd r).mp hr
        exact ⟨g, by simp [hg], hgr⟩
    · rintro ⟨g, hg, hgr⟩
      rcases List.mem_append.mp hg with hg | hg
      · have := (h.regd r).mpr ⟨g, hg, hgr⟩
        simp [this]
      · simp at hg; subst hg; simp [hgr]
  · rw [List.map_append]
    apply List.nodup_append.mpr
    refine ⟨h.uniq, by simp, ?_⟩
    intro a ha b hb hab
    simp at hb
    subst hb; subst hab
    obtain ⟨g, hg, hgr⟩ := List.mem_map.mp ha
    exact hnot g hg hgr

/-- releasing a registered file -/
theorem wf_release (reg : List FileS) (s : State) (f : FileS) (h : WF reg s) (hf : f ∈ reg) :
    WF (reg.filter (fun g => g.root != f.root)) (delRootCid s f) := by
  have hreg : s.registered f.root = true := (h.regd f.root).mpr ⟨f, hf, rfl⟩
  unfold delRootCid
  simp only [hreg, Bool.not_true, Bool.false_eq_true, if_false]
  refine ⟨?_, ?_, ?_⟩
  · intro c
    show refc (f.cids.foldl delChunk (f.hashOnly.foldl delChunk s.chunk)) c = _
    rw [refc_foldl_delChunk f.cids (cids_nodup f), refc_foldl_delChunk f.hashOnly (hashOnly_nodup f), h.refs c]
    have := uses_filter_root reg f c h.uniq hf
    by_cases h1 : c ∈ f.cids
    · have h2 : c ∉ f.hashOnly := fun h2 => cids_hashOnly_disjoint f c h1 h2
      have h3 : c ∈ chunksOf f := (mem_chunksOf f c).mpr (Or.inl h1)
      simp only [h1, h2, h3, if_true, if_false] at this ⊢; omega
    · by_cases h2 : c ∈ f.hashOnly
      · have h3 : c ∈ chunksOf f := (mem_chunksOf f c).mpr (Or.inr h2)
        simp only [h1, h2, h3, if_true, if_false] at this ⊢; omega
      · have h3 : c ∉ chunksOf f := fun h3 => by
          rcases (mem_chunksOf f c).mp h3 with h4 | h4
          · exact h1 h4
          · exact h2 h4
        simp only [h1, h2, h3, if_false] at this ⊢; omega
  · intro r
    show ((s.hashData.filter (fun e => e.1 != f.root)).lookup r).isSome = true ↔ _
    rw [registered_del]
    constructor
    · intro hr
      simp only [Bool.and_eq_true, decide_eq_true_eq] at hr
      obtain ⟨g, hg, hgr⟩ := (h.regd r).mp hr.2
      exact ⟨g, List.mem_filter.mpr ⟨hg, by simpa [hgr] using hr.1⟩, hgr⟩
    · rintro ⟨g, hg, hgr⟩
      obtain ⟨hg1, hg2⟩ := List.mem_filter.mp hg
      have hne : g.root ≠ f.root := by simpa using hg2
      have := (h.regd r).mpr ⟨g, hg1, hgr⟩
      subst hgr
      simp [this, hne]
  · have : (reg.filter (fun g => g.root != f.root)).map (·.root) = (reg.map (·.root)).filter (· != f.root) := by
      rw [List.filter_map]; rfl
    rw [this]
    exact h.uniq.filter _

theorem nodup_of_nodup_map {α β : Type} (f : α → β) (l : List α) (h : (l.map f).Nodup) : l.Nodup := by
  induction l with
  | nil => simp
  | cons a l ih =>
    simp only [List.map_cons] at h
    have hnd := List.nodup_cons.mp h
    exact List.nodup_cons.mpr ⟨fun hm => hnd.1 (List.mem_map_of_mem hm), ih hnd.2⟩

/-- two different members of the registry containing `c` ⇒ at least two uses -/
theorem uses_ge_two (reg : List FileS) (f g : FileS) (c : Addr) (hf : f ∈ reg) (hg : g ∈ reg)
    (hne : f ≠ g) (hcf : c ∈ chunksOf f) (hcg : c ∈ chunksOf g) : 2 ≤ uses reg c := by
  induction reg with
  | nil => simp at hf
  | cons x reg ih =>
    unfold uses at ih ⊢
    by_cases hxf : x = f
    · subst hxf
      have hg' : g ∈ reg := by
        cases hg with
        | head => exact absurd rfl hne
        | tail _ h => exact h
      have h1 : (chunksOf x).contains c = true := by simpa using hcf
      have : 1 ≤ (reg.filter (fun y => (chunksOf y).contains c)).length := by
        apply List.length_pos_iff.mpr
        intro he
        have : g ∈ reg.filter (fun y => (chunksOf y).contains c) :=
          List.mem_filter.mpr ⟨hg', by simpa using hcg⟩
        rw [he] at this; simp at this
      simp only [List.filter, h1, List.length_cons]; omega
    · by_cases hxg : x = g
      · subst hxg
        have hf' : f ∈ reg := by
          cases hf with
          | head => exact absurd rfl (Ne.symm hxf)
          | tail _ h => exact h
        have h1 : (chunksOf x).contains c = true := by simpa using hcg
        have : 1 ≤ (reg.filter (fun y => (chunksOf y).contains c)).length := by
          apply List.length_pos_iff.mpr
          intro he
          have : f ∈ reg.filter (fun y => (chunksOf y).contains c) :=
            List.mem_filter.mpr ⟨hf', by simpa using hcf⟩
          rw [he] at this; simp at this
        simp only [List.filter, h1, List.length_cons]; omega
      · have hf' : f ∈ reg := by
          cases hf with
          | head => exact absurd rfl (Ne.symm hxf)
          | tail _ h => exact h
        have hg' : g ∈ reg := by
          cases hg with
          | head => exact absurd rfl (Ne.symm hxg)
          | tail _ h => exact h
        have := ih hf' hg'
        by_cases hx : (chunksOf x).contains c = true
        · simp only [List.filter, hx, List.length_cons]; omega
        · have hx' : (chunksOf x).contains c = false := by simpa using hx
          simp only [List.filter, hx']; exact this

theorem uses_pos (reg : List FileS) (g : FileS) (c : Addr) (hg : g ∈ reg) (hcg : c ∈ chunksOf g) :
    1 ≤ uses reg c := by
  unfold uses
  apply List.length_pos_iff.mpr
  intro he
  have : g ∈ reg.filter (fun y => (chunksOf y).contains c) := List.mem_filter.mpr ⟨hg, by simpa using hcg⟩
  rw [he] at this; simp at this

/-- only `f` contains `c` ⇒ exactly one use -/
theorem uses_eq_one (reg : List FileS) (f : FileS) (c : Addr) (hn : reg.Nodup) (hf : f ∈ reg)
    (hcf : c ∈ chunksOf f) (honly : ∀ g ∈ reg, g ≠ f → c ∉ chunksOf g) : uses reg c = 1 := by
  induction reg with
  | nil => simp at hf
  | cons x reg ih =>
    have hnd := List.nodup_cons.mp hn
    unfold uses at ih ⊢
    by_cases hxf : x = f
    · subst hxf
      have h1 : (chunksOf x).contains c = true := by simpa using hcf
      have : reg.filter (fun y => (chunksOf y).contains c) = [] := by
        apply List.filter_eq_nil_iff.mpr
        intro y hy
        have hyx : y ≠ x := fun e => hnd.1 (e ▸ hy)
        have := honly y (by simp [hy]) hyx
        simpa using this
      simp only [List.filter, h1, this, List.length_cons, List.length_nil]
    · have hf' : f ∈ reg := by
        cases hf with
        | head => exact absurd rfl (Ne.symm hxf)
        | tail _ h => exact h
      have hx : (chunksOf x).contains c = false := by
        have := honly x (by simp) hxf
        simpa using this
      simp only [List.filter, hx]
      exact ih hnd.2 hf' (fun g hg hgf => honly g (by simp [hg]) hgf)

end Aurora.ChunkPyramid
