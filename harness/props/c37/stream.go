package c37

import (
	"bytes"
	"context"
	"crypto/ecdsa"
	"crypto/sha256"
	"encoding/binary"
	"fmt"
	"io"
	"runtime"
	"strings"
	"sync"
	"time"

	"github.com/gauss-project/aurorafs/pkg/aurora"
	"github.com/gauss-project/aurorafs/pkg/boson"
	"github.com/gauss-project/aurorafs/pkg/crypto"
	"github.com/gauss-project/aurorafs/pkg/logging"
	"github.com/gauss-project/aurorafs/pkg/p2p"
	"github.com/gauss-project/aurorafs/pkg/p2p/protobuf"
	"github.com/gogo/protobuf/proto"
	ma "github.com/multiformats/go-multiaddr"

	"verifharness/core"
)

var noLog = logging.New(io.Discard, 0)

// ---- byte-level fake p2p.Stream: everything the remote peer "sent" is in `in`; reads past the end give io.EOF
// (the peer closed its side); everything the node writes is collected in `out`.

type fakeStream struct {
	mu      sync.Mutex
	in      *bytes.Reader
	out     bytes.Buffer
	headers p2p.Headers
	closed  bool
}

func newStream(in []byte) *fakeStream { return &fakeStream{in: bytes.NewReader(in)} }

func (s *fakeStream) Read(p []byte) (int, error) {
	s.mu.Lock()
	defer s.mu.Unlock()
	return s.in.Read(p)
}
func (s *fakeStream) Write(p []byte) (int, error) {
	s.mu.Lock()
	defer s.mu.Unlock()
	return s.out.Write(p)
}
func (s *fakeStream) Close() error                 { return nil }
func (s *fakeStream) ResponseHeaders() p2p.Headers { return nil }
func (s *fakeStream) Headers() p2p.Headers         { return s.headers }
func (s *fakeStream) FullClose() error             { return nil }
func (s *fakeStream) Reset() error                 { return nil }
func (s *fakeStream) written() []byte {
	s.mu.Lock()
	defer s.mu.Unlock()
	return append([]byte(nil), s.out.Bytes()...)
}

// fakeStreamer hands out streams whose incoming side is preloaded with `reply` (what the remote
// peer answers); every stream the node opens is recorded.
type fakeStreamer struct {
	mu      sync.Mutex
	reply   []byte
	fail    bool
	opened  []*fakeStream
	pingErr bool
}

func (f *fakeStreamer) setReply(b []byte) {
	f.mu.Lock()
	defer f.mu.Unlock()
	f.reply = b
}
func (f *fakeStreamer) open() (p2p.Stream, error) {
	f.mu.Lock()
	defer f.mu.Unlock()
	if f.fail {
		return nil, fmt.Errorf("fake: no stream")
	}
	s := newStream(f.reply)
	f.opened = append(f.opened, s)
	return s, nil
}
func (f *fakeStreamer) NewStream(ctx context.Context, address boson.Address, h p2p.Headers, protocol, version, stream string) (p2p.Stream, error) {
	return f.open()
}
func (f *fakeStreamer) NewRelayStream(ctx context.Context, address boson.Address, h p2p.Headers, protocol, version, stream string, midCall bool) (p2p.Stream, error) {
	return f.open()
}
func (f *fakeStreamer) NewConnChainRelayStream(ctx context.Context, target boson.Address, h p2p.Headers, protocolName, protocolVersion, streamName string) (p2p.Stream, error) {
	return f.open()
}
func (f *fakeStreamer) Ping(ctx context.Context, addr ma.Multiaddr) (time.Duration, error) {
	f.mu.Lock()
	defer f.mu.Unlock()
	if f.pingErr {
		return 0, fmt.Errorf("fake: unreachable")
	}
	return time.Millisecond, nil
}

// ---- framing helpers (the real length-delimited writer of pkg/p2p/protobuf)

func frame(msgs ...proto.Message) []byte {
	var b bytes.Buffer
	w := protobuf.NewWriter(&b)
	for _, m := range msgs {
		if err := w.WriteMsg(m); err != nil {
			panic("c37: frame: " + err.Error())
		}
	}
	return b.Bytes()
}

// rawFrame prefixes arbitrary bytes with their varint length.
func rawFrame(body []byte) []byte {
	var l [binary.MaxVarintLen64]byte
	n := binary.PutUvarint(l[:], uint64(len(body)))
	return append(append([]byte(nil), l[:n]...), body...)
}

// lenPrefix is only a varint length (a frame announcing n bytes that never come, or n > 1 MiB).
func lenPrefix(n uint64) []byte {
	var l [binary.MaxVarintLen64]byte
	k := binary.PutUvarint(l[:], n)
	return append([]byte(nil), l[:k]...)
}

// protobuf wire encoder for messages the generated marshaller cannot produce (wrong wire types,
// repeated scalar fields, unknown fields, truncated sub-messages).
type wire struct{ b []byte }

func (w *wire) tag(field, typ int) *wire {
	w.b = binary.AppendUvarint(w.b, uint64(field<<3|typ))
	return w
}
func (w *wire) varint(field int, v uint64) *wire {
	w.tag(field, 0)
	w.b = binary.AppendUvarint(w.b, v)
	return w
}
func (w *wire) bytes(field int, v []byte) *wire {
	w.tag(field, 2)
	w.b = binary.AppendUvarint(w.b, uint64(len(v)))
	w.b = append(w.b, v...)
	return w
}
func (w *wire) fixed32(field int, v uint32) *wire {
	w.tag(field, 5)
	w.b = binary.LittleEndian.AppendUint32(w.b, v)
	return w
}
func (w *wire) fixed64(field int, v uint64) *wire {
	w.tag(field, 1)
	w.b = binary.LittleEndian.AppendUint64(w.b, v)
	return w
}

// reader decodes successive frames of a stream with the REAL reader (one bufio reader for the whole
// stream, as a handler has).  ok=false means that read failed (decode error, EOF, oversize).
type frameReader struct{ r protobuf.Reader }

func newFrameReader(stream []byte) *frameReader {
	return &frameReader{r: protobuf.NewReader(bytes.NewReader(stream))}
}
func (f *frameReader) next(m proto.Message) (ok bool, eof bool) {
	err := f.r.ReadMsg(m)
	return err == nil, err == io.EOF
}

// ---- outcome of running real code under recover, with a time limit

type outcome struct {
	class string // ok | err | panic | hang
	pmsg  string // panic message
	site  string // innermost aurorafs function on the panicking stack
	err   error
}

func run(f func() error) (o outcome) {
	done := make(chan outcome, 1)
	go func() {
		var r outcome
		defer func() {
			if e := recover(); e != nil {
				r.class = "panic"
				r.pmsg = fmt.Sprint(e)
				r.site = panicSite()
			}
			done <- r
		}()
		if err := f(); err != nil {
			r.class, r.err = "err", err
		} else {
			r.class = "ok"
		}
	}()
	select {
	case o = <-done:
		return o
	case <-time.After(20 * time.Second):
		return outcome{class: "hang"}
	}
}

// panicSite names the innermost function of the aurorafs module on the current (panicking) stack.
func panicSite() string {
	pc := make([]uintptr, 64)
	n := runtime.Callers(3, pc)
	frames := runtime.CallersFrames(pc[:n])
	for {
		fr, more := frames.Next()
		if strings.Contains(fr.Function, "gauss-project/aurorafs/pkg/") {
			fn := fr.Function[strings.Index(fr.Function, "aurorafs/pkg/")+len("aurorafs/pkg/"):]
			return fn
		}
		if !more {
			break
		}
	}
	return "unknown"
}

// report turns a panic / hang into an oracle failure with a narrow clause.
// octx is what a step needs from *core.Ctx (the child process of the chunkinfo probe passes a sink that
// drops everything: only "did the process survive" counts there).
type octx interface {
	Annotate(tokens ...string)
	Fail(clause, format string, a ...interface{})
}

type nullCtx struct{}

func (nullCtx) Annotate(...string)                  {}
func (nullCtx) Fail(string, string, ...interface{}) {}

func report(ctx octx, o outcome, clause string, what string) {
	switch o.class {
	case "panic":
		ctx.Fail(clause, "%s: panic %q in %s", what, trunc(o.pmsg, 120), o.site)
	case "hang":
		ctx.Fail("hang-"+clause, "%s: no return within 20s", what)
	}
}

func trunc(s string, n int) string {
	if len(s) > n {
		return s[:n]
	}
	return s
}

// ---- deterministic identities

func keyOf(name string) *ecdsa.PrivateKey {
	h := sha256.Sum256([]byte("c37-key-" + name))
	return crypto.Secp256k1PrivateKeyFromBytes(h[:])
}

const networkID = 7

func overlayOf(name string) boson.Address {
	a, err := crypto.NewOverlayAddress(keyOf(name).PublicKey, networkID)
	if err != nil {
		panic(err)
	}
	return a
}

func addrN(tag byte, n int) boson.Address {
	b := make([]byte, 32)
	b[0] = tag
	b[31] = byte(n)
	return boson.NewAddress(b)
}

var fullMode = aurora.NewModel().SetMode(aurora.FullNode)

func hx(b []byte) string { return core.Hex(b) }

func optHex(present bool, b []byte) string {
	if !present {
		return "~"
	}
	return core.Hex(b)
}

func itoa(i int64) string { return fmt.Sprintf("%d", i) }
