import Aurora.Model.TrafficPersist
/-! Invariant of the repaired update (persist under the lock) over all interleavings. -/
namespace Aurora.TrafficPersist

def Inv (s : State) : Prop :=
  s.base ≤ s.mem ∧ s.store ≤ s.mem ∧
  (s.lock = none → restored s = s.mem) ∧
  (∀ t, s.lock = some t →
      ((s.thr t).pc = 1 ∧ restored s = s.mem) ∨
      ((s.thr t).pc = 2 ∧ restored s + (s.thr t).amt = s.mem) ∨
      ((s.thr t).pc = 3 ∧ s.store = s.mem)) ∧
  (∀ t, ((s.thr t).pc = 1 ∨ (s.thr t).pc = 2 ∨ (s.thr t).pc = 3) → s.lock = some t)

theorem inv_init (base st : Nat) : Inv (init base st) := by
  refine ⟨?_, ?_, ?_, ?_, ?_⟩ <;> simp [init, restored] <;> omega

theorem holder_pc (s : State) (h : Inv s) (t : Nat) (hl : s.lock = some t) :
    (s.thr t).pc = 1 ∨ (s.thr t).pc = 2 ∨ (s.thr t).pc = 3 := by
  rcases h.2.2.2.1 t hl with h1 | h1 | h1
  · exact Or.inl h1.1
  · exact Or.inr (Or.inl h1.1)
  · exact Or.inr (Or.inr h1.1)

theorem inv_step (s s' : State) (a : Act) (h : Inv s) (hs : stepNew s a = some s') :
    Inv s' ∧ s.store ≤ s'.store ∧ s.mem ≤ s'.mem ∧ s'.base = s.base := by
  obtain ⟨hb, hsm, hfree, hheld, hmutex⟩ := h
  cases a with
  | call t amt =>
    simp only [stepNew] at hs
    split at hs
    · rename_i hpc
      cases hs
      refine ⟨⟨hb, hsm, hfree, ?_, ?_⟩, Nat.le_refl _, Nat.le_refl _, rfl⟩
      · intro u hu
        have hne : u ≠ t := by
          intro e; subst e
          have := holder_pc s ⟨hb, hsm, hfree, hheld, hmutex⟩ u hu
          omega
        simpa [State.set, hne, restored] using hheld u hu
      · intro u hu
        by_cases e : u = t
        · subst e; simp [State.set] at hu
        · simp only [State.set, e, if_false] at hu; exact hmutex u hu
    · cases hs
  | lock t =>
    simp only [stepNew] at hs
    split at hs
    · rename_i hpc
      cases hs
      refine ⟨⟨hb, hsm, by simp, ?_, ?_⟩, Nat.le_refl _, Nat.le_refl _, rfl⟩
      · intro u hu
        simp only [Option.some.injEq] at hu; subst hu
        left; simp only [State.set, if_true, restored, true_and]
        exact hfree hpc.2
      · intro u hu
        by_cases e : u = t
        · subst e; rfl
        · simp only [State.set, e, if_false] at hu
          have := hmutex u hu; rw [hpc.2] at this; cases this
    · cases hs
  | add t =>
    simp only [stepNew] at hs
    split at hs
    · rename_i hpc
      cases hs
      have hl := hmutex t (Or.inl hpc)
      have hr : restored s = s.mem := by
        rcases hheld t hl with h1 | h1 | h1
        · exact h1.2
        · omega
        · omega
      refine ⟨⟨by simp only; omega, by simp only; omega, ?_, ?_, ?_⟩, Nat.le_refl _, by simp only; omega, rfl⟩
      · intro hn; simp only at hn; rw [hl] at hn; cases hn
      · intro u hu
        simp only at hu; rw [hl] at hu; cases hu
        right; left
        simp only [State.set, if_true, restored, true_and] at *
        omega
      · intro u hu
        by_cases e : u = t
        · subst e; exact hl
        · simp only [State.set, e, if_false] at hu; exact hmutex u hu
    · cases hs
  | persist t =>
    simp only [stepNew] at hs
    split at hs
    · rename_i hpc
      cases hs
      have hl := hmutex t (Or.inr (Or.inl hpc))
      refine ⟨⟨hb, Nat.le_refl _, ?_, ?_, ?_⟩, hsm, Nat.le_refl _, rfl⟩
      · intro hn; simp only at hn; rw [hl] at hn; cases hn
      · intro u hu
        simp only at hu; rw [hl] at hu; cases hu
        right; right
        simp [State.set]
      · intro u hu
        by_cases e : u = t
        · subst e; exact hl
        · simp only [State.set, e, if_false] at hu; exact hmutex u hu
    · cases hs
  | unlock t =>
    simp only [stepNew] at hs
    split at hs
    · rename_i hpc
      cases hs
      have hl := hmutex t (Or.inr (Or.inr hpc))
      have hst : s.store = s.mem := by
        rcases hheld t hl with h1 | h1 | h1
        · omega
        · omega
        · exact h1.2
      refine ⟨⟨hb, hsm, ?_, ?_, ?_⟩, Nat.le_refl _, Nat.le_refl _, rfl⟩
      · intro _; simp only [restored, hst]; omega
      · intro u hu; simp only at hu; cases hu
      · intro u hu
        by_cases e : u = t
        · subst e; simp [State.set] at hu
        · simp only [State.set, e, if_false] at hu
          have := hmutex u hu
          rw [hl] at this
          exact absurd (Option.some.inj this).symm e
    · cases hs
  | read t => simp [stepNew] at hs

theorem inv_exec (acts : List Act) : ∀ (s s' : State), Inv s → exec stepNew s acts = some s' →
    Inv s' ∧ s.store ≤ s'.store ∧ s.mem ≤ s'.mem ∧ s'.base = s.base := by
  induction acts with
  | nil => intro s s' h he; simp only [exec, Option.some.injEq] at he; subst he; exact ⟨h, Nat.le_refl _, Nat.le_refl _, rfl⟩
  | cons a as ih =>
    intro s s' h he
    simp only [exec] at he
    cases hstep : stepNew s a with
    | none => simp [hstep] at he
    | some s1 =>
      simp only [hstep] at he
      have h1 := inv_step s s1 a h hstep
      have h2 := ih s1 s' h1.1 he
      exact ⟨h2.1, by omega, by omega, by rw [h2.2.2.2, h1.2.2.2]⟩

theorem exec_append (step : State → Act → Option State) (a b : List Act) (s : State) :
    exec step s (a ++ b) = (exec step s a).bind (fun s1 => exec step s1 b) := by
  induction a generalizing s with
  | nil => rfl
  | cons x xs ih =>
    simp only [List.cons_append, exec]
    cases step s x with
    | none => rfl
    | some s1 => exact ih s1

end Aurora.TrafficPersist
