/-
Model of /repo/pkg/p2p/libp2p/internal/blocklist/blocklist.go (hand translation, tied by
the C25 correspondence run).

The state store is an association list `Addr ↦ (timestamp, duration)`; times and
durations are `Int` nanoseconds (Go: `time.Time` relative to a fixed base, `time.Duration`
= int64; the harness keeps `now − timestamp` far inside the int64 range, so `Time.Sub`
never saturates).  `dur = 0` means "forever"; `get` answers the sentinel duration `-1`
for a key that is not stored — which `Add` then feeds into its comparison, exactly as the
Go code does.
-/
namespace Aurora.Blocklist

abbrev Addr := String

structure Entry where
  ts  : Int
  dur : Int
deriving Repr, DecidableEq

abbrev State := List (Addr × Entry)

/-- `store.Get(key)`. -/
def lookup (a : Addr) : State → Option Entry
  | [] => none
  | (b, e) :: s => if b = a then some e else lookup a s

/-- `store.Delete(key)`. -/
def erase (a : Addr) : State → State
  | [] => []
  | (b, e) :: s => if b = a then erase a s else (b, e) :: erase a s

/-- `store.Put(key, entry)`. -/
def put (a : Addr) (e : Entry) (s : State) : State := (a, e) :: erase a s

/-- the duration `get` returns: the stored one, or the sentinel `-1` with `ErrNotFound`. -/
def getDur (s : State) (a : Addr) : Int :=
  match lookup a s with
  | some e => e.dur
  | none => -1

/-- `timeNow().Sub(timestamp) > duration && duration != 0` -/
def expired (now : Int) (e : Entry) : Bool :=
  decide (now - e.ts > e.dur) && decide (e.dur ≠ 0)

/-- `if duration < d && duration != 0 || d == 0 { duration = d }` -/
def mergeDur (duration d : Int) : Int :=
  if (duration < d ∧ duration ≠ 0) ∨ d = 0 then d else duration

/-- `Add(overlay, duration)` at clock `now`. -/
def add (s : State) (now : Int) (a : Addr) (duration : Int) : State :=
  put a ⟨now, mergeDur duration (getDur s a)⟩ s

/-- `Remove(overlay)`. -/
def remove (s : State) (a : Addr) : State := erase a s

/-- `Exists(overlay)` at clock `now`: answer and the state after the lazy delete. -/
def existsOp (s : State) (now : Int) (a : Addr) : State × Bool :=
  match lookup a s with
  | none => (s, false)
  | some e => if expired now e then (erase a s, false) else (s, true)

/-- `Peers()` at clock `now` (no lazy delete here), in store order. -/
def peers (s : State) (now : Int) : List (Addr × Entry) :=
  s.filter (fun p => !expired now p.2)

/-! ### histories -/

inductive Op where
  | add (a : Addr) (d : Int)
  | remove (a : Addr)
  | exists_ (a : Addr)
  | peers
  | tick (dt : Nat)
deriving Repr, DecidableEq

structure Sys where
  now : Int
  st  : State
deriving Repr

def step (σ : Sys) : Op → Sys
  | .add a d => { σ with st := add σ.st σ.now a d }
  | .remove a => { σ with st := remove σ.st a }
  | .exists_ a => { σ with st := (existsOp σ.st σ.now a).1 }
  | .peers => σ
  | .tick dt => { σ with now := σ.now + dt }

def run (σ : Sys) (ops : List Op) : Sys := ops.foldl step σ

/-- what `Exists(a)` answers in `σ` -/
def blocked (σ : Sys) (a : Addr) : Bool := (existsOp σ.st σ.now a).2

/-- the addresses `Peers()` lists in `σ` -/
def listed (σ : Sys) : List Addr := (peers σ.st σ.now).map Prod.fst

end Aurora.Blocklist
