import Aurora.Lemmas.Soc
import Aurora.Props.C04
/-!
# C05 — Single-owner chunks bind address, owner and signature

Model: `Aurora/Model/Soc.lean` (hand translation of `/repo/pkg/soc/{soc.go,validator.go}`) over
the `Cac`/BMT models, a base hash `H` and a signature scheme `S : SigScheme` standing for
`/repo/pkg/crypto/signer.go`.  Nothing about `S` or `H` is assumed globally; each theorem lists the
laws it needs as hypotheses:

* correctness `hrec : recover (sign k m) m = some (pub k)` and signature / address lengths
  (round trip);
* collision-freedom of `H` on exactly the inputs evaluated in the two computations compared
  (`CollisionFree H (socInputs …)`, in the style of C04);
* unforgeability in the form of DESIGN §3.6: *only the genuine signature opens under the owner's
  key* — `hunf : recover sig m = some (pub k) → sig = sign k m` — together with injectivity of
  `ethAddr` on the recovered keys (`haddr`) and of `sign k` on the two digests (`hsinj`).
  For ECDSA `hunf` holds only up to signature malleability (`s ↦ n − s` with the recovery bit
  flipped verifies for the same key); that change is not a single-byte mutation, and the
  correspondence run exercises every single-byte mutation of the 65 signature bytes on real
  secp256k1 keys.  For a changed signature the adversary hypothesis `hfresh` says the new
  signature is not one the owner produced for the (possibly new) digest.

Parameters: `seg > 0`, depth `d` (repository: 32, 12), any stale pooled tree buffers.
-/
namespace Aurora.Soc
open Aurora.Bmt Aurora.Cac

variable (S : SigScheme) (H : Bytes → Bytes)

/-- **Validity, exactly**: a chunk is a valid SOC iff it has at least 105 bytes, wraps at most
    `maxSize + 8` bytes, the signature's recovery byte is canonical (≤ 30; the `fix:` of C05), and
    the signature over `H(id ‖ wrapped address)` recovers a key whose 20-byte address `o` satisfies
    `chunk address = H(id ‖ o)`. -/
theorem C05_valid_iff (seg d : Nat) (hs : 0 < seg) (stale : Bytes) (hb : stale.length = maxSize seg d)
    (c : Chunk) :
    valid S H seg d stale c = true ↔
      105 ≤ c.data.length ∧ c.data.length ≤ 97 + (maxSize seg d + 8) ∧
      ((sigOf c.data).getD 64 0).toNat ≤ 30 ∧
      ∃ pk, S.recover (sigOf c.data) (H (idOf c.data ++ wrappedAddr H seg d c.data)) = some pk ∧
        (S.ethAddr pk).length = 20 ∧ c.addr = H (idOf c.data ++ S.ethAddr pk) :=
  valid_iff S H seg d hs stale hb c

/-- `valid` in the form of DESIGN §6: a parse exists whose owner the address commits to. -/
theorem C05_valid_iff_parse (seg d : Nat) (hs : 0 < seg) (stale : Bytes) (hb : stale.length = maxSize seg d)
    (c : Chunk) :
    valid S H seg d stale c = true ↔
      ∃ s, fromChunk S H seg d stale c.data = some s ∧ s.owner.length = 20 ∧
        c.addr = H (s.id ++ s.owner) := by
  rw [valid_iff S H seg d hs stale hb c]
  constructor
  · rintro ⟨h1, h2, h3, pk, hpk, h4, ha⟩
    exact ⟨_, (fromChunk_some_iff S H seg d hs stale hb c.data _).mpr ⟨h1, h2, h3, pk, hpk, h4, rfl⟩, h4, ha⟩
  · rintro ⟨s, hf, _, ha⟩
    obtain ⟨h1, h2, h3, pk, hpk, h4, rfl⟩ := (fromChunk_some_iff S H seg d hs stale hb c.data s).mp hf
    exact ⟨h1, h2, h3, pk, hpk, h4, ha⟩

/-- **Address formula**: signing produces the chunk `id ‖ sig ‖ wrapped data` at address
    `H(id ‖ owner)`, where `owner` is the key's Ethereum address and `sig` signs
    `H(id ‖ wrapped address)`. -/
theorem C05_address_formula (k : S.SK) (id : Bytes) (ch : Chunk)
    (ho : (S.ethAddr (S.pub k)).length = 20) :
    sign S H k id ch = some
      { addr := H (id ++ S.ethAddr (S.pub k)),
        data := id ++ S.sign k (H (id ++ ch.addr)) ++ ch.data } := by
  simp [sign, Soc.toChunk, Soc.address, Soc.toBytes, createAddress, addressSize, ho]

/-- `CreateAddress(id, owner)` is `H(id ‖ owner)`. -/
theorem C05_create_address (id owner : Bytes) : createAddress H id owner = H (id ++ owner) := rfl

/-- **Round trip**: a SOC signed with key `k` over a valid wrapped chunk is valid and parses back
    to the same id, the key's address as owner, the same signature and the same wrapped chunk
    (`hrid`: the signer emits a canonical recovery byte — 27/28 for `defaultSigner`). -/
theorem C05_sign_valid_roundtrip (seg d : Nat) (hs : 0 < seg) (stale stale' : Bytes)
    (hb : stale.length = maxSize seg d) (hb' : stale'.length = maxSize seg d)
    (hrec : ∀ k m, S.recover (S.sign k m) m = some (S.pub k))
    (hsig : ∀ k m, (S.sign k m).length = 65)
    (k : S.SK) (ho : (S.ethAddr (S.pub k)).length = 20)
    (id : Bytes) (hid : id.length = 32) (ch : Chunk) (hch : Cac.valid H seg d stale' ch = true)
    (hrid : ((S.sign k (H (id ++ ch.addr))).getD 64 0).toNat ≤ 30) :
    ∃ c, sign S H k id ch = some c ∧
      fromChunk S H seg d stale c.data =
        some { id := id, owner := S.ethAddr (S.pub k), sig := S.sign k (H (id ++ ch.addr)), chunk := ch } ∧
      valid S H seg d stale c = true := by
  refine ⟨_, C05_address_formula S H k id ch ho, ?_, ?_⟩
  all_goals
    obtain ⟨c1, c2, c3⟩ := (C04_valid_iff H seg d hs stale' hb' ch).mp hch
    obtain ⟨f1, f2, f3⟩ := fields_of_append id (S.sign k (H (id ++ ch.addr))) ch.data hid (hsig _ _)
    have hlen : (id ++ S.sign k (H (id ++ ch.addr)) ++ ch.data).length = 97 + ch.data.length := by
      simp [hid, hsig]; omega
    have hw : wrappedAddr H seg d (id ++ S.sign k (H (id ++ ch.addr)) ++ ch.data) = ch.addr := by
      unfold wrappedAddr; rw [f3, c3]
  · dsimp only
    rw [fromChunk_some_iff S H seg d hs stale hb]
    refine ⟨by omega, by omega, by unfold recIdOk; rw [f2]; exact hrid, S.pub k, ?_, ho, ?_⟩
    · unfold digestOf; rw [f1, f2, hw]; exact hrec _ _
    · rw [f1, f2, f3, hw]
  · rw [valid_iff S H seg d hs stale hb]
    dsimp only
    refine ⟨by omega, by omega, by unfold recIdOk; rw [f2]; exact hrid, S.pub k, ?_, ho, ?_⟩
    · unfold digestOf; rw [f1, f2, hw]; exact hrec _ _
    · rw [f1]

/-- **Changing the address invalidates** (no hypothesis): a valid SOC under any other address is
    invalid. -/
theorem C05_tamper_address_invalid (seg d : Nat) (stale : Bytes) (c : Chunk) (addr' : Bytes)
    (hv : valid S H seg d stale c = true) (hne : addr' ≠ c.addr) :
    valid S H seg d stale { c with addr := addr' } = false := by
  unfold valid at hv ⊢
  cases hf : fromChunk S H seg d stale c.data with
  | none => simp [hf] at hv
  | some s =>
    simp only [hf] at hv ⊢
    cases ha : s.address H with
    | none => simp [ha] at hv
    | some a =>
      simp only [ha] at hv ⊢
      have : c.addr = a := by simpa using hv
      simp [← this, hne]

/-- **The repaired defect**: a signature whose recovery byte exceeds 30 (btcec's compressed-key
    variants 31..34, which recover the *same* key as 27..30) is never valid — before the `fix:`
    commit, xor-ing byte 96 of a signed SOC with 4 (v = 27) or 60 (v = 28) gave a second valid chunk. -/
theorem C05_noncanonical_recid_invalid (seg d : Nat) (hs : 0 < seg) (stale : Bytes)
    (hb : stale.length = maxSize seg d) (c : Chunk) (h : ((sigOf c.data).getD 64 0).toNat > 30) :
    valid S H seg d stale c = false := by
  cases hv : valid S H seg d stale c with
  | false => rfl
  | true =>
    have := ((valid_iff S H seg d hs stale hb c).mp hv).2.2.1
    unfold recIdOk at this
    omega

/-- the inputs on which `H` is evaluated by `FromChunk` + `address()` for `data` (BMT of the wrapped
    chunk, the signed digest, and the address of the recovered owner if recovery succeeds) -/
def socInputs (seg d : Nat) (data : Bytes) : List Bytes :=
  hashInputs H seg d ((wrapOf data).take 8) ((wrapOf data).drop 8) ++
  [idOf data ++ wrappedAddr H seg d data] ++
  (match S.recover (sigOf data) (digestOf H seg d data) with
   | some pk => [idOf data ++ S.ethAddr pk]
   | none => [])

/-- Core of the tamper theorems: if two serialisations (≥ 97 bytes) are valid for the *same*
    address and `H` has no collision on the address pre-images, they carry the same id and their
    signatures recover keys with the same Ethereum address. -/
theorem same_address_same_id_owner (seg d : Nat) (hs : 0 < seg) (stale : Bytes) (hb : stale.length = maxSize seg d)
    (a : Bytes) (d1 d2 : Bytes)
    (hv1 : valid S H seg d stale { addr := a, data := d1 } = true)
    (hv2 : valid S H seg d stale { addr := a, data := d2 } = true)
    (cf : CollisionFree H (socInputs S H seg d d1 ++ socInputs S H seg d d2)) :
    idOf d1 = idOf d2 ∧ ∃ pk1 pk2, S.recover (sigOf d1) (digestOf H seg d d1) = some pk1 ∧
      S.recover (sigOf d2) (digestOf H seg d d2) = some pk2 ∧ S.ethAddr pk1 = S.ethAddr pk2 := by
  obtain ⟨l1, _, _, pk1, r1, o1, a1⟩ := (valid_iff S H seg d hs stale hb _).mp hv1
  obtain ⟨l2, _, _, pk2, r2, o2, a2⟩ := (valid_iff S H seg d hs stale hb _).mp hv2
  simp only at l1 l2 r1 r2 a1 a2
  have hcol := cf (idOf d1 ++ S.ethAddr pk1) (by simp [socInputs, r1]) (idOf d2 ++ S.ethAddr pk2)
    (by simp [socInputs, r2]) (a1.symm.trans a2)
  have hi1 : (idOf d1).length = 32 := (split_fields d1 (by omega)).2.1
  have hi2 : (idOf d2).length = 32 := (split_fields d2 (by omega)).2.1
  have := List.append_inj hcol (by rw [hi1, hi2])
  exact ⟨this.1, pk1, pk2, r1, r2, this.2⟩

/-- **Changing the id invalidates**: under collision-freedom of `H` on the evaluated inputs, a
    serialisation with a different id (first 32 bytes) is not valid for the address of a valid SOC. -/
theorem C05_tamper_id_invalid (seg d : Nat) (hs : 0 < seg) (stale : Bytes) (hb : stale.length = maxSize seg d)
    (c : Chunk) (data' : Bytes) (hv : valid S H seg d stale c = true)
    (hid : idOf data' ≠ idOf c.data)
    (cf : CollisionFree H (socInputs S H seg d c.data ++ socInputs S H seg d data')) :
    valid S H seg d stale { c with data := data' } = false := by
  cases hv' : valid S H seg d stale { c with data := data' } with
  | false => rfl
  | true =>
    exact absurd (same_address_same_id_owner S H seg d hs stale hb c.addr c.data data' hv hv' cf).1.symm hid

/-- **Changing the wrapped payload invalidates**: for the SOC signed by `k` (id, signature kept,
    span ‖ payload replaced by different bytes of the same length), under collision-freedom, fixed
    digest length, injectivity of `ethAddr` on the recovered keys, unforgeability (`hunf`) and
    `sign k` being injective on the two digests. -/
theorem C05_tamper_payload_invalid (seg d : Nat) (hs : 0 < seg) (stale : Bytes) (hb : stale.length = maxSize seg d)
    (hlen : ∀ x, (H x).length = seg)
    (k : S.SK) (c : Chunk) (data' : Bytes)
    (hv : valid S H seg d stale c = true)
    (hrk : S.recover (sigOf c.data) (digestOf H seg d c.data) = some (S.pub k))
    (hsg : sigOf c.data = S.sign k (digestOf H seg d c.data))
    (hid : idOf data' = idOf c.data) (hsig : sigOf data' = sigOf c.data)
    (hl : data'.length = c.data.length) (hne : wrapOf data' ≠ wrapOf c.data)
    (cf : CollisionFree H (socInputs S H seg d c.data ++ socInputs S H seg d data'))
    (haddr : ∀ pk, S.ethAddr pk = S.ethAddr (S.pub k) → pk = S.pub k)
    (hunf : ∀ sig m, S.recover sig m = some (S.pub k) → sig = S.sign k m)
    (hsinj : S.sign k (digestOf H seg d c.data) = S.sign k (digestOf H seg d data') →
              digestOf H seg d c.data = digestOf H seg d data') :
    valid S H seg d stale { c with data := data' } = false := by
  cases hv' : valid S H seg d stale { c with data := data' } with
  | false => rfl
  | true =>
    exfalso
    obtain ⟨_, pk1, pk2, r1, r2, he⟩ := same_address_same_id_owner S H seg d hs stale hb c.addr c.data data' hv hv' cf
    obtain ⟨l1, l1', _⟩ := (valid_iff S H seg d hs stale hb _).mp hv
    rw [hrk] at r1; cases r1
    have e2 : pk2 = S.pub k := haddr pk2 he.symm
    subst e2
    have s2 := hunf _ _ r2
    rw [hsig, hsg] at s2
    have hd := hsinj s2
    -- equal digests → equal wrapped addresses → equal wrapped chunks
    unfold digestOf at hd
    have hcol2 := cf _ (by simp [socInputs]) _ (by simp [socInputs]) hd
    rw [hid] at hcol2
    have hw : wrappedAddr H seg d c.data = wrappedAddr H seg d data' := (List.append_inj hcol2 rfl).2
    have hwl : (wrapOf data').length = (wrapOf c.data).length := by simp [wrapOf, hl]
    have hwl8 : 8 ≤ (wrapOf c.data).length := by simp only [wrapOf, List.length_drop]; omega
    have cfb : CollisionFree H (hashInputs H seg d ((wrapOf c.data).take 8) ((wrapOf c.data).drop 8) ++
        hashInputs H seg d ((wrapOf data').take 8) ((wrapOf data').drop 8)) := by
      intro x hx y hy
      apply cf <;> simp only [socInputs, List.mem_append] at * <;> grind
    have := bmtHash_inj H seg d hlen _ _ _ _ (by simp [hwl]) (by simp [hwl])
      (by simp only [wrapOf, List.length_drop] at *; omega) cfb hw
    apply hne
    rw [← List.take_append_drop 8 (wrapOf data'), ← List.take_append_drop 8 (wrapOf c.data), this.1, this.2]

/-- **Changing the signature invalidates**: id kept, signature bytes changed (the wrapped payload
    may change too); `hfresh` is the adversary hypothesis — the new signature is not the one the
    owner's key produces for the new digest. -/
theorem C05_tamper_sig_invalid (seg d : Nat) (hs : 0 < seg) (stale : Bytes) (hb : stale.length = maxSize seg d)
    (k : S.SK) (c : Chunk) (data' : Bytes)
    (hv : valid S H seg d stale c = true)
    (hrk : S.recover (sigOf c.data) (digestOf H seg d c.data) = some (S.pub k))
    (cf : CollisionFree H (socInputs S H seg d c.data ++ socInputs S H seg d data'))
    (haddr : ∀ pk, S.ethAddr pk = S.ethAddr (S.pub k) → pk = S.pub k)
    (hunf : ∀ sig m, S.recover sig m = some (S.pub k) → sig = S.sign k m)
    (hfresh : sigOf data' ≠ S.sign k (digestOf H seg d data')) :
    valid S H seg d stale { c with data := data' } = false := by
  cases hv' : valid S H seg d stale { c with data := data' } with
  | false => rfl
  | true =>
    exfalso
    obtain ⟨_, pk1, pk2, r1, r2, he⟩ := same_address_same_id_owner S H seg d hs stale hb c.addr c.data data' hv hv' cf
    rw [hrk] at r1; cases r1
    have e2 : pk2 = S.pub k := haddr pk2 he.symm
    subst e2
    exact hfresh (hunf _ _ r2)

/-- **Any alteration of the serialised bytes invalidates** (same length): combines the three
    region theorems.  `data'` differs from the signed chunk's data somewhere; if the 65 signature
    bytes differ, `hfresh` is needed, otherwise `hsinj`. -/
theorem C05_tamper_invalid (seg d : Nat) (hs : 0 < seg) (stale : Bytes) (hb : stale.length = maxSize seg d)
    (hlen : ∀ x, (H x).length = seg)
    (k : S.SK) (c : Chunk) (data' : Bytes)
    (hv : valid S H seg d stale c = true)
    (hrk : S.recover (sigOf c.data) (digestOf H seg d c.data) = some (S.pub k))
    (hsg : sigOf c.data = S.sign k (digestOf H seg d c.data))
    (hl : data'.length = c.data.length) (hne : data' ≠ c.data)
    (cf : CollisionFree H (socInputs S H seg d c.data ++ socInputs S H seg d data'))
    (haddr : ∀ pk, S.ethAddr pk = S.ethAddr (S.pub k) → pk = S.pub k)
    (hunf : ∀ sig m, S.recover sig m = some (S.pub k) → sig = S.sign k m)
    (hsinj : S.sign k (digestOf H seg d c.data) = S.sign k (digestOf H seg d data') →
              digestOf H seg d c.data = digestOf H seg d data')
    (hfresh : sigOf data' ≠ sigOf c.data → sigOf data' ≠ S.sign k (digestOf H seg d data')) :
    valid S H seg d stale { c with data := data' } = false := by
  by_cases hid : idOf data' = idOf c.data
  · by_cases hsig : sigOf data' = sigOf c.data
    · have h105 : 105 ≤ c.data.length := ((valid_iff S H seg d hs stale hb c).mp hv).1
      apply C05_tamper_payload_invalid S H seg d hs stale hb hlen k c data' hv hrk hsg hid hsig hl ?_ cf haddr hunf hsinj
      intro hw
      apply hne
      rw [(split_fields data' (by omega)).1, (split_fields c.data (by omega)).1, hid, hsig, hw]
    · exact C05_tamper_sig_invalid S H seg d hs stale hb k c data' hv hrk cf haddr hunf (hfresh hsig)
  · exact C05_tamper_id_invalid S H seg d hs stale hb c data' hv hid cf

/-- The parameters the repository instantiates the model with. -/
theorem C05_consts :
    Aurora.Generated.chunkSize = maxSize 32 12 ∧ idSize + sigSize + Aurora.Generated.spanSize = minChunkSize ∧
    minChunkSize = 105 := by decide

/-! ## Non-vacuity: a toy scheme satisfying every hypothesis used above -/

/-- toy scheme: keys are bytes, `sign k m` = the first 65 bytes of `k :: m ++ zeros`; recovery
    succeeds only on exactly that string -/
def toySign (k : UInt8) (m : Bytes) : Bytes := (k :: m ++ List.replicate 64 0).take 65

def toyRecover : Bytes → Bytes → Option UInt8
  | [], _ => none
  | k :: rest, m => if k :: rest = toySign k m then some k else none

def toyScheme : SigScheme where
  SK := UInt8
  PK := UInt8
  pub := fun k => k
  sign := toySign
  recover := toyRecover
  ethAddr := fun pk => List.replicate 20 pk

theorem toySign_length (k : UInt8) (m : Bytes) : (toySign k m).length = 65 := by
  unfold toySign
  rw [List.length_take]
  simp only [List.length_cons, List.length_append, List.length_replicate]
  omega

theorem toySign_cons (k : UInt8) (m : Bytes) : ∃ t, toySign k m = k :: t := by
  unfold toySign
  exact ⟨(m ++ List.replicate 64 0).take 64, by rw [List.cons_append]; rfl⟩

/-- the toy scheme satisfies the correctness, length, address-injectivity and unforgeability
    hypotheses used by the theorems above -/
example : (∀ k m, toyScheme.recover (toyScheme.sign k m) m = some (toyScheme.pub k)) ∧
    (∀ k m, (toyScheme.sign k m).length = 65) ∧
    (∀ k, (toyScheme.ethAddr (toyScheme.pub k)).length = 20) ∧
    (∀ k pk, toyScheme.ethAddr pk = toyScheme.ethAddr (toyScheme.pub k) → pk = toyScheme.pub k) ∧
    (∀ k sig m, toyScheme.recover sig m = some (toyScheme.pub k) → sig = toyScheme.sign k m) := by
  refine ⟨?_, toySign_length, ?_, ?_, ?_⟩
  · intro k m
    show toyRecover (toySign k m) m = some k
    obtain ⟨t, ht⟩ := toySign_cons k m
    rw [ht]
    simp [toyRecover, ← ht]
    rfl
  · intro k; exact List.length_replicate ..
  · intro k pk h
    show pk = k
    have hm : pk ∈ List.replicate 20 pk := by simp
    have h' : List.replicate 20 pk = List.replicate 20 k := h
    rw [h'] at hm
    exact List.eq_of_mem_replicate hm
  · intro k sig m h
    show sig = toySign k m
    have h' : toyRecover sig m = some k := h
    cases sig with
    | nil => simp [toyRecover] at h'
    | cons a rest =>
      simp only [toyRecover] at h'
      split at h'
      · rename_i heq; cases h'; exact heq
      · cases h'

/-- `sign k` of the toy scheme is injective on 32-byte digests (hypothesis `hsinj`) -/
example (k : UInt8) (m m' : Bytes) (h1 : m.length = 32) (h2 : m'.length = 32)
    (h : toyScheme.sign k m = toyScheme.sign k m') : m = m' := by
  have key : ∀ x : Bytes, x.length = 32 → toySign k x = k :: x ++ List.replicate 32 0 := by
    intro x hx
    unfold toySign
    have : (List.replicate 64 (0 : UInt8)) = List.replicate 32 0 ++ List.replicate 32 0 := by decide
    rw [this, ← List.append_assoc]
    exact List.take_left' (by simp [hx])
  have h' : toySign k m = toySign k m' := h
  rw [key m h1, key m' h2] at h'
  simp only [List.cons_append, List.cons.injEq, true_and] at h'
  exact (List.append_inj h' (by rw [h1, h2])).1

/-- the toy signature has a canonical recovery byte on 32-byte digests (hypothesis `hrid`) -/
example (k : UInt8) (m : Bytes) (h : m.length = 32) : ((toySign k m).getD 64 0).toNat ≤ 30 := by
  have : toySign k m = k :: m ++ List.replicate 32 0 := by
    unfold toySign
    have : (List.replicate 64 (0 : UInt8)) = List.replicate 32 0 ++ List.replicate 32 0 := by decide
    rw [this, ← List.append_assoc]
    exact List.take_left' (by simp [h])
  rw [this, List.getD_eq_getElem?_getD, List.getElem?_append_right (by simp [h])]
  simp [h]

/-! A complete toy instance (1-byte hash, `seg = 1`, `d = 0`): the collision-freedom premise of the
    tamper theorems holds for a signed chunk and the same header over another payload. -/
def tH : Bytes → Bytes := fun x => [x.foldl (fun a b => a * 7 + b + 3) 1]
def tid : Bytes := List.replicate 32 5
def tw1 : Bytes := [1,0,0,0,0,0,0,0,7]
def tw2 : Bytes := [1,0,0,0,0,0,0,0,9]
def tsig : Bytes := toySign 11 (tH (tid ++ bmtHash tH 1 0 (tw1.take 8) (tw1.drop 8)))
def td1 : Bytes := tid ++ tsig ++ tw1
def td2 : Bytes := tid ++ tsig ++ tw2

set_option maxRecDepth 100000 in
example : CollisionFree tH (socInputs toyScheme tH 1 0 td1 ++ socInputs toyScheme tH 1 0 td2) := by
  unfold CollisionFree
  decide

set_option maxRecDepth 100000 in
example : valid toyScheme tH 1 0 [0,0] { addr := tH (tid ++ List.replicate 20 11), data := td1 } = true ∧
    valid toyScheme tH 1 0 [0,0] { addr := tH (tid ++ List.replicate 20 11), data := td2 } = false := by
  decide

end Aurora.Soc
